"""
C19  Bit-level reading and writing are exact inverses for every width (structural part).

The BitStringBitReader / BitStringBitWriter methods are evaluated by PathEval against a model of
the bitstring stream object that only *records* the format strings / Bits objects handed to it
(bitstring itself is the trusted base).  Widths 1..64 are folded exhaustively.

R1 reader/writer pairing per type      R2 set_uint overwrites exactly nbits bits
R3 missing table (= C01.R7)            R4 wrapper who-may-call (= C12.R2)
R5 abstract completeness               R6 bytes are space-padded / truncated; latin-1
R7 position accessors                  R8 skip writes zeros
"""
from __future__ import print_function

import ast
import re

from sa.model import AnalysisError, norm
from sa.patheval import Interp, Native, Obj, Sym, Top, ModRef, UnknownMethod, Raise
from sa.report import RuleResult

FMT = re.compile(r'^(uintbe|uint|intbe|int|bool|bin|bytes)(?::(\d+))?(?:=(.*))?$')


class Stream(Native):
    """Model of bitstring.BitStream: records what is read / appended / overwritten."""

    def __init__(self, interp, script=None):
        self.interp = interp
        self.k = 0
        self.script = list(script or [])     # raw unsigned values of the first reads; further reads are symbolic

    def __repr__(self):
        return 'Stream'

    def get_attr(self, name, interp, frame):
        if name in ('pos', 'len', 'bytes', 'length', 'bitpos'):
            return Sym('stream.' + name)
        return Native.get_attr

    def call_method(self, name, args, kwargs, interp, frame, node):
        if name == 'read':
            p0 = parse(args[0]) if args else None
            if p0 and p0[0] in ('uint', 'uintbe', 'int', 'intbe') and p0[1] == 0:
                # bitstring cannot interpret a zero-length bitstring as an integer: ValueError, not a bitstring.Error (trusted-base
                # fact, confirmed by experiment: read('uint:0') -> ValueError)
                interp.event('read-zero-length-integer', args[0])
                raise Raise('ValueError', node, interp.where(node, frame))
            interp.event('read', args[0] if args else None)
            self.k += 1
            if self.k <= len(self.script):
                raw = self.script[self.k - 1]
                p = parse(args[0]) if args else None
                if p and p[0] == 'bool':
                    return bool(raw)
                if p and p[0] in ('uint', 'uintbe'):
                    return raw
                return Top('read')
            return Sym('raw%d' % (self.k - 1))
        interp.event('streamcall', name, list(args))
        return Top('call:' + name)

    def aug_assign(self, op, value, interp, frame, node):
        if op is ast.Add:
            p0 = parse(value) if isinstance(value, str) else None
            if p0 and p0[0] in ('uint', 'uintbe', 'int', 'intbe') and p0[1] == 0:
                # (bitstring: "A non-zero length must be specified" - ValueError)
                interp.event('write-zero-length-integer', value)
                raise Raise('ValueError', node, interp.where(node, frame))
            interp.event('write', value)
        else:
            interp.event('streamop', op.__name__, value)


class BitInterp(Interp):
    def on_load_attr(self, base, attr, node, frame):
        if isinstance(base, ModRef) and base.name == 'six':
            if attr == 'text_type':
                return ('builtin', 'str')
            if attr == 'binary_type':
                return ('builtin', 'bytes')
        return self.NOT_HANDLED

    def on_call(self, text, callee, args, kwargs, node, frame):
        # a bitstring constructor, however it is reached (`bitstring.Bits(...)`, an alias kept on the object, a module-level alias)
        from sa.patheval import UnknownMethod
        ctor = text.split('.')[-1] if text.startswith('bitstring.') else None
        if ctor is None and isinstance(callee, UnknownMethod) and isinstance(callee.recv, ModRef) and callee.recv.name == 'bitstring':
            ctor = callee.name
        if ctor in ('Bits', 'BitStream', 'BitArray', 'ConstBitStream'):
            if getattr(self, 'constructing', None) is not None and ctor in ('BitStream', 'ConstBitStream', 'BitArray') and not kwargs.get('uint') and not kwargs.get('bytes') == b'':
                # the stream the reader / writer object is built around
                if not (args or kwargs) or 'bytes' in kwargs or args:
                    return self.constructing
            return Obj('Bits', dict(kwargs, _args=list(args)))
        return self.NOT_HANDLED

    def on_store_subscript(self, base, idx, value, node, frame):
        if isinstance(base, Stream):
            self.event('set', idx, value)
            return True
        return False


def new_obj(interp, cls, script=None):
    """The reader / writer object as its constructor leaves it: cls.__init__ folded with the stream model standing for the bitstring
    stream it creates (so that whatever else the constructor keeps on the object - aliases of bitstring classes, say - is there)."""
    stream = Stream(interp, script)
    o = Obj(cls, {'bit_stream': stream, 'bitstring_Error': Top('bitstring.Error')})
    init = interp.repo.method(cls, '__init__', required=False)
    if init is None:
        return o
    it = BitInterp(interp.repo, cls)
    it.constructing = stream
    try:
        res = it.run_function(init, lambda: dict([('self', Obj(cls, {}))] + [(p, Sym('INPUT')) for p in init.params[1:]]), self_class=cls)
    except AnalysisError:
        return o
    oks = [r for r in res if r.ok]
    if len(oks) != 1:
        return o
    built = oks[0].locals['self']
    for k, v in built.fields.items():
        if k not in o.fields:
            o.fields[k] = v
        elif v is stream:
            o.fields[k] = stream
    # (an attribute that holds the stream under another name)
    return o


def one_bit(p):
    """A parsed read format that takes exactly one bit."""
    return bool(p) and ((p[0] == 'bool' and p[1] is None) or (p[0] in ('uint', 'uintbe') and p[1] == 1))


def call(repo, cls, meth, args, script=None):
    """Evaluate cls.meth(*args) on a fresh object; returns list of Results."""
    fi = repo.method(cls, meth)
    it = BitInterp(repo, cls)

    def mk():
        loc = {'self': new_obj(it, cls, script)}
        for p, a in zip(fi.params[1:], args):
            loc[p] = a
        if len(args) < len(fi.params) - 1:
            # defaults
            nd = len(fi.defaults)
            for i, p in enumerate(fi.params[1:][len(args):], start=len(args) + 1):
                di = i - (len(fi.params) - nd)
                loc[p] = ast.literal_eval(fi.defaults[di]) if di >= 0 else Top('param')
        return loc
    return fi, it.run_function(fi, mk, self_class=cls)


def parse(fmt):
    if not isinstance(fmt, str):
        return None
    m = FMT.match(fmt)
    if not m:
        return None
    return m.group(1), (int(m.group(2)) if m.group(2) is not None else None), m.group(3)


def uint_kind_ok(kind, n):
    # bitstring: 'uint' for any length; 'uintbe' only for whole-byte lengths, same big-endian layout
    return kind == 'uint' or (kind == 'uintbe' and n % 8 == 0)


def single(res, fi, what):
    if len(res) != 1:
        return None, '%s: %d paths for concrete arguments (expected 1)' % (what, len(res))
    r = res[0]
    if not r.ok:
        return None, '%s raises %s' % (what, r.exc.cls)
    return r, None


def rule_r1(repo, tier):
    rr = RuleResult('C19.R1', 'reader and writer agree per type and width (uint, int, bool, bin, bytes), widths 1..64')
    R, W = 'BitStringBitReader', 'BitStringBitWriter'
    for n in range(1, 65):
        # unsigned
        fi, res = call(repo, R, 'read_uint', [n])
        r, err = single(res, fi, 'read_uint(%d)' % n)
        if err:
            rr.fail('%s.read_uint' % R, fi.where, err)
        else:
            rd = [e[1] for e in r.events if e[0] == 'read']
            p = parse(rd[0]) if len(rd) == 1 else None
            if not p or p[1] != n or not uint_kind_ok(p[0], n) or repr(r.value) != 'raw0':
                rr.fail('%s.read_uint' % R, fi.where, 'read_uint(%d) reads %s and returns %r (expected one unsigned big-endian field of %d bits)' % (n, rd, r.value, n),
                        witness={'nbits': n})
        # (2**n and -1 do not fit: they must reach bitstring unchanged, which refuses them)
        for v in sorted(set([0, 1, 2 ** (n - 1), 2 ** n - 2, 2 ** n - 1, 2 ** n, -1])):
            if v < -1:
                continue
            fi, res = call(repo, W, 'write_uint', [v, n])
            r, err = single(res, fi, 'write_uint(%d, %d)' % (v, n))
            if err:
                rr.fail('%s.write_uint' % W, fi.where, err)
                continue
            wr = [e[1] for e in r.events if e[0] == 'write']
            p = parse(wr[0]) if len(wr) == 1 else None
            if not p or p[1] != n or not uint_kind_ok(p[0], n) or p[2] != str(v):
                rr.fail('%s.write_uint' % W, fi.where, 'write_uint(%d, %d) appends %s (expected one unsigned field of %d bits with value %d)' % (v, n, wr, n, v),
                        witness={'nbits': n, 'value': v})
        # sign-magnitude
        if n == 1:
            # a signed field of one bit is a sign bit with an empty magnitude: the only value is 0; reader and writer must get by
            # without asking bitstring for an integer of zero bits
            for bit in (1, 0):
                fi, res = call(repo, R, 'read_int', [1], script=[bit])
                for r in res:
                    rd = [parse(e[1]) for e in r.events if e[0] == 'read']
                    if not r.ok or len(rd) != 1 or not one_bit(rd[0]) or r.value not in (0, -0):
                        rr.fail('%s.read_int:width-1' % R, fi.where, 'read_int(1) with the bit %d: %s after reading %s (expected the value 0 after exactly one bit)' % (
                            bit, 'raises ' + r.exc.cls if not r.ok else 'returns %r' % (r.value,), [e[1] for e in r.events if e[0] == 'read']), witness={'nbits': 1})
            fi, res = call(repo, W, 'write_int', [0, 1])
            for r in res:
                wr = [parse(e[1]) if isinstance(e[1], str) else None for e in r.events if e[0] == 'write']
                if not r.ok or len(wr) != 1 or not one_bit(wr[0]):
                    rr.fail('%s.write_int:width-1' % W, fi.where, 'write_int(0, 1): %s after appending %s (expected exactly one bit)' % (
                        'raises ' + r.exc.cls if not r.ok else 'returns', [e[1] for e in r.events if e[0] == 'write']), witness={'nbits': 1})
        if n >= 2:
            outs = {}
            for bit in (1, 0):
                fi, res = call(repo, R, 'read_int', [n], script=[bit])
                for r in res:
                    rd = [parse(e[1]) for e in r.events if e[0] == 'read']
                    ok = r.ok and len(rd) == 2 and one_bit(rd[0]) and rd[1] and rd[1][1] == n - 1 and uint_kind_ok(rd[1][0], n - 1)
                    if not ok:
                        rr.fail('%s.read_int:layout' % R, fi.where, 'read_int(%d) reads %s (expected sign bit first, then %d magnitude bits)' % (
                            n, [e[1] for e in r.events if e[0] == 'read'], n - 1), witness={'nbits': n})
                        continue
                    outs[bool(bit)] = repr(r.value)
            if outs and (outs.get(True) not in ('mul(-1,raw1)', 'neg(raw1)', 'mul(raw1,-1)') or outs.get(False) != 'raw1'):
                rr.fail('%s.read_int:polarity' % R, fi.where, 'read_int(%d): sign bit set -> %s, clear -> %s (expected -magnitude / +magnitude)' % (
                    n, outs.get(True), outs.get(False)), witness={'nbits': n})
            for v in sorted(set([-(2 ** (n - 1) - 1), -1, 0, 1, 2 ** (n - 1) - 1])):
                fi, res = call(repo, W, 'write_int', [v, n])
                r, err = single(res, fi, 'write_int(%d, %d)' % (v, n))
                if err:
                    rr.fail('%s.write_int' % W, fi.where, err)
                    continue
                wr = [parse(e[1]) for e in r.events if e[0] == 'write']
                ok = len(wr) == 2 and wr[0] and wr[0][0] == 'bool' and wr[0][2] == str(v < 0) and wr[1] and wr[1][1] == n - 1 \
                    and uint_kind_ok(wr[1][0], n - 1) and wr[1][2] == str(abs(v))
                if not ok:
                    rr.fail('%s.write_int' % W, fi.where, 'write_int(%d, %d) appends %s (expected sign bit %s then %d bits of %d)' % (
                        v, n, [e[1] for e in r.events if e[0] == 'write'], v < 0, n - 1, abs(v)), witness={'nbits': n, 'value': v})
        # binary strings
        fi, res = call(repo, R, 'read_bin', [n])
        r, err = single(res, fi, 'read_bin(%d)' % n)
        rd = [parse(e[1]) for e in r.events if e[0] == 'read'] if r else []
        if err or len(rd) != 1 or not rd[0] or rd[0][0] != 'bin' or rd[0][1] != n:
            rr.fail('%s.read_bin' % R, fi.where, err or 'read_bin(%d) reads %s' % (n, rd), witness={'nbits': n})
        s = ('10' * n)[:n]
        fi, res = call(repo, W, 'write_bin', [s])
        r, err = single(res, fi, 'write_bin(%r)' % s)
        wr = [parse(e[1]) for e in r.events if e[0] == 'write'] if r else []
        if err or len(wr) != 1 or not wr[0] or wr[0][0] != 'bin' or wr[0][1] != n or wr[0][2] != s:
            rr.fail('%s.write_bin' % W, fi.where, err or 'write_bin(%r) appends %s' % (s, [e[1] for e in r.events if e[0] == 'write']), witness={'nbits': n})
        rr.instance('width %d: uint, int, bin reader/writer formats' % n)
    # bool
    rr.instance('bool reader/writer formats')
    for bit in (0, 1):
        fi, res = call(repo, R, 'read_bool', [], script=[bit])
        r, err = single(res, fi, 'read_bool()')
        rd = [parse(e[1]) for e in r.events if e[0] == 'read'] if r else []
        if err or len(rd) != 1 or not one_bit(rd[0]):
            rr.fail('%s.read_bool' % R, fi.where, err or 'read_bool reads %s (expected exactly one bit)' % rd)
        elif r.value is not bool(bit):
            rr.fail('%s.read_bool' % R, fi.where, 'read_bool returns %r for a %d bit' % (r.value, bit))
    for v in (True, False):
        fi, res = call(repo, W, 'write_bool', [v])
        r, err = single(res, fi, 'write_bool(%s)' % v)
        wr = [parse(e[1]) for e in r.events if e[0] == 'write'] if r else []
        if err or len(wr) != 1 or not wr[0] or wr[0][0] != 'bool' or wr[0][2] != str(v):
            rr.fail('%s.write_bool' % W, fi.where, err or 'write_bool(%s) appends %s' % (v, [e[1] for e in r.events if e[0] == 'write']))
    # generic dispatchers: the width of `bytes` is nbits // 8 on both sides; bool takes no width
    types = set()
    for lay in repo.layouts.values():
        for p in lay.get('parameters', []):
            types.add(p.get('type'))
    types -= {'unexpanded_descriptors', 'template_data'}
    samples = {'uint': (5, 12), 'bytes': (b'ABCD', 32), 'bool': (True, 1), 'bin': ('0101101', 7), 'int': (-5, 12)}
    for t in sorted(types):
        if t not in samples:
            raise AnalysisError('section layouts use parameter type %r which the bit-level rules do not model' % t)
        val, nb = samples[t]
        rr.instance('generic read/write dispatch for type %s' % t)
        if repo.method(R, 'read_' + t, required=False) is None or repo.method(W, 'write_' + t, required=False) is None:
            rr.fail('dispatch:%s' % t, repo.method(R, 'read').where, 'layout type %r has no read_%s / write_%s pair' % (t, t, t))
            continue
        fi, res = call(repo, R, 'read', [t, nb])
        r, err = single(res, fi, 'read(%r, %d)' % (t, nb))
        rd = [parse(e[1]) for e in r.events if e[0] == 'read'] if r else []
        fi2, res2 = call(repo, W, 'write', [val, t, nb])
        r2, err2 = single(res2, fi2, 'write(%r, %r, %d)' % (val, t, nb))
        wr = [e[1] for e in r2.events if e[0] == 'write'] if r2 else []
        if err or err2:
            rr.fail('dispatch:%s' % t, fi.where, err or err2)
            continue
        # total bits consumed / produced
        def bits_of_read(ps):
            tot = 0
            for p in ps:
                if p is None:
                    return None
                tot += {'bool': 1}.get(p[0], 0) if p[1] is None else (p[1] * 8 if p[0] == 'bytes' else p[1])
            return tot

        def bits_of_write(ws):
            tot = 0
            for w in ws:
                if isinstance(w, Obj) and w.cls == 'Bits' and isinstance(w.fields.get('bytes'), bytes):
                    tot += 8 * len(w.fields['bytes'])
                    continue
                p = parse(w)
                if p is None:
                    return None
                tot += 1 if p[1] is None else p[1]
            return tot
        br, bw = bits_of_read(rd), bits_of_write(wr)
        if br != nb or bw != nb:
            rr.fail('dispatch:%s' % t, fi.where, 'type %s with nbits=%d: the reader consumes %s bits (%s), the writer produces %s bits (%s)' % (
                t, nb, br, [e[1] for e in r.events if e[0] == 'read'], bw, wr))
    # the generic dispatcher is the typed method: read(t, n) / write(v, t, n) leave the same stream operations and the same result as
    # read_t / write_t called directly (for every typed method the reader / writer has, not only the types the bundled layouts use)
    typed = sorted(set(m[5:] for m in repo.cls('BitReader').methods if m.startswith('read_') and m != 'read_uint_or_none') | types)
    for t in typed:
        if t not in samples:
            raise AnalysisError('the bit reader has a typed method read_%s which the bit-level rules do not model' % t)
        val, nb = samples[t]
        direct_args = [] if t == 'bool' else [nb // 8] if t == 'bytes' else [nb]
        rr.instance('generic dispatch of type %s is the typed method' % t)
        if repo.method(R, 'read_' + t, required=False) is None or repo.method(W, 'write_' + t, required=False) is None:
            continue
        for side, cls, gen, gargs, dargs in (('read', R, 'read', [t, nb], direct_args), ('write', W, 'write', [val, t, nb], [val] + direct_args)):
            # first bit scripted (the sign of an int, the value of a bool): both orders of magnitude bits stay symbolic
            script = [1] if side == 'read' else None
            fi, res = call(repo, cls, gen, gargs, script=script)
            fi_d, res_d = call(repo, cls, side + '_' + t, dargs, script=script)
            r, err = single(res, fi, '%s(%s)' % (gen, ', '.join(repr(a) for a in gargs)))
            rd, errd = single(res_d, fi_d, '%s_%s(%s)' % (side, t, ', '.join(repr(a) for a in dargs)))
            if err or errd:
                rr.fail('dispatch:%s:%s' % (side, t), fi.where, err or errd)
                continue
            ops = [(e[0], repr(e[1])) for e in r.events if e[0] in ('read', 'write', 'streamop', 'set')]
            ops_d = [(e[0], repr(e[1])) for e in rd.events if e[0] in ('read', 'write', 'streamop', 'set')]
            if ops != ops_d or repr(r.value) != repr(rd.value):
                rr.fail('dispatch:%s:%s' % (side, t), fi.where, '%s(%s) performs %s and returns %r; %s_%s(%s) performs %s and returns %r: the generic dispatcher does not '
                        'treat type %r as the typed method does' % (gen, ', '.join(repr(a) for a in gargs), ops, r.value, side, t, ', '.join(repr(a) for a in dargs),
                                                                    ops_d, rd.value, t), witness={'type': t, 'nbits': nb})
    # a bytes value shorter / longer than the field: the dispatcher must hand the field width on, so that the value is padded / cut
    for val, nb in ((b'AB', 32), (b'ABCDEF', 32), (b'', 16)):
        fi2, res2 = call(repo, W, 'write', [val, 'bytes', nb])
        r2, err2 = single(res2, fi2, 'write(%r, bytes, %d)' % (val, nb))
        rr.instance('generic write of %r into a bytes field of %d bits' % (val, nb))
        if err2:
            rr.fail('dispatch:bytes:width', fi2.where, err2)
            continue
        wr = [e[1] for e in r2.events if e[0] == 'write']
        tot = 0
        for w in wr:
            if isinstance(w, Obj) and w.cls == 'Bits' and isinstance(w.fields.get('bytes'), bytes):
                tot += 8 * len(w.fields['bytes'])
            else:
                tot = None
                break
        if tot != nb:
            rr.fail('dispatch:bytes:width', fi2.where, 'write(%r, \'bytes\', %d) appends %s bits (%s): the field width is not handed to write_bytes, so the value '
                    'is neither padded nor cut to the field' % (val, nb, tot, wr), witness={'value': repr(val), 'nbits': nb})
    rr.require_floor(69)
    return rr


class BitBuf(Stream):
    """A bitstring.BitArray with concrete content: slice assignment, overwrite / insert / append change a list of bits exactly as the
    third-party class does (list semantics for plain slices; an overwrite that runs past the end extends the stream)."""

    def __init__(self, interp, bits):
        Stream.__init__(self, interp)
        self.bits = list(bits)

    def __repr__(self):
        return 'BitBuf(%d bits)' % len(self.bits)

    def get_attr(self, name, interp, frame):
        if name in ('len', 'length'):
            return len(self.bits)
        return Stream.get_attr(self, name, interp, frame)

    @staticmethod
    def bits_of(v, interp, frame, node):
        """bits of a bitstring.Bits(...) object or of an 'uint:n=v' token; values that do not fit are refused as bitstring refuses them"""
        kind = length = val = None
        if isinstance(v, Obj) and v.cls == 'Bits':
            f = v.fields
            if f.get('_args'):
                raise AnalysisError('bitstring.Bits built from positional arguments %r: not modelled' % (f['_args'],))
            length = f.get('length')
            for k in ('uint', 'uintbe', 'int', 'intbe', 'bin', 'bytes', 'bool'):
                if k in f:
                    kind, val = k, f[k]
                    break
        elif isinstance(v, str) and parse(v) and parse(v)[2] is not None:
            kind, length, txt = parse(v)
            try:
                val = int(txt)
            except ValueError:
                val = txt
        if kind in ('uint', 'uintbe'):
            if not isinstance(val, int) or isinstance(val, bool) or not isinstance(length, int):
                raise AnalysisError('bitstring.Bits(%s=%r, length=%r): not concrete' % (kind, val, length))
            if length <= 0 or (kind == 'uintbe' and length % 8) or val < 0 or val >= (1 << length):
                interp.event('refused-by-bitstring', kind, val, length)
                raise Raise('ValueError', node, interp.where(node, frame))
            return [(val >> (length - 1 - i)) & 1 for i in range(length)]
        if kind == 'bin' and isinstance(val, str) and set(val) <= set('01'):
            return [int(c) for c in val]
        if kind == 'bool':
            return [1 if val else 0]
        if kind == 'bytes' and isinstance(val, bytes):
            return [(b >> (7 - i)) & 1 for b in val for i in range(8)]
        raise AnalysisError('value %r handed to the bit stream: not modelled by the concrete stream' % (v,))

    def store(self, idx, value, interp, frame, node):
        bs = self.bits_of(value, interp, frame, node)
        if isinstance(idx, tuple) and idx and idx[0] == 'slice':
            a, b, st = idx[1], idx[2], idx[3]
            if not all(x is None or (isinstance(x, int) and not isinstance(x, bool)) for x in (a, b, st)):
                raise AnalysisError('slice bounds %r of a stream assignment are not concrete' % (idx[1:],))
            if st not in (None, 1):
                raise AnalysisError('extended slice assignment on the bit stream: not modelled')
            self.bits[slice(a, b)] = bs
        elif isinstance(idx, int) and not isinstance(idx, bool):
            if len(bs) != 1:
                raise AnalysisError('single-bit assignment with %d bits' % len(bs))
            self.bits[idx] = bs[0]
        else:
            raise AnalysisError('stream index %r: not modelled' % (idx,))

    def call_method(self, name, args, kwargs, interp, frame, node):
        def position(k, default):
            pos = kwargs.get('pos', args[k] if len(args) > k else default)
            if not isinstance(pos, int) or isinstance(pos, bool):
                raise AnalysisError('stream.%s at position %r: not concrete' % (name, pos))
            if pos < 0:
                pos += len(self.bits)
            if pos < 0 or pos > len(self.bits):
                raise Raise('ValueError', node, interp.where(node, frame))
            return pos
        if name == 'overwrite':
            bs = self.bits_of(kwargs.get('bs', args[0] if args else None), interp, frame, node)
            pos = position(1, None)
            self.bits[pos:pos + len(bs)] = bs
            return None
        if name == 'insert':
            bs = self.bits_of(kwargs.get('bs', args[0] if args else None), interp, frame, node)
            pos = position(1, None)
            self.bits[pos:pos] = bs
            return None
        if name == 'append':
            self.bits.extend(self.bits_of(args[0], interp, frame, node))
            return None
        if name == 'prepend':
            self.bits[0:0] = self.bits_of(args[0], interp, frame, node)
            return None
        raise AnalysisError('stream.%s(...) on the concrete bit stream: not modelled' % name)

    def aug_assign(self, op, value, interp, frame, node):
        if op is ast.Add:
            self.bits.extend(self.bits_of(value, interp, frame, node))
        else:
            raise AnalysisError('stream %s= ...: not modelled by the concrete stream' % op.__name__)


class BufInterp(BitInterp):
    def on_store_subscript(self, base, idx, value, node, frame):
        if isinstance(base, BitBuf):
            base.store(idx, value, self, frame, node)
            return True
        return BitInterp.on_store_subscript(self, base, idx, value, node, frame)

    def on_while(self, node, frame):
        return self.unroll_while(node, frame, 80)


def rule_r2(repo):
    """set_uint folded on a bit stream with concrete content (a fixed pattern of 200 bits): afterwards the nbits bits at bitpos are the
    value, MSB first, every other bit is what it was and the stream has the length it had; a value that does not fit is refused.  How
    the replacement is spelled (slice assignment, overwrite, octet by octet) does not matter."""
    rr = RuleResult('C19.R2', 'set_uint replaces exactly nbits bits at the given position, widths 1..64')
    W = 'BitStringBitWriter'
    fi = repo.method(W, 'set_uint')
    L = 200
    x = 0x9E3779B97F4A7C15
    pattern = []
    for i in range(L):
        x = (x * 6364136223846793005 + 1442695040888963407) % (1 << 64)
        pattern.append((x >> 40) & 1)
    # the pattern must have ones in the leading octet of every field tried below (a patch that leaves stale high-order octets shows)
    for n in range(1, 65):
        # (the last two values do not fit: bitstring refuses them -- they may not be masked or clipped on the way)
        for pos, v in ((0, 2 ** n - 2 if n > 1 else 1), (3, 2 ** n - 1), (32, 0), (8, 2 ** n), (5, 2 ** n + 5), (40, 1), (64, 2 ** (n // 2)), (L - n, 1 if n > 1 else 0)):
            it = BufInterp(repo, W)
            box = {}

            def mk():
                o = new_obj(it, W)
                buf = BitBuf(it, pattern)
                for k, fv in list(o.fields.items()):
                    if isinstance(fv, Stream):
                        o.fields[k] = buf
                box['buf'] = buf
                return {'self': o, 'value': v, 'nbits': n, 'bitpos': pos}
            if fi.params[1:4] != ['value', 'nbits', 'bitpos']:
                raise AnalysisError('set_uint%r: the rule binds (value, nbits, bitpos)' % (fi.params,))
            res = it.run_function(fi, mk, self_class=W)
            what = 'set_uint(%d, nbits=%d, bitpos=%d)' % (v, n, pos)
            if len(res) != 1:
                rr.fail('%s.set_uint' % W, fi.where, '%s: %d paths for concrete arguments (expected 1)' % (what, len(res)))
                continue
            r = res[0]
            got = box['buf'].bits
            fits = 0 <= v < (1 << n)
            if not fits:
                if r.ok:
                    rr.fail('%s.set_uint:unfit' % W, fi.where, '%s on a stream of %d bits returns normally although the value does not fit %d bits (bits %d..%d are now %s): '
                            'values that do not fit are refused, not masked or clipped' % (what, L, n, pos, pos + n, ''.join(map(str, got[pos:pos + n]))),
                            witness={'nbits': n, 'bitpos': pos, 'value': v})
                continue
            want = pattern[:pos] + [(v >> (n - 1 - i)) & 1 for i in range(n)] + pattern[pos + n:]
            if not r.ok:
                rr.fail('%s.set_uint' % W, fi.where, '%s raises %s' % (what, r.exc.cls), witness={'nbits': n, 'bitpos': pos, 'value': v})
            elif got != want:
                diff = [i for i in range(min(len(got), len(want))) if got[i] != want[i]]
                rr.fail('%s.set_uint' % W, fi.where, '%s on a stream of %d bits: %s; expected bits %d..%d = %d-bit unsigned %d, everything else and the total length '
                        'unchanged' % (what, L, ('the stream is now %d bits long' % len(got)) if len(got) != len(want) else
                                       'bits %s differ from the expected content (field now %s, expected %s)' % (
                                           diff[:6], ''.join(map(str, got[pos:pos + n])), ''.join(map(str, want[pos:pos + n]))), pos, pos + n, n, v),
                        witness={'nbits': n, 'bitpos': pos, 'value': v})
        rr.instance('set_uint width %d' % n)
    rr.require_floor(64)
    return rr


def rule_r6(repo):
    rr = RuleResult('C19.R6', 'bytes are space-padded or truncated to the field width; text is encoded as latin-1')
    W = 'BitStringBitWriter'
    cases = [(b'AB', 4, b'AB  '), (b'ABCDEF', 4, b'ABCD'), (b'ABCD', 4, b'ABCD'), ('AB', 4, b'AB  '), ('ABCDEF', 4, b'ABCD'),
             ('\xff\xff', 2, b'\xff\xff'), ('\xe9', 3, b'\xe9  '), (b'', 2, b'  '), (b'XY', None, b'XY'), ('', 0, b''), (b'Q', 1, b'Q'),
             (b'AB', 0, b''), ('XYZ', 0, b''), (b'', None, b'')]
    for val, nbytes, want in cases:
        fi, res = call(repo, W, 'write_bytes', [val, nbytes])
        r, err = single(res, fi, 'write_bytes(%r, %r)' % (val, nbytes))
        rr.instance('write_bytes(%r, %r) -> %r' % (val, nbytes, want))
        if err:
            rr.fail('%s.write_bytes' % W, fi.where, err)
            continue
        wr = [e[1] for e in r.events if e[0] == 'write']
        got = wr[0].fields.get('bytes') if len(wr) == 1 and isinstance(wr[0], Obj) and wr[0].cls == 'Bits' else None
        if got != want:
            rr.fail('%s.write_bytes' % W, fi.where, 'write_bytes(%r, %r) appends %r, expected %r (pad with spaces up to, truncate at, the field width)' % (
                val, nbytes, got if got is not None else wr, want), witness={'value': repr(val), 'nbytes': nbytes})
    R = 'BitStringBitReader'
    for n in (1, 4, 32):
        fi, res = call(repo, R, 'read_bytes', [n])
        r, err = single(res, fi, 'read_bytes(%d)' % n)
        rd = [parse(e[1]) for e in r.events if e[0] == 'read'] if r else []
        rr.instance('read_bytes(%d)' % n)
        if err or len(rd) != 1 or not rd[0] or rd[0][0] != 'bytes' or rd[0][1] != n or repr(r.value) != 'raw0':
            rr.fail('%s.read_bytes' % R, fi.where, err or 'read_bytes(%d) reads %s' % (n, rd))
    rr.require_floor(12)
    return rr


def rule_r7(repo):
    rr = RuleResult('C19.R7', 'position accessors: the reader reports the read position, the writer the length written')
    for cls, want in (('BitStringBitReader', 'stream.pos'), ('BitStringBitWriter', 'stream.len')):
        fi, res = call(repo, cls, 'get_pos', [])
        r, err = single(res, fi, '%s.get_pos()' % cls)
        rr.instance('%s.get_pos() == %s' % (cls, want))
        if err or repr(r.value) != want:
            rr.fail('%s.get_pos' % cls, fi.where, err or 'get_pos returns %r, expected bit_stream.%s' % (r.value, want.split('.')[1]))
    fi, res = call(repo, 'BitStringBitWriter', 'to_bytes', [])
    r, err = single(res, fi, 'to_bytes()')
    rr.instance('BitStringBitWriter.to_bytes() == stream.bytes')
    if err or repr(r.value) != 'stream.bytes':
        rr.fail('BitStringBitWriter.to_bytes', fi.where, err or 'to_bytes returns %r' % (r.value,))
    rr.require_floor(3)
    return rr


def rule_r8(repo):
    rr = RuleResult('C19.R8', 'skip(n) appends n zero bits, n = 1..64 and whole octets')
    W = 'BitStringBitWriter'
    for n in list(range(1, 65)) + [72, 80, 128, 1000]:
        fi, res = call(repo, W, 'skip', [n])
        r, err = single(res, fi, 'skip(%d)' % n)
        wr = [parse(e[1]) for e in r.events if e[0] == 'write'] if r else []
        rr.instance('skip(%d)' % n)
        ok = not err and len(wr) == 1 and wr[0]
        if ok:
            k, ln, val = wr[0]
            ok = ln == n and ((k in ('uint', 'uintbe') and uint_kind_ok(k, n) and val == '0') or (k == 'bin' and val == '0' * n))
        if not ok:
            rr.fail('%s.skip' % W, fi.where, err or 'skip(%d) appends %s (expected %d zero bits)' % (n, [e[1] for e in r.events if e[0] == 'write'], n),
                    witness={'nbits': n})
    rr.require_floor(64)
    return rr


def run(repo, check):
    from sa.rules import c01, c12
    check.run_rule(rule_r1, repo, check.tier)
    check.run_rule(rule_r2, repo)
    r3 = check.call(c01.rule_r7, repo)
    r3.rule = 'C19.R3'
    for f in r3.findings:
        f.rule = 'C19.R3'
    # only the bit-level part of C01.R7 belongs here
    r3.findings = [f for f in r3.findings if f.key.startswith('BitReader.') or f.key.startswith('constants.')]
    r3.title = 'missing detection table and read_uint_or_none, widths 0..64'
    check.add(r3)
    r4 = check.call(c12.rule_r2, repo)
    r4.rule = 'C19.R4'
    for f in r4.findings:
        f.rule = 'C19.R4'
    check.add(r4)
    r5 = RuleResult('C19.R5', 'abstract completeness of the bitstring reader / writer')
    for coder in ('Decoder', 'Encoder'):
        x = c01.rule_r2(repo, coder, 'C19.R5')
        for inst in x.instances:
            if 'BitString' in inst:
                r5.instance(inst)
        r5.findings.extend(f for f in x.findings if f.key.startswith('BitString'))
    r5.require_floor(10)
    check.add(r5)
    check.run_rule(rule_r6, repo)
    check.run_rule(rule_r7, repo)
    check.run_rule(rule_r8, repo)
    check.assumptions = ['bitstring is the trusted base: format strings "uint:n=v", "uintbe:n=v" (whole octets), "bool=v", "bin:n=s", '
                         '"bytes:n" and Bits(uint=|uintbe=|bytes=) mean what its documentation says; range refusal and read-past-end '
                         'errors are raised by bitstring and converted by the wrapper (R4)',
                         'runtime round-trip equality of values is not decided; the rules decide that both sides use the same layout']
