"""
C07  Bitmap-driven and associated attributes are linked to the element they qualify (structural part).

R1 link-key ordering at both link sites        R2 back references: exact element type, zero bits select
R3 225255: width + 1, reference -2**width      R4 operator <-> node class <-> meaning descriptor tables
R5 bitmap-definition state machine             R6 define_bitmap takes the last n bits of the current subset
R7 = C09.R1 (coder / wirer lockstep)
"""
from __future__ import print_function

import ast

from sa.model import AnalysisError, norm
from sa.patheval import Interp, Native, Obj, Sym, Top, Raise
from sa.report import RuleResult
from sa.rules.walk import WalkInterp, make_state, element, operator, NextBitmapped, snapshot
from sa.rules.lockstep import WireInterp, wirer_self, run_wirer

MARKERS = (223255, 224255, 225255, 232255)


def rule_r1(repo):
    rr = RuleResult('C07.R1', 'the link key is the flat index at which the linked value itself is appended')
    fi = repo.method('Decoder', 'process_operator_descriptor')
    for assoc in (False, True):
        for mk_id in MARKERS:
            it = WalkInterp(repo, 'Decoder')
            res = it.run_function(fi, lambda: {'self': Obj('Decoder', {}), 'bit_operator': Top('b'),
                                               'state': make_state(repo, it, {'nbits_of_associated': [4] if assoc else [],
                                                                              'next_bitmapped_descriptor': NextBitmapped(element(12101))}),
                                               'descriptor': operator(mk_id // 1000, 255)}, self_class='Decoder')
            rr.instance('marker %06d%s' % (mk_id, ' under 204' if assoc else ''))
            for r in res:
                if not r.ok:
                    rr.fail('marker-link:raise', fi.where, 'marker %06d raises %s' % (mk_id, r.exc.cls))
                    continue
                emits = [e for e in r.events if e[0] in ('emit', 'link')]
                links = [i for i, e in enumerate(emits) if e[0] == 'link']
                if len(links) != 1:
                    rr.fail('marker-link:count', fi.where, 'marker %06d creates %d links (expected 1)' % (mk_id, len(links)))
                    continue
                li = links[0]
                key = emits[li][1]
                # index of each emission
                idx = -1
                linked_at = None
                marker_at = None
                for e in emits:
                    if e[0] == 'emit':
                        idx += 1
                        d = e[2][0]
                        if isinstance(d, Obj) and d.cls == 'MarkerDescriptor':
                            marker_at = idx
                if marker_at is None:
                    rr.fail('marker-link:no-value', fi.where, 'marker %06d emits no marker value' % mk_id)
                    continue
                if key != marker_at:
                    rr.fail('marker-link:key%s' % (' under 204' if assoc else ''), fi.where,
                            'marker %06d%s: the bitmap link is stored under flat index %r but the marker value lands at index %d '
                            '(what sits at %r is %s)' % (mk_id, ' with 204YYY in force' if assoc else '', key, marker_at, key,
                                                         'the associated field' if assoc else 'another entry'),
                            witness={'marker': mk_id, 'associated_in_force': assoc})
                tgt = emits[li][2]
                if repr(tgt) != 'BIDX1':
                    rr.fail('marker-link:target', fi.where, 'the link points to %r, not the index of the bitmapped element' % (tgt,))
    # class-33 link site: CoderState.add_bitmap_link
    ab = repo.method('CoderState', 'add_bitmap_link')
    it = WalkInterp(repo, 'Decoder')
    res = it.run_function(ab, lambda: {'self': make_state(repo, it, {'next_bitmapped_descriptor': NextBitmapped(element(12101))})}, self_class='CoderState')
    rr.instance('CoderState.add_bitmap_link')
    for r in res:
        links = [e for e in r.events if e[0] == 'link']
        if not r.ok or len(links) != 1 or links[0][1] != 0 or repr(links[0][2]) != 'BIDX1':
            rr.fail('add_bitmap_link', ab.where, 'add_bitmap_link stores %s; expected {len(decoded_descriptors): index of the bitmapped element}' % (
                [(l[1], repr(l[2])) for l in links] or r.describe()))
    rr.require_floor(9)
    return rr


def rule_r2(repo):
    rr = RuleResult('C07.R2', 'back references are the N plain element descriptors preceding the operator; zero bits select')
    fi = repo.method('CoderState', 'build_bitmapped_descriptors')
    E = lambda i: element(i)
    descs = [E(1001), Obj('MarkerDescriptor', {'id': 12101, 'marker_id': 224255}), Obj('AssociatedDescriptor', {'id': 12101, 'nbits': 4}),
             E(12101), Obj('OperatorDescriptor', {'id': 222000}), Obj('SkippedLocalDescriptor', {'id': 63255, 'nbits': 8}), E(10004),
             Obj('ElementDescriptor', {'id': 31031}), E(7004)]

    def run(bitmap, boundary, existing=None, dl=None):
        it = WalkInterp(repo, 'Decoder')
        st = {}

        def mk():
            s = make_state(repo, it, {'decoded_descriptors': list(dl if dl is not None else descs), 'back_reference_boundary': boundary,
                                      'back_referenced_descriptors': existing})
            st['s'] = s
            return {'self': s, 'bitmap': list(bitmap)}
        res = it.run_function(fi, mk, self_class='CoderState')
        return res

    def ids(lst):
        return [(i, d.fields['id']) for i, d in lst] if isinstance(lst, list) else lst

    cases = [
        ('3 bits over mixed descriptors', [0, 1, 0], 7, None, [(0, 1001), (3, 12101), (6, 10004)], [(0, 1001), (6, 10004)]),
        ('2 bits', [0, 0], 7, None, [(3, 12101), (6, 10004)], [(3, 12101), (6, 10004)]),
        ('all ones', [1, 1], 7, None, [(3, 12101), (6, 10004)], []),
        ('boundary excludes later elements', [0], 4, None, [(3, 12101)], [(3, 12101)]),
        ('existing back references are reused', [1, 0], 9, [(0, descs[0]), (3, descs[3])], [(0, 1001), (3, 12101)], [(3, 12101)]),
    ]
    for name, bitmap, boundary, existing, want_back, want_sel in cases:
        res = run(bitmap, boundary, existing)
        rr.instance(name)
        for r in res:
            if not r.ok:
                rr.fail('build_bitmapped_descriptors:%s' % name, fi.where, '%s: raises %s' % (name, r.exc.cls))
                continue
            s = r.locals['self']
            back = ids(s.fields.get('back_referenced_descriptors'))
            sel = ids(s.fields.get('bitmapped_descriptors'))
            if back != want_back:
                rr.fail('build_bitmapped_descriptors:back-references', fi.where,
                        '%s: back references are %s, expected %s (only exact ElementDescriptor entries before the operator count; markers, '
                        'associated fields, skipped locals and operators do not)' % (name, back, want_back), witness={'bitmap': bitmap})
            if sel != want_sel:
                rr.fail('build_bitmapped_descriptors:selection', fi.where,
                        '%s: bitmap %s selects %s, expected %s (a zero bit selects)' % (name, bitmap, sel, want_sel), witness={'bitmap': bitmap})
    res = run([0, 0, 0, 0, 0, 0], 7)
    rr.instance('bitmap longer than the available elements is refused')
    for r in res:
        if r.ok or not repo.is_subclass(r.exc.cls, 'PyBufrKitError'):
            rr.fail('build_bitmapped_descriptors:too-long', fi.where, 'a bitmap of 6 bits over 4 elements gives %s (expected PyBufrKitError)' % r.describe())
    rr.require_floor(6)
    return rr

def rule_recall(repo, rule='C07.R16'):
    """Chains of bitmap operators on one coder state, folded call by call (define = store + build_bitmapped_descriptors, as
    define_bitmap does; recall_bitmap; cancel_bitmap): after 237000 the following marker / quality values are matched to the zero
    bits of the bitmap that 236000 defined for reuse - not to those of whatever bitmap was built last - and after 237255 there is
    nothing left to recall."""
    from sa.patheval import Interp
    rr = RuleResult(rule, '237000 recalls the bitmap defined for reuse (also after a later bitmap that is not for reuse); 237255 leaves nothing to recall')
    build = repo.method('CoderState', 'build_bitmapped_descriptors')
    recall = repo.method('CoderState', 'recall_bitmap')
    cancel = repo.method('CoderState', 'cancel_bitmap')
    E = lambda i: element(i)
    descs = [E(12101), E(10004), E(11002), Obj('OperatorDescriptor', {'id': 222000})]

    def step(it, fi, st, **kw):
        res = it.run_function(fi, lambda: dict({'self': st}, **kw), self_class='CoderState')
        if len(res) != 1:
            raise AnalysisError('%s forks on a concrete state' % fi.qualname)
        return res[0]

    def drain(it, st, n):
        """ids designated by the next n calls of state.next_bitmapped_descriptor(): the stored partial(next, iterator) is read off"""
        from sa.patheval import PartialCall
        f = st.fields.get('next_bitmapped_descriptor')
        if not (isinstance(f, PartialCall) and f.target == ('builtin', 'next') and f.pre_args and isinstance(f.pre_args[0], Obj) and f.pre_args[0].cls == 'iter'
                and isinstance(f.pre_args[0].fields.get('of'), list)):
            raise AnalysisError('next_bitmapped_descriptor is %r: not partial(next, iter(<list>)), the rule cannot follow it' % (f,))
        itr = f.pre_args[0]
        rest = list(itr.fields['of'])[itr.fields.get('pos', 0):]
        out = [v[1].fields['id'] if isinstance(v, tuple) and len(v) == 2 and isinstance(v[1], Obj) else repr(v) for v in rest[:n]]
        if len(rest) < n:
            out.append('raise StopIteration')
        return out
    A, B = [0, 1, 0], [1, 0, 1]
    scenarios = [
        ('define for reuse, recall', [('define', A, True), ('recall',)], [12101, 11002], A),
        ('define for reuse, a second bitmap not for reuse, recall', [('define', A, True), ('define', B, False), ('recall',)], [12101, 11002], A),
        ('define for reuse, a second bitmap for reuse, recall', [('define', A, True), ('define', B, True), ('recall',)], [10004], B),
        ('define for reuse, cancel (237255), recall', [('define', A, True), ('cancel',), ('recall',)], 'error', None),
        # the operator itself, not only the state method: 237255 cancels the bitmap defined for reuse whatever was built since
        ('define for reuse, operator 237255, recall', [('define', A, True), ('op237255',), ('recall',)], 'error', None),
        ('define for reuse, a second bitmap not for reuse, operator 237255, recall', [('define', A, True), ('define', B, False), ('op237255',), ('recall',)], 'error', None),
        ('define for reuse, operator 237255, define for reuse again, recall', [('define', A, True), ('op237255',), ('define', B, True), ('recall',)], [10004], B),
    ]
    opfi = repo.method('Decoder', 'process_operator_descriptor')
    for name, steps, want, want_bitmap in scenarios:
        it = WalkInterp(repo, 'Decoder')
        st = make_state(repo, it, {'decoded_descriptors': list(descs), 'back_reference_boundary': 3, 'back_referenced_descriptors': None})
        outcome, value = 'ok', None
        for s_ in steps:
            if s_[0] == 'define':
                if s_[2]:
                    st.fields['bitmap'] = list(s_[1])
                st.fields['most_recent_bitmap_is_for_reuse'] = s_[2]
                r = step(it, build, st, bitmap=list(s_[1]))
            elif s_[0] == 'cancel':
                r = step(it, cancel, st)
            elif s_[0] == 'op237255':
                res = it.run_function(opfi, lambda: {'self': Obj('Decoder', {}), 'state': st, 'bit_operator': Top('bitop'), 'descriptor': operator(237, 255)}, self_class='Decoder')
                if len(res) != 1:
                    raise AnalysisError('process_operator_descriptor(237255) forks on a concrete state')
                r = res[0]
            else:
                r = step(it, recall, st)
                value = r.value if r.ok else None
            if not r.ok:
                outcome = 'raise ' + r.exc.cls
                break
        rr.instance(name)
        if want == 'error':
            if outcome == 'ok':
                got = drain(it, st, 2)
                rr.fail('recall_bitmap:after-cancel', recall.where, '%s: recall_bitmap returns %r and the next values are matched to %s; after 237255 no bitmap is defined '
                        'for reuse, so 237000 must be refused with a library error' % (name, value, got), witness={'scenario': name})
            elif not repo.is_subclass(outcome.split(' ')[1], 'PyBufrKitError'):
                rr.fail('recall_bitmap:after-cancel', recall.where, '%s: ends in %s, not a library error' % (name, outcome), witness={'scenario': name})
            continue
        if outcome != 'ok':
            rr.fail('recall_bitmap:chain', recall.where, '%s: %s' % (name, outcome), witness={'scenario': name})
            continue
        got = drain(it, st, len(want))
        if got != want or value != want_bitmap:
            rr.fail('recall_bitmap:chain', recall.where, '%s: after recall_bitmap (which returns %r) the next %d values are matched to %s; the bitmap defined for reuse is %s '
                    'over 012101 010004 011002, whose zero bits designate %s' % (name, value, len(want), got, want_bitmap, want), witness={'scenario': name})
    rr.require_floor(7)
    return rr

def rule_pipeline_links(repo, rule='C07.R17'):
    """End-to-end fold (rules/pipeline.py): for each concrete template the decoder's bitmap links and the attributes of the wired tree
    are the same relation - the value at flat index k linked to o is an attribute of the node of o and of no other node; an associated
    field is the attribute of the element that follows it; the only other attributes are the 008023 / 008024 / 031021 meanings."""
    from sa.rules import pipeline as P
    from sa.rules.c09 import _occurrences
    rr = RuleResult(rule, 'decode -> wire folded end to end: bitmap links and associated fields of the decoder are exactly the attributes of the hierarchical view')
    known = {'quality information while 204 is in force': 'lockstep:element under 204 class 33 after 222000'}
    for name in sorted(P.templates()):
        o = P.run_template(repo, name)
        rr.instance('template "%s"' % name)
        if not o.decode.ok or not getattr(o, 'wire', None) or not o.wire.ok:
            continue        # reported by C09.R13
        key = known.get(name, 'pipeline-links:%s' % name.split(' (')[0].replace(' ', '-').replace(',', ''))
        occ = _occurrences(o.nodes)
        attrs = [(i, cls, owner) for i, role, cls, owner in occ if role == 'attribute']
        links = dict(o.links)
        # expected links: an independent reading of the template (zero bits of the governing bitmap, in order)
        for k, owner in sorted(links.items()):
            if not any(i == k and ow == owner for i, cls, ow in attrs):
                rr.fail(key, 'pybufrkit/templatedata.py', 'template "%s": the decoder links flat entry %d (%s) to entry %d (%s), but the hierarchical view does not show it as '
                        'an attribute of that element (attributes: %s)' % (name, k, o.descs[k].fields.get('id'), owner, o.descs[owner].fields.get('id'),
                                                                           [(i, ow) for i, c, ow in attrs]), witness={'template': name, 'link': [k, owner]})
        for i, cls, owner in attrs:
            if links.get(i) == owner:
                continue
            if cls == 'AssociatedFieldNode':
                if owner != i + 1:
                    rr.fail(key, 'pybufrkit/templatedata.py', 'template "%s": the associated field at flat entry %d is attached to entry %s, not to the element that follows it' % (
                        name, i, owner), witness={'template': name})
                continue
            did = o.descs[i].fields.get('id') if isinstance(i, int) and 0 <= i < len(o.descs) else None
            if did in (8023, 8024, 31021):
                continue
            rr.fail(key, 'pybufrkit/templatedata.py', 'template "%s": flat entry %s (%s) is shown as an attribute of entry %s although the decoder did not link it there (links %s)' % (
                name, i, did, owner, links), witness={'template': name})
    rr.require_floor(15)
    return rr


def rule_r3(repo, tier):
    rr = RuleResult('C07.R3', '225255 values are coded with width + 1 and reference -2**width; other markers keep the element coding')
    fi = repo.method('Decoder', 'process_bitmapped_descriptor')
    widths = range(1, 65) if tier == 'thorough' else list(range(1, 34)) + [40, 48, 63, 64]
    for n in widths:
        for mk_id in MARKERS:
            it = WalkInterp(repo, 'Decoder')
            res = it.run_function(fi, lambda: {'self': Obj('Decoder', {}), 'bit_operator': Top('b'),
                                               'state': make_state(repo, it, {'next_bitmapped_descriptor': NextBitmapped(element(12101, nbits=n, refval=Sym('E.refval'), scale=Sym('E.scale')))}),
                                               'descriptor': operator(mk_id // 1000, 255)}, self_class='Decoder')
            for r in res:
                em = [e for e in r.events if e[0] == 'emit']
                if not r.ok or len(em) != 1 or em[0][1] != 'process_numeric':
                    rr.fail('process_bitmapped_descriptor:%d' % mk_id, fi.where, 'marker %06d over a %d-bit element: %s' % (mk_id, n, [e[1] for e in em] or r.describe()))
                    continue
                d, nbits, sp, refval = em[0][2]
                if mk_id == 225255:
                    ok = nbits == n + 1 and refval == -(2 ** n)
                    want = 'width %d, reference %d' % (n + 1, -(2 ** n))
                else:
                    ok = nbits == n and repr(refval) == 'E.refval'
                    want = 'width %d, the element\'s reference' % n
                ok = ok and isinstance(d, Obj) and d.cls == 'MarkerDescriptor' and d.fields.get('marker_id') == mk_id and d.fields.get('id') == 12101
                if not ok:
                    rr.fail('process_bitmapped_descriptor:%d' % mk_id, fi.where,
                            'marker %06d over a %d-bit element is coded with width %r, reference %r, descriptor %s (expected %s, marker id %d)' % (
                                mk_id, n, nbits, refval, d.fields.get('marker_id') if isinstance(d, Obj) else d, want, mk_id), witness={'nbits': n})
        rr.instance('element width %d x 4 markers' % n)
    rr.require_floor(30)
    return rr


class StoreWireInterp(WireInterp):
    def on_store_attr(self, base, attr, value, node, frame):
        if isinstance(base, Obj) and base.cls == 'TemplateData':
            self.event('selfstore', attr, value.cls if isinstance(value, Obj) else value)
        return False


def rule_r4(repo):
    rr = RuleResult('C07.R4', 'operator <-> node class <-> meaning descriptor tables agree across coder, descriptors and wiring')
    pre = repo.const('descriptors', 'marker_descriptor_prefix')
    rr.instance('marker_descriptor_prefix keys')
    if not isinstance(pre, dict) or pre != {223255: 'T', 224255: 'F', 225255: 'D', 232255: 'R'}:
        rr.fail('descriptors.marker_descriptor_prefix', 'pybufrkit/descriptors.py', 'marker prefixes are %r; documented: 223255 T, 224255 F, 225255 D, 232255 R' % (pre,))
    fi = repo.method('TemplateData', 'wire_operator_descriptor')
    want = {223: ('SubstitutionNode', None), 224: ('FirstOrderStatsNode', 'FOSM'), 225: ('DifferenceStatsNode', 'DSM'), 232: ('ReplacementNode', None)}
    for code, (cls, meaning) in sorted(want.items()):
        it = StoreWireInterp(repo)
        res = it.run_function(fi, lambda: {'self': wirer_self(), 'descriptor': operator(code, 255)}, self_class='TemplateData')
        rr.instance('%d255 -> %s%s' % (code, cls, ' with meaning' if meaning else ''))
        for r in res:
            nodes = [e[1] for e in r.events if e[0] == 'node']
            attach = [(e[1], e[2]) for e in r.events if e[0] == 'attach']
            linkread = [e for e in r.events if e[0] == 'linkread']
            ok = r.ok and nodes == [cls] and len(linkread) == 1 and linkread[0][1] == 0
            if ok:
                # the node is attached to the owner found through bitmap_links[node.index]
                owners = [e[1] for e in r.events if e[0] == 'owner']
                attach = [a.cls for o in owners for a in (o.fields.get('attributes') or []) if isinstance(a, Obj)] + [a[0] for a in attach]
                ok = attach == [cls]
            if not ok:
                rr.fail('wire_operator_descriptor:%d255' % code, fi.where, 'operator %d255 builds %s, reads links %s, attaches %s; expected one %s attached to '
                        'index_to_node[bitmap_links[its index]]' % (code, nodes, [l[1] for l in linkread], attach, cls))
        # the meaning attribute (008023 / 008024) is added to the marker value
        if meaning:
            src = norm(fi.node)
            attr = {'FOSM': 'first_order_stats_meaning', 'DSM': 'difference_stats_meaning'}[meaning]
            # evaluate: does the node carry the meaning node as attribute?
            it = StoreWireInterp(repo)
            res = it.run_function(fi, lambda: {'self': wirer_self(), 'descriptor': operator(code, 255)}, self_class='TemplateData')
            for r in res:
                found = False
                for e in r.events:
                    pass
                # the marker node, wherever it was created (this function or a helper): it hangs on the owner the links designate
                owners = [e[1] for e in r.events if e[0] == 'owner']
                node_objs = [a for o in owners if isinstance(o, Obj) for a in (o.fields.get('attributes') or []) if isinstance(a, Obj) and a.cls == cls]
                node_objs += [v for v in r.locals.values() if isinstance(v, Obj) and v.cls == cls and not any(v is x for x in node_objs)]
                for nobj in node_objs:
                    attrs = nobj.fields.get('attributes') or []
                    if any(isinstance(a, Obj) and repr(a.fields.get('index')) == meaning for a in attrs):
                        found = True
                if not found:
                    rr.fail('wire_operator_descriptor:%d255:meaning' % code, fi.where, 'the %s does not carry its %s node as an attribute' % (cls, attr))
    # meaning descriptors recorded by wire_element_descriptor
    fe = repo.method('TemplateData', 'wire_element_descriptor')
    for did, over, attr, flag in ((31021, {'nbits_associated_list': [4]}, 'associated_field_meaning', None),
                                  (8023, {'waiting_for_1st_order_stats_meaning': True}, 'first_order_stats_meaning', 'waiting_for_1st_order_stats_meaning'),
                                  (8024, {'waiting_for_difference_stats_meaning': True}, 'difference_stats_meaning', 'waiting_for_difference_stats_meaning')):
        it = StoreWireInterp(repo)
        res = it.run_function(fe, lambda: {'self': wirer_self(dict(over)), 'descriptor': element(did)}, self_class='TemplateData')
        rr.instance('%06d records %s' % (did, attr))
        for r in res:
            st = dict((e[1], e[2]) for e in r.events if e[0] == 'selfstore')
            ok = r.ok and st.get(attr) == 'ValueDataNode' and (flag is None or st.get(flag) is False)
            if not ok:
                rr.fail('wire_element_descriptor:%06d' % did, fe.where, '%06d under %s stores %s (expected %s := its node%s)' % (
                    did, over, st, attr, (' and %s := False' % flag) if flag else ''))
        # without the enabling state nothing is recorded
        it = StoreWireInterp(repo)
        res = it.run_function(fe, lambda: {'self': wirer_self(), 'descriptor': element(did)}, self_class='TemplateData')
        for r in res:
            st = dict((e[1], e[2]) for e in r.events if e[0] == 'selfstore')
            if attr in st:
                rr.fail('wire_element_descriptor:%06d:unconditional' % did, fe.where, '%06d is recorded as %s although the corresponding operator is not in force' % (did, attr))
    # operators that set the waiting flags
    for code, flag in ((224, 'waiting_for_1st_order_stats_meaning'), (225, 'waiting_for_difference_stats_meaning'), (222, 'waiting_for_qa_info_meaning')):
        it = StoreWireInterp(repo)
        res = it.run_function(fi, lambda: {'self': wirer_self(), 'descriptor': operator(code, 0)}, self_class='TemplateData')
        rr.instance('%d000 sets %s' % (code, flag))
        for r in res:
            st = dict((e[1], e[2]) for e in r.events if e[0] == 'selfstore')
            if not r.ok or st.get(flag) is not True:
                rr.fail('wire_operator_descriptor:%d000' % code, fi.where, 'operator %d000 does not set %s (stores: %s)' % (code, flag, st))
    # associated field node: precedes and is attached to its owner, carrying the 031021 meaning
    it = StoreWireInterp(repo)
    res = it.run_function(fe, lambda: {'self': wirer_self({'nbits_associated_list': [4]}), 'descriptor': element(12101)}, self_class='TemplateData')
    rr.instance('associated field node attached to the element it precedes')
    for r in res:
        nodes = [(e[1], e[2]) for e in r.events if e[0] == 'node']
        ok = r.ok and nodes == [('AssociatedFieldNode', 0), ('ValueDataNode', 1)]
        owner = [v for v in r.locals.values() if isinstance(v, Obj) and v.cls == 'ValueDataNode' and v.fields.get('index') == 1]
        if ok and owner:
            at = owner[0].fields.get('attributes') or []
            ok = len(at) == 1 and isinstance(at[0], Obj) and at[0].cls == 'AssociatedFieldNode' and \
                any(isinstance(a, Obj) and repr(a.fields.get('index')) == 'AFM' for a in (at[0].fields.get('attributes') or []))
        else:
            ok = False
        if not ok:
            rr.fail('wire_element_descriptor:associated', fe.where, 'with 204 in force the element wires as %s; expected AssociatedFieldNode(index k) carrying the 031021 '
                    'meaning, attached to ValueDataNode(index k+1)' % nodes)
    rr.require_floor(12)
    return rr


def rule_r5(repo):
    rr = RuleResult('C07.R5', 'bitmap-definition state machine: 4 states x {236000, 237000, 031031, other}')
    fi = repo.method('Decoder', 'process_bitmap_definition')
    C = dict((k, repo.const('coder', k)) for k in ('BITMAP_NA', 'BITMAP_INDICATOR', 'BITMAP_WAITING_FOR_BIT', 'BITMAP_BIT_COUNTING'))
    if len(set(C.values())) != 4 or any(not isinstance(v, int) for v in C.values()):
        raise AnalysisError('bitmap definition state constants are not four distinct integers: %r' % C)
    NA, IND, WAIT, CNT = C['BITMAP_NA'], C['BITMAP_INDICATOR'], C['BITMAP_WAITING_FOR_BIT'], C['BITMAP_BIT_COUNTING']
    names = {NA: 'NA', IND: 'INDICATOR', WAIT: 'WAITING', CNT: 'COUNTING'}
    descs = {'236000': operator(236, 0), '237000': operator(237, 0), '031031': element(31031, unit='FLAG TABLE'), 'other': element(12101)}
    # reference (DESIGN appendix A.5): (next state, n, reuse, define_bitmap called)
    n0 = 3

    def ref(state, d, reuse0):
        if state == IND:
            if d == '236000':
                return WAIT, 0, True, False
            if d == '237000':
                return NA, n0, reuse0, False
            if d == '031031':
                return CNT, 1, False, False
            return WAIT, 0, False, False
        if state == WAIT:
            if d == '031031':
                return CNT, n0 + 1, reuse0, False
            return WAIT, n0, reuse0, False
        if state == CNT:
            if d == '031031':
                return CNT, n0 + 1, reuse0, False
            return NA, n0, reuse0, True
        return NA, n0, reuse0, False
    for state in (NA, IND, WAIT, CNT):
        for dn, d in sorted(descs.items()):
            for reuse0 in (True, False):
                it = WalkInterp(repo, 'Decoder')
                res = it.run_function(fi, lambda: {'self': Obj('Decoder', {}), 'bit_operator': Top('b'), 'descriptor': d,
                                                   'state': make_state(repo, it, {'bitmap_definition_state': state, 'n_031031': n0,
                                                                                  'most_recent_bitmap_is_for_reuse': reuse0})}, self_class='Decoder')
                want = ref(state, dn, reuse0)
                for r in res:
                    if not r.ok:
                        rr.fail('process_bitmap_definition:%s+%s' % (names[state], dn), fi.where, 'raises %s' % r.exc.cls)
                        continue
                    s = r.locals['state'].fields
                    q = [e for e in r.events if e[0] == 'query' and e[1] == 'define_bitmap']
                    got = (s['bitmap_definition_state'], s['n_031031'], s['most_recent_bitmap_is_for_reuse'], bool(q))
                    if q and q[0][2] != [reuse0] and want[3]:
                        rr.fail('process_bitmap_definition:%s+%s:reuse-arg' % (names[state], dn), fi.where,
                                'define_bitmap is called with reuse=%r, the flag is %r' % (q[0][2], reuse0))
                    if got != want:
                        rr.fail('process_bitmap_definition:%s+%s' % (names[state], dn), fi.where,
                                'in state %s on %s (count %d, reuse %s): next state %s, count %r, reuse %r, define_bitmap %s; expected %s, %d, %r, %s' % (
                                    names[state], dn, n0, reuse0, names.get(got[0], got[0]), got[1], got[2], 'called' if got[3] else 'not called',
                                    names[want[0]], want[1], want[2], 'called' if want[3] else 'not called'),
                                witness={'state': names[state], 'descriptor': dn})
            rr.instance('state %s on %s' % (names[state], dn))
    rr.require_floor(16)
    return rr


class BitmapInterp(Interp):
    """define_bitmap: which slice of which list becomes the bitmap."""

    def on_subscript(self, base, idx, node, frame):
        if isinstance(base, Sym) and isinstance(idx, tuple) and idx and idx[0] == 'slice':
            return Sym('slice', base, _n(idx[1]), _n(idx[2]))
        if isinstance(base, Sym):
            return Sym('item', base, _n(idx))
        return self.NOT_HANDLED

    def on_call(self, text, callee, args, kwargs, node, frame):
        from sa.patheval import FuncRef as _FR
        if text == 'state.build_bitmapped_descriptors' or (isinstance(callee, _FR) and callee.fi.name == 'build_bitmapped_descriptors'):
            # (recognised by what the call resolves to: the state method may be reached through a helper of the state)
            self.event('build', args[0] if args else None)
            return None
        return self.NOT_HANDLED

    def on_store_attr(self, base, attr, value, node, frame):
        if isinstance(base, Obj) and base.cls == 'CoderState':
            self.event('store', attr, value)
        return False


def _n(v):
    return Sym('None') if v is None else v


def rule_r6(repo):
    """define_bitmap of both coders folded on a real coder state with three subsets that hold different values (uncompressed: switched to
    the second subset; compressed: one walk for all): the bits handed to build_bitmapped_descriptors - recognised by what the call
    resolves to, however it is reached - are the last n_031031 values just decoded (decoder) / just consumed (encoder) *of the subset
    being processed* (of subset 0, which stands for all, when compressed); a bitmap for reuse is stored, any other leaves the stored
    one alone."""
    from sa.rules.walk import fold_init
    rr = RuleResult('C07.R6', 'define_bitmap takes the last n_031031 values of the subset being processed (subset 0 only when compressed)')
    rows = [[5, 1, 0, 1, 7, 9], [6, 0, 1, 1, 8, 9], [7, 1, 1, 0, 9, 9]]
    for coder in ('Decoder', 'Encoder'):
        fi = repo.method(coder, 'define_bitmap')
        for comp in (True, False):
            for reuse in (True, False):
                it = BitmapInterp(repo, coder)
                box = {}

                def mk():
                    if coder == 'Decoder':
                        sts = fold_init(repo, comp, 3)
                    else:
                        sts = fold_init(repo, comp, 3, values=[list(r) for r in rows])
                    st = ([x for x in sts if isinstance(x.fields.get('decoded_values_all_subsets'), list) and
                           all(type(v) is list for v in x.fields['decoded_values_all_subsets'])] or sts)[0]
                    if not comp:
                        sw = repo.own_method('CoderState', 'switch_subset_context')
                        r0 = Interp(repo, 'CoderState').run_function(sw, lambda: {'self': st, sw.params[1]: 1}, self_class='CoderState')
                        if len(r0) != 1 or not r0[0].ok:
                            raise AnalysisError('switch_subset_context(1) could not be folded')
                    if coder == 'Decoder':
                        # what has been decoded so far: the first four values of each row (the last three are the 031031 bits)
                        for k, row in enumerate(rows):
                            lst = st.fields['decoded_values_all_subsets'][k]
                            if comp or k <= 1:
                                lst.extend(row[:4])
                    st.fields['n_031031'] = 3
                    st.fields['idx_value'] = 4
                    st.fields['bitmap'] = 'OLD'
                    box['st'] = st
                    return {'self': Obj(coder, {}), 'reuse': reuse, 'state': st}
                res = it.run_function(fi, mk, self_class=coder)
                rr.instance('%s.define_bitmap(compressed=%s, reuse=%s)' % (coder, comp, reuse))
                want = rows[0 if comp else 1][1:4]
                for r in res:
                    b = [e[1] for e in r.events if e[0] == 'build']
                    if not r.ok or len(b) != 1 or b[0] != want:
                        rr.fail('%s.define_bitmap:source' % coder, fi.where,
                                'compressed=%s, three subsets with the bits %s: the bitmap built is %s; expected %s (the bits just %s for %s)' % (
                                    comp, [x[1:4] for x in rows], b or r.describe(), want, 'decoded' if coder == 'Decoder' else 'consumed',
                                    'subset 0 = all subsets' if comp else 'the subset being processed, the second one'), witness={'compressed': comp})
                    stored = box['st'].fields.get('bitmap')
                    if r.ok and reuse and stored != want:
                        rr.fail('%s.define_bitmap:reuse' % coder, fi.where, 'a bitmap defined for reuse is stored as %r (expected %r)' % (stored, want))
                    if r.ok and not reuse and stored != 'OLD':
                        rr.fail('%s.define_bitmap:reuse' % coder, fi.where, 'a bitmap not defined for reuse overwrites the stored bitmap (%r)' % (stored,))
    rr.require_floor(8)
    return rr


def run(repo, check):
    from sa.rules import c09
    check.run_rule(rule_r1, repo)
    check.run_rule(rule_r2, repo)
    check.run_rule(rule_r3, repo, check.tier)
    check.run_rule(rule_r4, repo)
    check.run_rule(rule_r5, repo)
    check.run_rule(rule_r6, repo)
    check.run_rule(rule_recall, repo)
    check.run_rule(rule_pipeline_links, repo)
    r7 = check.call(c09.rule_r1, repo, 'C07.R7')
    r7.title = 'coder / wirer lockstep (shared with C09.R1): attributes attach to the right flat entries only if both sides count alike'
    check.add(r7)
    from sa.rules import c06, c08
    r8 = check.call(c06.rule_r1, repo)
    r8.rule = 'C07.R8'
    r8.title = 'bitmap and back-reference bookkeeping is re-initialised for every subset (shared with C06.R1)'
    for f in r8.findings:
        f.rule = 'C07.R8'
    check.add(r8)
    r9 = check.call(c08.rule_r6, repo, 'quick', only_bitmap=True)
    r9.rule = 'C07.R9'
    r9.title = 'compiled templates keep the bitmap bookkeeping of the plain walk (bitmap templates of C08.R6)'
    for f in r9.findings:
        f.rule = 'C07.R9'
    check.add(r9)
    from sa.rules.common import share
    share(check, repo, c09.rule_registered, 'C07.R10', 'every value node is addressable by the flat index a bitmap link designates (shared with C09.R7)', args=('C07.R10',))
    share(check, repo, c06.rule_alias, 'C07.R11', 'link records: one per subset when uncompressed, one shared record when compressed (shared with C05.R3 / C06.R5)', args=('C07.R11',))
    from sa.rules import c01 as _c01, c06 as _c06
    from sa.rules.common import share as _sh
    _sh(check, repo, _c01.rule_r4, 'C07.R12', 'bitmap operators 235000 / 236000 / 237000 / 237255 change exactly the registers FM-94 says (shared with C01.R4)', args=(check.tier,),
        keep=lambda f: any(k in f.key for k in (':222', ':223', ':224', ':225', ':232', ':235', ':236', ':237')))
    _sh(check, repo, _c06.rule_r3, 'C07.R13', 'attributes are wired subset by subset, each on its own records (shared with C06.R3)', args=('C07.R13', (False, True)))
    _sh(check, repo, c09.rule_attributes_shown, 'C07.R15', 'the hierarchical views show each attribute under its owner (shared with C09.R10)', args=('C07.R15',))
    from sa.rules import c13 as _c13
    _sh(check, repo, _c13.rule_r9, 'C07.R14', 'every message starts from its own bitmap / associated-field registers: two coder states of one process share no mutable '
        'register object (shared with C13.R9)',
        keep=lambda f: any(k in f.key for k in ('nbits_of_associated', 'bitmap', 'back_referenc', 'bsr_modifier', 'new_refvals', 'n_031031')))
    check.assumptions = ['each primitive appends exactly one flat entry (C01.R3), so the k-th emission is flat index k',
                         'which element a given bitmap designates in a given message is a runtime fact; the rules decide the mechanism']
