"""
Shared machinery for the encoder/decoder primitive rules (C01, C02, C03, C05, C19).

Every primitive `Decoder.process_X_(un)compressed` / `Encoder.process_X_(un)compressed`
is evaluated path by path with PathEval over abstract values: the bit reader/writer,
the value and descriptor lists and the per-subset iteration are `Native` recorders that
log events with the expression DAGs of their arguments.  Nothing is executed.
"""
from __future__ import print_function

import ast

from sa.model import AnalysisError, norm
from sa.patheval import (Interp, Native, Obj, Sym, Top, Raise, UnknownMethod, FuncRef, NativeMethod, Frame)

PRIMS = ('numeric', 'string', 'codeflag', 'new_refval', 'constant')
MODES = ('uncompressed', 'compressed')


class BitIO(Native):
    def __init__(self, kind, reads=None):
        self.kind = kind        # 'r' | 'w'
        self.n = 0
        self.reads = list(reads or [])   # optional concrete values for the first reads

    def __repr__(self):
        return 'BitIO(%s)' % self.kind

    def call_method(self, name, args, kwargs, interp, frame, node):
        self.n += 1
        k = len([e for e in interp.path.events if e[0] == 'io'])
        interp.event('io', name, list(args), interp.where(node, frame))
        if name.startswith('read') and self.reads:
            return self.reads.pop(0)
        if name.startswith('read') or name == 'get_pos':
            return Sym('io%d' % k)
        if name.startswith('write') and args:
            return args[0]
        return None


class RecList(Native):
    """A list the primitive appends to / reads from (decoded_descriptors, decoded_values)."""

    def __init__(self, name):
        self.name = name

    def __repr__(self):
        return 'RecList(%s)' % self.name

    def call_method(self, name, args, kwargs, interp, frame, node):
        if name == 'append':
            interp.event('append', self.name, args[0], interp.where(node, frame))
            return None
        interp.event('listcall', self.name, name, list(args), interp.where(node, frame))
        return Top('call:' + name)


class RecDict(Native):
    def __init__(self, name):
        self.name = name

    def __repr__(self):
        return 'RecDict(%s)' % self.name


class AllSubsets(Native):
    def __repr__(self):
        return 'AllSubsets'


class CodecInterp(Interp):
    """PathEval specialised for one primitive of one coder."""

    NUMERIC_PARAMS = ('refval', 'scale_powered', 'nbits', 'nbits_min_value', 'nbytes', 'nbytes_min_value', 'refval_factor',
                      'value')

    def __init__(self, repo, coder):
        Interp.__init__(self, repo, coder)
        self.coder = coder
        self.missing_table = repo.const('constants', 'NUMERIC_MISSING_VALUES')

    # ----------------------------------------------------------------- values
    def ev_Compare(self, e, frame):
        left = self.ev(e.left, frame)
        if len(e.ops) == 1:
            right = self.ev(e.comparators[0], frame)
            r = self.cmp(e.ops[0], left, right, frame)
            if r is None:
                if isinstance(left, (Sym, Native)) or isinstance(right, (Sym, Native)):
                    return Sym('cmp' + type(e.ops[0]).__name__, _s(left), _s(right))
                return Top('bool')
            return r
        return Interp.ev_Compare(self, e, frame)

    def truth(self, v):
        if isinstance(v, (RecList, RecDict, AllSubsets)):
            return None
        return Interp.truth(self, v)

    def _decisions(self):
        d = getattr(self, '_dec', None)
        if d is None or d[0] is not self.path:
            d = self._dec = (self.path, {})
        return d[1]

    def cond(self, test, frame):
        """As Interp.cond, but a decision taken on an expression DAG is remembered for the rest of
        the path (so `all_equal` decided in a helper is not re-decided differently by the caller) and
        logged as a ('decide', dag, truth) event."""
        if isinstance(test, ast.BoolOp) or (isinstance(test, ast.UnaryOp) and isinstance(test.op, ast.Not)):
            return Interp.cond(self, test, frame)
        v = self.ev(test, frame)
        t = self.truth(v)
        if t is None:
            key = repr(v) if isinstance(v, Sym) else None
            d = self._decisions()
            if key is not None and key in d:
                t = d[key]
            else:
                t = self.choose_bool(norm(test))
                if key is not None:
                    d[key] = t
                self.event('decide', key if key is not None else norm(test), t)
            self.refine(test, t, frame)
            self.on_refine(test, t, frame)
            self.on_decide(v, t, frame)
        return t

    def _is_leaf(self, v):
        return isinstance(v, Sym) and not v.args and (v.op.startswith('P:') or v.op.startswith('io'))

    def on_decide(self, v, truth, frame):
        """value-based identity-guard refinement: the decided value may be a leaf held in a flag variable, or the result of a
        comparison computed earlier (`one_bit = nbits_diff == 1 ... if one_bit and diff == 1`) or in a helper; the binding
        is applied to every frame of the call stack (the caller's `diff` is the helper's parameter)."""
        if not isinstance(v, Sym):
            return
        if self._is_leaf(v):
            if not truth and (v.op[2:] in self.NUMERIC_PARAMS or v.op.startswith('io')):
                self.rebind(frame, v, 0)
            return
        if v.op in ('cmpEq', 'cmpIs', 'cmpNotEq', 'cmpIsNot') and len(v.args) == 2:
            eq = v.op in ('cmpEq', 'cmpIs')
            if eq != truth:
                return
            a, b = v.args
            for x, y in ((a, b), (b, a)):
                if self._is_leaf(x) and not isinstance(y, (Sym, Top, Obj, list, dict, tuple)):
                    self.rebind(frame, x, y)
                    return

    def on_refine(self, test, truth, frame):
        """identity-guard refinement: on the arm where `p` is falsy bind p := 0, where `p != k`
        is false (or `p == k` true) bind p := k -- for parameters and locals holding a leaf."""
        if isinstance(test, ast.UnaryOp) and isinstance(test.op, ast.Not):
            return self.on_refine(test.operand, not truth, frame)
        if isinstance(test, ast.Name) and not truth:
            v = frame.locals.get(test.id)
            if isinstance(v, Sym) and not v.args and (v.op.startswith('P:') or v.op.startswith('io')):
                if v.op[2:] in self.NUMERIC_PARAMS or v.op.startswith('io'):
                    self.rebind(frame, v, 0)
            return
        if isinstance(test, ast.Compare) and len(test.ops) == 1:
            op = test.ops[0]
            eq = isinstance(op, (ast.Eq, ast.Is)) and truth
            ne = isinstance(op, (ast.NotEq, ast.IsNot)) and not truth
            if eq or ne:
                l, r = test.left, test.comparators[0]
                for a, b in ((l, r), (r, l)):
                    if isinstance(a, ast.Name) and isinstance(frame.locals.get(a.id), Sym) and isinstance(b, ast.Constant):
                        v = frame.locals[a.id]
                        if not v.args:
                            self.rebind(frame, v, b.value)
                        else:
                            frame.locals[a.id] = b.value
                        return

    def rebind(self, frame, leaf, const):
        """Replace every local that *is* this leaf by the constant (the guard decided its value)."""
        ev = ('bind', repr(leaf), const)
        if ev not in self.path.events:
            self.path.events.append(ev)
        frames = list(getattr(self, 'frame_stack', None) or [])
        if not any(f is frame for f in frames):
            frames.append(frame)
        for f in frames:
            for k, v in list(f.locals.items()):
                if isinstance(v, Sym) and v == leaf:
                    f.locals[k] = const

    def on_subscript(self, base, idx, node, frame):
        if isinstance(base, RecList):
            return Sym('elem', Sym(base.name), _s(idx))
        if isinstance(base, RecDict):
            return Sym('item', Sym(base.name), _s(idx))
        if isinstance(base, Sym) and base.op == 'VALUES':
            if idx == 0:
                return Sym('V0')
            return Sym('Vi')
        if base is self.missing_table or (isinstance(base, list) and base == self.missing_table and len(base) == 65):
            if isinstance(idx, int) and not isinstance(idx, bool):
                return Interp.subscript(self, base, idx, node, frame)
            return Sym('MISSING', _s(idx))
        if isinstance(base, AllSubsets):
            return RecList('decoded_values_all_subsets[%s]' % (idx,))
        return self.NOT_HANDLED

    def on_store_subscript(self, base, idx, value, node, frame):
        if isinstance(base, RecDict):
            self.event('dictstore', base.name, _s(idx), value, self.where(node, frame))
            return True
        if isinstance(base, Sym) and base.op == 'VALUES':
            self.event('valstore', value, self.where(node, frame))
            return True
        if isinstance(base, RecList):
            self.event('liststore', base.name, _s(idx), value, self.where(node, frame))
            return True
        return False

    def on_store_attr(self, base, attr, value, node, frame):
        if isinstance(base, Obj) and base.cls == 'CoderState':
            self.event('statestore', attr, value, self.where(node, frame))
        return False

    def on_abstract_loop(self, node, itervalue, frame, token):
        """A plain list that is empty before a per-subset loop and receives exactly one element per iteration is the per-subset
        column itself (`diffs = []; for v in values: diffs.append(v - m)` is `values[i] = v - m` / `[v - m for v in values]`)."""
        per_subset = isinstance(itervalue, AllSubsets) or (isinstance(itervalue, Sym) and itervalue.op == 'VALUES') or \
            (isinstance(itervalue, Obj) and itervalue.cls == 'enumerate')
        if not per_subset:
            return None
        frames = list(getattr(self, 'frame_stack', None) or [frame])
        if token is None:
            seen = {}
            for f in frames:
                for k, v in f.locals.items():
                    if type(v) is list and len(v) == 0:
                        seen[id(v)] = v
            return seen
        for lid, lst in token.items():
            if len(lst) == 1:
                elt = lst[0]
                self.event('valstore', elt, self.where(node, frame))
                for f in frames:
                    for k, v in list(f.locals.items()):
                        if v is lst:
                            f.locals[k] = Sym('VALUES')
        return None

    def loop_var(self, node, itervalue, frame):
        if isinstance(itervalue, AllSubsets):
            return RecList('decoded_values@subset')
        if isinstance(itervalue, Sym) and itervalue.op == 'VALUES':
            return Sym('Vi')
        if isinstance(itervalue, Obj) and itervalue.cls == 'enumerate' and isinstance(itervalue.fields.get('of'), Sym) \
                and itervalue.fields['of'].op == 'VALUES':
            return (Top('idx'), Sym('Vi'))
        return Top('loopvar')

    def comprehension(self, e, frame, ctor):
        if len(e.generators) == 1:
            g = e.generators[0]
            it = self.ev(g.iter, frame)
            if isinstance(it, AllSubsets) and not g.ifs:
                saved = dict(frame.locals)
                self.assign(g.target, RecList('decoded_values@subset'), frame, e)
                elt = self.ev(e.elt, frame)
                frame.locals = saved
                self.event('gather', elt)
                return Sym('VALUES')
            if isinstance(it, Sym) and it.op == 'VALUES' and not g.ifs:
                # [f(v) for v in values]: one rewritten value per subset -- the same fact as `values[idx] = f(v)` in a loop
                saved = dict(frame.locals)
                self.assign(g.target, Sym('Vi'), frame, e)
                elt = self.ev(e.elt, frame)
                frame.locals = saved
                self.event('valstore', elt, self.where(e, frame))
                return Sym('VALUES')
            return Interp.comprehension(self, e, frame, ctor)
        return Interp.comprehension(self, e, frame, ctor)

    def on_call(self, text, callee, args, kwargs, node, frame):
        from sa.patheval import FuncRef as _FR
        if text.split('.')[-1] == 'minmax' or (isinstance(callee, _FR) and callee.fi.name == 'minmax'):
            # (the minimum / maximum of the present values of the column, wherever the helper lives)
            self.event('minmax', args[0] if args else None)
            return (Sym('MIN'), Sym('MAX'))
        if text.split('.')[-1] == 'nbits_for_uint' or (isinstance(callee, _FR) and callee.fi.name == 'nbits_for_uint'):
            return Sym('NBD', _s(args[0]))
        if text.startswith('log.'):
            return None
        if isinstance(callee, UnknownMethod) and isinstance(callee.recv, Sym) and callee.recv.op == 'VALUES':
            return Sym('m_' + callee.name, callee.recv, *[_s(a) for a in args])
        if isinstance(callee, UnknownMethod) and callee.name == 'format':
            return Top('str')
        if text == 'enumerate' and args and isinstance(args[0], Sym):
            return Obj('enumerate', {'of': args[0]})
        return self.NOT_HANDLED

    def builtin(self, name, args, kwargs, node, frame):
        if name == 'len' and args and isinstance(args[0], (Sym, RecList)):
            return Sym('len', _s(args[0]))
        return Interp.builtin(self, name, args, kwargs, node, frame)


def _s(v):
    if isinstance(v, Native):
        return Sym(repr(v))
    return v


def make_state(is_compressed):
    return Obj('CoderState', {
        'is_compressed': is_compressed,
        'n_subsets': Sym('NSUB'),
        'decoded_descriptors': RecList('decoded_descriptors'),
        'decoded_values': RecList('decoded_values'),
        'decoded_values_all_subsets': AllSubsets(),
        'idx_value': Sym('IDX'),
        'new_refvals': RecDict('new_refvals'),
    })


def make_descriptor():
    return Obj('ElementDescriptor', {'id': Sym('D.id'), 'nbits': Sym('D.nbits'), 'scale': Sym('D.scale'),
                                     'refval': Sym('D.refval'), 'unit': Sym('D.unit'), 'name': Sym('D.name')})


class PathRec(object):
    """What one path of one primitive did."""

    def __init__(self, res, params):
        self.res = res
        self.params = params
        self.events = res.events
        self.outcome = res.outcome
        self.exc = res.exc.cls if res.exc is not None else None
        self.locals = res.locals
        self.choices = [(l, c) for l, c, n in res.log]

    @property
    def ok(self):
        return self.outcome != 'raise'

    def io(self):
        return [e for e in self.events if e[0] == 'io']

    def appends(self, name):
        return [e for e in self.events if e[0] == 'append' and e[1] == name]

    def bindings(self):
        return dict((e[1], e[2]) for e in self.events if e[0] == 'bind')

    def desc(self):
        return ' ; '.join('%s=%s' % (l, 'T' if c == 0 else 'F') for l, c in self.choices) or '<straight>'


def run_primitive(repo, coder, meth, is_compressed=None, reads=None, params_over=None):
    """All paths of coder.meth under abstract arguments.  Returns (FuncInfo, [PathRec])."""
    fi = repo.method(coder, meth)
    if is_compressed is None:
        is_compressed = meth.endswith('_compressed') or meth.startswith('_next_compressed')
    interp = CodecInterp(repo, coder)
    params = fi.params

    def mk():
        loc = {}
        for p in params:
            if p == 'self':
                loc[p] = Obj(coder, {})
            elif p == 'state':
                loc[p] = make_state(is_compressed)
            elif p in ('bit_reader', 'bit_writer', 'bit_operator'):
                loc[p] = BitIO('r' if coder == 'Decoder' else 'w', reads)
            elif params_over and p in params_over:
                loc[p] = params_over[p]
            elif p == 'descriptor':
                loc[p] = make_descriptor()
            else:
                loc[p] = Sym('P:' + p)
        return loc

    results = interp.run_function(fi, mk, self_class=coder)
    return fi, [PathRec(r, params) for r in results], interp


# ---------------------------------------------------------------------------
# I/O skeletons
# ---------------------------------------------------------------------------
KIND = {'read_uint': 'uint', 'read_uint_or_none': 'uint', 'write_uint': 'uint', 'read_int': 'int', 'write_int': 'int',
        'read_bytes': 'bytes', 'write_bytes': 'bytes', 'read_bin': 'bin', 'write_bin': 'bin', 'read_bool': 'bool',
        'write_bool': 'bool', 'skip': 'bin'}


def canon_width(w, rec, io_index):
    """Width canonicalised to: constant / ('P', position of the parameter) / ('F', index of the field
    whose value it is) / ('D', attr)."""
    params = [p for p in rec.params if p not in ('self', 'state', 'bit_reader', 'bit_writer', 'bit_operator', 'descriptor')]
    if isinstance(w, bool):
        return ('const', int(w))
    if isinstance(w, int):
        return ('const', w)
    if isinstance(w, Sym):
        if w.op.startswith('P:') and not w.args:
            nm = w.op[2:]
            return ('P', params.index(nm)) if nm in params else ('P?', nm)
        if w.op.startswith('io') and not w.args:
            # the value read by an earlier field (decoder)
            k = int(w.op[2:])
            return ('F', k)
        if w.op.startswith('D.'):
            return ('D', w.op[2:])
        return ('expr', repr(w))
    return ('other', repr(w))


def skeleton(rec, coder):
    """Sequence of (kind, canonical width) with loop brackets for one path.  For the encoder a width that is
    the value written by an earlier field is mapped to ('F', index of that field)."""
    sk = []
    written = []   # (field index, value) for encoder
    k = 0
    for e in rec.events:
        if e[0] == 'io':
            name, args = e[1], e[2]
            if name in ('get_pos',):
                continue
            kind = KIND.get(name, name)
            if coder == 'Decoder':
                w = args[0] if args else None
            else:
                w = args[1] if len(args) > 1 else None
            cw = canon_width(w, rec, k)
            if coder == 'Encoder' and cw[0] in ('expr', 'P?', 'other') or (coder == 'Encoder' and isinstance(w, Sym)):
                for fk, fv in written:
                    if isinstance(fv, Sym) and fv == w:
                        cw = ('F', fk)
                        break
            if coder == 'Encoder':
                written.append((k, args[0] if args else None))
            sk.append((kind, cw))
            k += 1
        elif e[0] in ('loop_begin', 'loop_end'):
            sk.append((e[0],))
    # drop loops without I/O
    changed = True
    while changed:
        changed = False
        for i in range(len(sk) - 1):
            if sk[i] == ('loop_begin',) and sk[i + 1] == ('loop_end',):
                del sk[i:i + 2]
                changed = True
                break
    return tuple(sk)


# ---------------------------------------------------------------------------
# linear normal form of an expression DAG
# ---------------------------------------------------------------------------
def linear(v):
    """{leaf repr: coeff, '': const} for expressions made of add/sub/neg/mul-by-constant; None otherwise."""
    if isinstance(v, bool):
        return None
    if isinstance(v, (int, float)):
        return {'': v}
    if isinstance(v, Sym):
        if v.op in ('add', 'sub') and len(v.args) == 2:
            a, b = linear(v.args[0]), linear(v.args[1])
            if a is None or b is None:
                return {repr(v): 1}
            out = dict(a)
            sgn = 1 if v.op == 'add' else -1
            for k, c in b.items():
                out[k] = out.get(k, 0) + sgn * c
            return dict((k, c) for k, c in out.items() if c != 0 or k == '')
        if v.op == 'neg' and len(v.args) == 1:
            a = linear(v.args[0])
            if a is None:
                return {repr(v): 1}
            return dict((k, -c) for k, c in a.items())
        if v.op == 'mul' and len(v.args) == 2:
            for x, y in ((v.args[0], v.args[1]), (v.args[1], v.args[0])):
                if isinstance(x, (int, float)) and not isinstance(x, bool):
                    a = linear(y)
                    if a is not None:
                        return dict((k, c * x) for k, c in a.items())
            return {repr(v): 1}
        return {repr(v): 1}
    return None


def lin_eq(a, b):
    la, lb = linear(a), linear(b)
    if la is None or lb is None:
        return False

    def clean(d):
        return dict((k, c) for k, c in d.items() if c != 0)

    return clean(la) == clean(lb)


def sym_has(v, op):
    if isinstance(v, Sym):
        if v.op == op:
            return True
        return any(sym_has(a, op) for a in v.args)
    return False


def sym_find(v, pred):
    out = []
    if isinstance(v, Sym):
        if pred(v):
            out.append(v)
        for a in v.args:
            out.extend(sym_find(a, pred))
    return out


def require_paths(recs, fi, minimum=1):
    ok = [r for r in recs if r.ok]
    if len(ok) < minimum:
        raise AnalysisError('%s: only %d non-raising paths found (expected >= %d)' % (fi.qualname, len(ok), minimum))
    return ok


# ---------------------------------------------------------------------------
# concrete evaluation of an expression DAG (used to fold a DAG over a finite domain)
# ---------------------------------------------------------------------------
class NoEval(Exception):
    pass


def eval_sym(v, env):
    """Value of DAG `v` with leaves bound by env {leaf repr: number}.  Only arithmetic nodes."""
    if isinstance(v, bool) or v is None:
        raise NoEval(repr(v))
    if isinstance(v, (int, float)):
        return v
    if isinstance(v, Sym):
        if not v.args:
            if v.op in env:
                return env[v.op]
            raise NoEval('unbound leaf %s' % v.op)
        a = [eval_sym(x, env) for x in v.args]
        op = v.op
        try:
            if op == 'add':
                return a[0] + a[1]
            if op == 'sub':
                return a[0] - a[1]
            if op == 'mul':
                return a[0] * a[1]
            if op == 'div':
                return a[0] / a[1]
            if op == 'floordiv':
                return a[0] // a[1]
            if op == 'mod':
                return a[0] % a[1]
            if op == 'pow':
                return a[0] ** a[1]
            if op == 'neg':
                return -a[0]
            if op == 'int':
                return int(a[0])
            if op == 'round':
                return round(*a)
            if op == 'abs':
                return abs(a[0])
            if op == 'and':
                return a[0] & a[1]
            if op == 'or':
                return a[0] | a[1]
            if op == 'lshift':
                return a[0] << a[1]
            if op == 'rshift':
                return a[0] >> a[1]
        except ZeroDivisionError:
            raise NoEval('division by zero')
        raise NoEval('operator %s' % op)
    raise NoEval(repr(v))


def norm_round(v):
    """int(round(X)) -> ROUND(X); round(X) alone -> RND(X)."""
    if isinstance(v, Sym):
        args = tuple(norm_round(a) for a in v.args)
        if v.op == 'int' and len(args) == 1 and isinstance(args[0], Sym) and args[0].op == 'round' and len(args[0].args) == 1:
            return Sym('ROUND', args[0].args[0])
        return Sym(v.op, *args) if args else v
    return v
