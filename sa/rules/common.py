"""Helpers shared by the per-property rule modules."""
from __future__ import print_function

import ast

from sa.model import AnalysisError, CallGraph, effects, norm


def walk_entries(repo, entry_class):
    """The functions from which the per-subset template walk starts, resolved for one coder class."""
    out = [repo.method(entry_class, 'process_template')]
    out.append(repo.func('templatecompiler', 'process_compiled_template'))
    return out


def state_receivers(fi):
    """Names that denote the CoderState inside function fi."""
    if fi.cls is not None and fi.cls.name in ('CoderState', 'CompilerState'):
        return ['self']
    return ['state'] if 'state' in fi.params else []


def state_properties_keys(repo):
    """Keys of every `state_properties` dict the compiler records: [(key, value_node or None, dict_node or None, FuncInfo)].
    Read from the dict displays when the compiler writes them as such; otherwise (built by a helper, a comprehension over a
    table of names, ...) obtained by folding the compiler on templates with a marker operator and reading the recorded statements."""
    try:
        return _state_properties_keys_syntactic(repo)
    except AnalysisError:
        return _state_properties_keys_folded(repo)


def _state_properties_keys_folded(repo):
    from sa.rules import c08
    from sa.patheval import Obj
    fi = repo.method('TemplateCompiler', 'process_bitmapped_descriptor')
    keys = []
    templates = [[c08.E(), c08.OP(224000), c08.OP(236000), c08.BITS(), c08.E(8023, 'CODE TABLE'), c08.OP(224255)],
                 [c08.E(), c08.OP(201130), c08.OP(202129), c08.OP(207002), c08.OP(208003), c08.OP(223000), c08.OP(236000), c08.BITS(), c08.OP(223255),
                  c08.OP(208000), c08.OP(207000), c08.OP(202000), c08.OP(201000)]]
    for members in templates:
        for r, statements in c08.run_compile(repo, members):
            if not r.ok:
                continue
            for st in c08._flatten(statements):
                sp = st.fields.get('state_properties') if isinstance(st, Obj) else None
                if isinstance(sp, dict):
                    for k in sp:
                        if isinstance(k, str) and k not in keys:
                            keys.append(k)
    if not keys:
        raise AnalysisError('no state_properties recorded by the template compiler for marker operators (neither as dict displays nor when folded)')
    return [(k, None, None, fi) for k in keys]


def _state_properties_keys_syntactic(repo):
    out = []
    m = repo.module('templatecompiler')
    for c in m.classes.values():
        for fi in c.methods.values():
            dicts = {}
            for n in ast.walk(fi.node):
                if isinstance(n, ast.Assign) and len(n.targets) == 1 and isinstance(n.targets[0], ast.Name) \
                        and isinstance(n.value, ast.Dict):
                    dicts[n.targets[0].id] = n.value
            for call in effects(fi).calls:
                for kw in call.keywords:
                    if kw.arg == 'state_properties':
                        d = kw.value
                        if isinstance(d, ast.Constant) and d.value is None:
                            continue
                        cands = []
                        if isinstance(d, ast.Dict):
                            cands.append(d)
                        elif isinstance(d, ast.Name):
                            # every dict display assigned to the name, plus `name['key'] = value` stores and `name or None`
                            for n in ast.walk(fi.node):
                                if isinstance(n, ast.Assign):
                                    for t in n.targets:
                                        if isinstance(t, ast.Name) and t.id == d.id:
                                            for x in ast.walk(n.value):
                                                if isinstance(x, ast.Dict):
                                                    cands.append(x)
                                        if isinstance(t, ast.Subscript) and isinstance(t.value, ast.Name) and t.value.id == d.id and \
                                                isinstance(t.slice, ast.Constant) and isinstance(t.slice.value, str):
                                            out.append((t.slice.value, n.value, n, fi))
                        elif isinstance(d, (ast.BoolOp, ast.IfExp)):
                            for x in ast.walk(d):
                                if isinstance(x, ast.Dict):
                                    cands.append(x)
                                if isinstance(x, ast.Name) and x.id in dicts:
                                    cands.append(dicts[x.id])
                        if not cands and not any(o[3] is fi for o in out):
                            raise AnalysisError('state_properties of %s is not recognisable: %s' % (fi.qualname, norm(kw.value)))
                        for dd in cands:
                            for k, v in zip(dd.keys, dd.values):
                                if not (isinstance(k, ast.Constant) and isinstance(k.value, str)):
                                    raise AnalysisError('non-constant state_properties key in %s' % fi.qualname)
                                out.append((k.value, v, dd, fi))
    return out


def register_writes(repo, entry_class, include_setattr=True):
    """{attr: [(FuncInfo, node, kind)]}: CoderState attributes written by anything reachable from the
    template walk of `entry_class` (store, aug-assign, mutator call, subscript store, setattr replay,
    State031031* statements)."""
    cg = CallGraph(repo, entry_class)
    reach = cg.reachable(walk_entries(repo, entry_class))
    W = {}
    for fi in reach:
        if fi.cls is not None and fi.cls.name in ('CoderState',) and fi.name in ('__init__', 'switch_subset_context'):
            continue
        eff = effects(fi)
        for recv in state_receivers(fi):
            for attr, nodes in eff.writes.get(recv, {}).items():
                for n in nodes:
                    W.setdefault(attr, []).append((fi, n, 'store'))
            for attr, nodes in eff.mutates.get(recv, {}).items():
                for n in nodes:
                    W.setdefault(attr, []).append((fi, n, 'mutate'))
        if include_setattr:
            for call in eff.setattrs:
                tgt = call.args[0]
                if isinstance(tgt, ast.Name) and tgt.id == 'state':
                    for key, v, d, cfi in state_properties_keys(repo):
                        W.setdefault(key, []).append((fi, call, 'setattr[%s]' % cfi.qualname))
    return W, reach, cg


def init_assignments(fi, recv='self'):
    """{attr: [value_node]} for plain `recv.attr = value` statements anywhere in fi (incl. both arms of ifs)."""
    out = {}
    for n in ast.walk(fi.node):
        if isinstance(n, ast.Assign):
            for t in n.targets:
                if isinstance(t, ast.Attribute) and isinstance(t.value, ast.Name) and t.value.id == recv:
                    out.setdefault(t.attr, []).append(n.value)
    return out


def self_helper_closure(repo, fi, clsname):
    """fi plus the methods of clsname it calls on self, transitively."""
    seen, stack = [], [fi]
    while stack:
        f = stack.pop()
        if f in seen:
            continue
        seen.append(f)
        for c in effects(f).calls:
            if isinstance(c.func, ast.Attribute) and isinstance(c.func.value, ast.Name) and c.func.value.id == 'self':
                g = repo.method(clsname, c.func.attr, required=False)
                if g is not None:
                    stack.append(g)
    return seen


def same_ast(a, b):
    return ast.dump(a) == ast.dump(b)


def find_calls(node, pred):
    return [n for n in ast.walk(node) if isinstance(n, ast.Call) and pred(n)]


def callee_text(call):
    return norm(call.func)


def top_level_index(stmts, pred):
    """Index of the first top-level statement in stmts for which pred(stmt) holds, else None."""
    for i, s in enumerate(stmts):
        if pred(s):
            return i
    return None


def contains(node, pred):
    return any(pred(n) for n in ast.walk(node))


def share(check, repo, fn, new_rule, title=None, keep=None, args=()):
    """Run rule function `fn` of another property under this property's rule id.  `keep(finding)` restricts the findings to the
    part that is also a necessary condition of this property; an AnalysisError is deferred like for run_rule."""
    from sa.model import AnalysisError

    def wrapped(repo_):
        rr = fn(repo_, *args)
        rr.rule = new_rule
        if title:
            rr.title = title
        if keep is not None:
            rr.findings = [f for f in rr.findings if keep(f)]
        for f in rr.findings:
            f.rule = new_rule
        return rr
    wrapped.__name__ = getattr(fn, '__name__', 'shared') + '->' + new_rule
    check.run_rule(wrapped, repo)


def call_sites(repo, name):
    """[(FuncInfo of the caller, ast.Call)] for every call `name(...)` / `<anything>.name(...)` in the repository (by simple name:
    an over-approximation of the callers of a function or method called `name`)."""
    out = []
    for fi in repo.all_funcs():
        for call in effects(fi).calls:
            f = call.func
            if (isinstance(f, ast.Name) and f.id == name) or (isinstance(f, ast.Attribute) and f.attr == name):
                out.append((fi, call))
    return out


def mentions(repo, name):
    """Functions that mention `name` other than by calling it (a method value handed around: functools.partial(self.name), getattr)."""
    out = []
    for fi in repo.all_funcs():
        called = set(id(c.func) for c in effects(fi).calls)
        for n in ast.walk(fi.node):
            if id(n) in called:
                continue
            if (isinstance(n, ast.Attribute) and n.attr == name) or (isinstance(n, ast.Constant) and n.value == name):
                out.append(fi)
                break
    return out


def owner_closure(repo, cls_name, designated):
    """The designated methods of a class plus its private helpers (`_name`, defined in the same class) that are reachable only from
    that set: extracting part of a designated method into a private helper does not change who may do what."""
    if not repo.has_cls(cls_name):
        return set(designated)
    cls = repo.cls(cls_name)
    allowed = set(designated)
    changed = True
    while changed:
        changed = False
        for name, fi in cls.methods.items():
            if name in allowed or not name.startswith('_') or name.startswith('__'):
                continue
            sites = call_sites(repo, name)
            if not sites or mentions(repo, name):
                continue
            # (the caller may be a method the class inherits: a template method of a base class calling the subclass's hook)
            family = set(c2.name for c2 in repo.mro(cls_name))
            if all(c.cls is not None and c.cls.name in family and c.name in allowed for c, _ in sites):
                allowed.add(name)
                changed = True
    return allowed


def callee_qual(callee):
    """What a call resolves to, independent of the names of the variables it goes through: 'Class.method' / 'function' for repository
    functions, 'class:Name' for a constructor call, None otherwise."""
    from sa.patheval import FuncRef, ClassRef
    if isinstance(callee, FuncRef):
        return callee.fi.qualname
    if isinstance(callee, ClassRef):
        return 'class:' + callee.name
    return None
