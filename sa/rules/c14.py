"""
C14  Templates are built from descriptor lists exactly as FM-94 prescribes (structural part).

tables._descriptors_from_ids_iter is folded by PathEval over a family of descriptor lists (nested
fixed / delayed replication, sequences, operators, string ids, undefined descriptors, short lists)
against abstract tables; the resulting tree is compared with a reference builder, and flattening
it back (original_descriptor_ids / flat_member_ids) must return the original list.

R1 construction fold                      R2 flatten-back fold
R3 table thresholds agree (lookup dispatch)   R4 undefined placeholders / two-pass Table D loading
R5 table version selection and fall-back (normalize_tables_sn folded over directory layouts)
"""
from __future__ import print_function

import ast

from sa.model import AnalysisError, norm, effects
from sa.patheval import Interp, Native, Obj, Sym, Top, Raise, UnknownMethod, FuncRef
from sa.report import RuleResult


class IdSource(Native):
    """next_id: yields the ids of a concrete list, then StopIteration."""

    def __init__(self, ids):
        self.ids = list(ids)
        self.k = 0

    def __repr__(self):
        return 'IdSource'

    def call(self, args, kwargs, interp, frame, node):
        return self.next_value(interp, frame, node)

    def next_value(self, interp, frame, node):
        if self.k >= len(self.ids):
            raise Raise('StopIteration', node, interp.where(node, frame))
        v = self.ids[self.k]
        self.k += 1
        return v


class Bounded(Native):
    """generate_quiet(range(n), next_val): at most n values of next_val; StopIteration of the source ends it quietly."""

    def __init__(self, n, src):
        self.n, self.src, self.k = n, src, 0

    def __repr__(self):
        return 'Bounded(%r)' % self.n

    def next_value(self, interp, frame, node):
        if self.k >= self.n:
            raise Raise('StopIteration', node, interp.where(node, frame))
        self.k += 1
        if isinstance(self.src, Native) and hasattr(self.src, 'call'):
            return self.src.call([], {}, interp, frame, node)
        raise AnalysisError('generate_quiet source is %r' % (self.src,))

    def call(self, args, kwargs, interp, frame, node):
        return self.next_value(interp, frame, node)


class NextOf(Native):
    def __init__(self, it):
        self.it = IdSource(it) if isinstance(it, (list, tuple)) else it

    def __repr__(self):
        return 'NextOf'

    def call(self, args, kwargs, interp, frame, node):
        if isinstance(self.it, Native) and hasattr(self.it, 'next_value'):
            return self.it.next_value(interp, frame, node)
        # any other iterator the code made itself (iter(ids), a generator expression): the evaluator's own next()
        return interp.builtin('next', [self.it], {}, node, frame)


class Table(Native):
    def __init__(self, kind, defined):
        self.kind, self.defined = kind, defined

    def __repr__(self):
        return 'Table' + self.kind

    def call_method(self, name, args, kwargs, interp, frame, node):
        if name == 'lookup':
            i = args[0]
            if not isinstance(i, int):
                i = int(i)
            interp.event('lookup', self.kind, i)
            if self.kind == 'B':
                return Obj('ElementDescriptor', {'id': i}) if i in self.defined else Obj('UndefinedElementDescriptor', {'id': i})
            if self.kind == 'C':
                return Obj('OperatorDescriptor', {'id': i})
            if self.kind == 'D':
                return Obj('SequenceDescriptor', {'id': i, 'name': 'S', 'members': []}) if i in self.defined else Obj('UndefinedSequenceDescriptor', {'id': i})
            if self.kind == 'R':
                fi = interp.repo.method('TableR', 'lookup')
                return interp.call_function(fi, [Obj('TableR', {}), i], {}, node, frame)
        return Top('call:' + name)


class BuildInterp(Interp):
    LIST_CAP = 200
    MAX_DEPTH = 40

    def on_call(self, text, callee, args, kwargs, node, frame):
        if text == 'generate_quiet':
            rng, src = args
            n = len(rng) if isinstance(rng, list) else None
            if n is None:
                if isinstance(rng, Obj) and rng.cls == 'range' and len(rng.fields['args']) == 1 and isinstance(rng.fields['args'][0], int):
                    n = rng.fields['args'][0]
                else:
                    raise AnalysisError('generate_quiet is given %r as iterable' % (rng,))
            return Bounded(n, src)
        if text == 'functools.partial' and len(args) == 2 and args[0] == ('builtin', 'next'):
            return NextOf(args[1])
        if isinstance(callee, (IdSource, Bounded, NextOf)):
            return callee.call(args, kwargs, self, frame, node)
        return self.NOT_HANDLED

    def on_while(self, node, frame):
        return self.unroll_while(node, frame, 300)

    def isinstance_(self, v, t, node, frame):
        if isinstance(t, Top) and t.kind.startswith('import:numbers.Integral'):
            return isinstance(v, int) and not isinstance(v, bool)
        return Interp.isinstance_(self, v, t, node, frame)

    def ev_callee(self, f, frame):
        if isinstance(f, ast.Name) and f.id == 'next' and f.id not in frame.locals:
            return ('builtin', 'next')
        return Interp.ev_callee(self, f, frame)

    def ev_Name(self, e, frame):
        if e.id == 'next' and e.id not in frame.locals:
            return ('builtin', 'next')
        return Interp.ev_Name(self, e, frame)


B_DEFINED = set([1001, 1002, 12101, 31001, 31002, 10004, 20003, 7004])
D_DEFINED = set([301001, 301011, 340001])


def ref_build(ids):
    """Reference: FM-94 replication ownership. Returns (tree, consumed)."""
    ids = [int(i) for i in ids]
    pos = [0]

    def take(budget):
        out = []
        n = 0
        while pos[0] < len(ids) and (budget is None or n < budget[0]):
            i = ids[pos[0]]
            pos[0] += 1
            if budget is not None:
                budget[0] -= 0
            n += 1
            if i >= 300000:
                out.append(('SequenceDescriptor' if i in D_DEFINED else 'UndefinedSequenceDescriptor', i))
            elif i >= 200000:
                out.append(('OperatorDescriptor', i))
            elif i >= 100000:
                x = i // 1000 % 100
                delayed = i % 1000 == 0
                factor = None
                avail = None if budget is None else [budget[0] - n]
                if delayed:
                    if pos[0] < len(ids) and (avail is None or avail[0] > 0):
                        f = ids[pos[0]]
                        pos[0] += 1
                        n += 1
                        factor = ('ElementDescriptor' if f in B_DEFINED else 'UndefinedElementDescriptor', f)
                before = pos[0]
                # members: next X descriptors, but never beyond what the enclosing replication owns
                inner_budget = x if budget is None else min(x, budget[0] - n)
                members = take([inner_budget])
                n += pos[0] - before
                out.append(('DelayedReplicationDescriptor' if delayed else 'FixedReplicationDescriptor', i, factor, members))
            else:
                out.append(('ElementDescriptor' if i in B_DEFINED else 'UndefinedElementDescriptor', i))
        return out
    return take(None)


def tree_of(v):
    out = []
    for d in v:
        if not isinstance(d, Obj):
            out.append(repr(d))
            continue
        if d.cls in ('FixedReplicationDescriptor', 'DelayedReplicationDescriptor'):
            f = d.fields.get('factor')
            out.append((d.cls, d.fields.get('id'), (f.cls, f.fields.get('id')) if isinstance(f, Obj) else None,
                        tree_of(d.fields.get('members') or []) if isinstance(d.fields.get('members'), list) else repr(d.fields.get('members'))))
        else:
            out.append((d.cls, d.fields.get('id')))
    return out


FAMILY = [
    [1001], [1001, 12101, 301001], [201130, 12101, 201000],
    [101002, 12101], [102003, 1001, 12101, 10004], [101000, 31001, 12101], [102000, 31001, 1001, 1002, 12101],
    [103000, 31001, 1001, 101002, 12101, 10004], [104002, 1001, 102000, 31001, 12101, 10004, 7004],
    [103002, 1001, 102003, 12101, 10004, 7004], [102002, 101000, 31002, 12101, 1001],
    ['001001', '101002', '012101'], [63255], [363255], [101002, 63255], [101000, 63001, 12101],
    [102002, 12101], [101000, 31001], [301001, 101002, 301011, 12101], [222000, 236000, 101000, 31002, 31031, 1031, 33007],
    [105002, 1001, 201130, 12101, 201000, 301001, 10004], [101001, 101001, 101001, 12101, 1001],
    [100000, 31001, 12101], [100002, 12101], [103000, 31001, 101000, 31001, 12101, 1001],
    [112002] + [1001, 12101, 10004] * 4 + [7004], [163000, 31001] + [1001, 12101, 10004] * 21 + [7004, 20003],
    [120003] + [1001] * 9 + [101002, 12101] + [10004] * 9 + [7004],
]


def build(repo, ids):
    """Fold of the list builder on a concrete list, entered through tables._descriptors_from_ids(b, c, r, d, ids): how it walks the
    list underneath (a next-function, an iterator with islice, recursion over slices) is its own business."""
    fi = repo.func('tables', '_descriptors_from_ids')
    it = BuildInterp(repo, None)
    res = it.run_function(fi, lambda: {fi.params[0]: Table('B', B_DEFINED), fi.params[1]: Table('C', ()), fi.params[2]: Table('R', ()), fi.params[3]: Table('D', D_DEFINED),
                                       fi.params[4]: list(ids)})
    return fi, res


def rule_r1(repo):
    rr = RuleResult('C14.R1', 'replication ownership, sequence / operator / element classification: tree construction folded over descriptor lists')
    for ids in FAMILY:
        fi, res = build(repo, ids)
        want = ref_build(ids)
        rr.instance('%s' % (ids,))
        if len(res) != 1:
            raise AnalysisError('_descriptors_from_ids_iter forks into %d paths on the concrete list %s' % (len(res), ids))
        r = res[0]
        if not r.ok:
            rr.fail('_descriptors_from_ids_iter:raises', fi.where, 'list %s raises %s' % (ids, r.exc.cls), witness={'ids': ids})
            continue
        got = tree_of(r.value if isinstance(r.value, list) else [])
        if got != want:
            rr.fail('_descriptors_from_ids_iter:tree', fi.where, 'list %s builds %s; FM-94 ownership gives %s' % (ids, got, want), witness={'ids': ids})
    # the public wrapper converts string ids and feeds one shared iterator to the builder: folded
    w = repo.func('tables', '_descriptors_from_ids')
    for ids in ([102002, 1001, 12101, 10004], ['101000', '031001', '012101', '001001'], [301001, 101002, 12101]):
        it = BuildInterp(repo, None)
        res = it.run_function(w, lambda: {'b': Table('B', B_DEFINED), 'c': Table('C', ()), 'r': Table('R', ()), 'd': Table('D', D_DEFINED), 'ids': list(ids)})
        rr.instance('_descriptors_from_ids(%s)' % (ids,))
        want = ref_build(ids)
        for r in res:
            got = tree_of(r.value) if r.ok and isinstance(r.value, list) else r.describe()
            if got != want:
                rr.fail('_descriptors_from_ids:wrapper', w.where, 'the list %s builds %s through the public wrapper (expected %s)' % (ids, got, want))
    # generate_quiet: bounded by the iterable, StopIteration of the source ends it quietly
    gq = repo.func('utils', 'generate_quiet')
    body = gq.node.body
    stmts = [s for s in body if not (isinstance(s, ast.Expr) and isinstance(s.value, ast.Constant))]
    ok = len(stmts) == 1 and isinstance(stmts[0], ast.For) and norm(stmts[0].iter) == 'iterable'
    if ok:
        tr = [s for s in stmts[0].body if isinstance(s, ast.Try)]
        ok = len(tr) == 1 and any(isinstance(x, ast.Expr) and isinstance(x.value, ast.Yield) and norm(x.value.value) == 'next_val()' for x in tr[0].body) \
            and any(norm(h.type) == 'StopIteration' and any(isinstance(y, ast.Return) for y in h.body) for h in tr[0].handlers if h.type is not None)
    rr.instance('utils.generate_quiet: one value of next_val() per item of the iterable, quiet stop')
    if not ok:
        rr.fail('utils.generate_quiet', gq.where, 'generate_quiet is no longer `for _ in iterable: try: yield next_val() except StopIteration: return`')
    rr.require_floor(25)
    return rr


def rule_r2(repo):
    rr = RuleResult('C14.R2', 'flattening the tree returns the original descriptor list (original_descriptor_ids, flat_member_ids)')
    od = repo.own_method('BufrTemplate', 'original_descriptor_ids')
    fm = repo.func('descriptors', 'flat_member_ids')
    for ids in FAMILY:
        want_tree = ref_build(ids)
        fi, res = build(repo, ids)
        if len(res) != 1 or not res[0].ok:
            continue
        members = res[0].value
        # ids actually consumed into the tree (a short list leaves a replication under-filled)
        flat = []

        def walk(t):
            for d in t:
                flat.append(d[1])
                if len(d) == 4:
                    if d[2] is not None:
                        flat.append(d[2][1])
                    walk(d[3])
        walk(want_tree)
        it = BuildInterp(repo, 'BufrTemplate')
        r1 = it.run_function(od, lambda: {'self': Obj('BufrTemplate', {'id': 999999, 'members': list(members), 'name': ''})}, self_class='BufrTemplate')
        rr.instance('original_descriptor_ids of %s' % (ids,))
        for r in r1:
            if not r.ok or r.value != flat:
                rr.fail('BufrTemplate.original_descriptor_ids', od.where, 'the template built from %s flattens to %s (expected %s)' % (
                    ids, r.value if r.ok else r.describe(), flat), witness={'ids': ids})
        # flat_member_ids expands sequences; with member-less sequences it equals the list too
        it2 = BuildInterp(repo, None)
        r2 = it2.run_function(fm, lambda: {'descriptor': Obj('BufrTemplate', {'id': 999999, 'members': list(members), 'name': ''})})
        want2 = [i for i in flat if not (300000 <= i and ('SequenceDescriptor', i) in _all_nodes(want_tree))]
        for r in r2:
            if not r.ok or r.value != want2:
                rr.fail('descriptors.flat_member_ids', fm.where, 'flat_member_ids of the template built from %s gives %s (expected %s)' % (
                    ids, r.value if r.ok else r.describe(), want2), witness={'ids': ids})
    rr.require_floor(20)
    return rr


def _all_nodes(t):
    out = set()
    for d in t:
        out.add((d[0], d[1]))
        if len(d) == 4:
            out |= _all_nodes(d[3])
    return out


def rule_r3(repo):
    rr = RuleResult('C14.R3', 'BufrTableGroup.lookup and the list builder send an id to the same table')
    fi = repo.own_method('BufrTableGroup', 'lookup')
    probes = [1, 1001, 63255, 99999, 100000, 101000, 131255, 199999, 200000, 201130, 243000, 299999, 300000, 301001, 363255]
    for i in probes:
        it = BuildInterp(repo, 'BufrTableGroup')
        res = it.run_function(fi, lambda: {'self': Obj('BufrTableGroup', {'A': Table('A', ()), 'B': Table('B', B_DEFINED), 'C': Table('C', ()),
                                                                            'D': Table('D', D_DEFINED), 'R': Table('R', ())}), 'id_': i}, self_class='BufrTableGroup')
        want = 'D' if i >= 300000 else ('C' if i >= 200000 else ('R' if i >= 100000 else 'B'))
        rr.instance('lookup(%06d) -> Table %s' % (i, want))
        for r in res:
            lk = [e[1] for e in r.events if e[0] == 'lookup']
            if not r.ok or lk[:1] != [want]:
                rr.fail('BufrTableGroup.lookup:%s' % want, fi.where, 'descriptor %06d is looked up in table %s (F=%d belongs to Table %s)' % (i, lk or r.describe(), i // 100000, want),
                        witness={'id': i})
        fi2, res2 = build(repo, [i] if not (100000 <= i < 200000) else [i, 31001, 1001])
        for r in res2:
            lk = [e[1] for e in r.events if e[0] == 'lookup']
            if not r.ok or lk[:1] != [want]:
                rr.fail('_descriptors_from_ids_iter:table:%s' % want, fi2.where, 'descriptor %06d in a descriptor list is looked up in table %s (expected %s)' % (i, lk or r.describe(), want),
                        witness={'id': i})
    rr.require_floor(15)
    return rr


def rule_r4(repo):
    rr = RuleResult('C14.R4', 'unknown descriptors become Undefined* placeholders (refused by the walk); Table D is loaded in two passes')
    for cname, undefined in (('TableB', 'UndefinedElementDescriptor'), ('TableD', 'UndefinedSequenceDescriptor')):
        fi = repo.method(cname, 'lookup')
        it = BuildInterp(repo, cname)
        known = Obj('KnownDescriptor', {'id': 12101})
        for i, want in ((12101, 'KnownDescriptor'), ('012101', 'KnownDescriptor'), (63255, undefined)):
            res = it.run_function(fi, lambda: {'self': Obj(cname, {'descriptors': {12101: known}}), 'id_': i}, self_class=cname)
            rr.instance('%s.lookup(%r) -> %s' % (cname, i, want))
            for r in res:
                got = r.value.cls if r.ok and isinstance(r.value, Obj) else r.describe()
                if got != want:
                    rr.fail('%s.lookup' % cname, fi.where, '%s.lookup(%r) gives %s (expected %s)' % (cname, i, got, want))
    # Undefined* classes are not subclasses of any class the walk dispatches
    for u in ('UndefinedElementDescriptor', 'UndefinedSequenceDescriptor', 'UndefinedDescriptor'):
        for base in ('ElementDescriptor', 'SequenceDescriptor', 'OperatorDescriptor', 'FixedReplicationDescriptor', 'DelayedReplicationDescriptor'):
            if repo.is_subclass(u, base):
                rr.fail('descriptors.%s:subclass' % u, repo.cls(u).module.relpath, '%s is a subclass of %s: an undefined descriptor would be processed instead of refused' % (u, base))
        rr.instance('%s is outside the dispatched classes' % u)
    # Table D: sequences may reference sequences defined later in the file (two-pass loading), folded
    init = repo.own_method('TableD', '__init__')

    class TD(BuildInterp):
        def on_call(self2, text, callee, args, kwargs, node, frame):
            if text == 'self.load_json_files':
                return [{'300002': ['FIRST', ['300010', '001001']], '300010': ['SECOND', ['001002', '101002', '012101']]}]
            if isinstance(callee, UnknownMethod) and callee.name == '__init__':
                return None
            return BuildInterp.on_call(self2, text, callee, args, kwargs, node, frame)
    it = TD(repo, 'TableD')
    res = it.run_function(init, lambda: {'self': Obj('TableD', {}), 'b': Table('B', B_DEFINED), 'c': Table('C', ()), 'r': Table('R', ()), 'args': ('K',), 'kwargs': {}},
                          self_class='TableD')
    rr.instance('TableD.__init__: forward reference between sequences resolved')
    for r in res:
        d = r.locals['self'].fields.get('descriptors') if r.ok else None
        ok = isinstance(d, dict) and set(d) == {300002, 300010}
        if ok:
            first, second = d[300002], d[300010]
            fm = first.fields.get('members') or []
            ok = len(fm) == 2 and fm[0] is second and tree_of(second.fields.get('members') or []) == \
                [('ElementDescriptor', 1002), ('FixedReplicationDescriptor', 101002, None, [('ElementDescriptor', 12101)])]
        if not ok:
            rr.fail('TableD.__init__:forward-reference', init.where, 'a sequence referring to a sequence defined later in the table is not resolved to that very '
                    'sequence with its members (%s)' % (r.describe() if not r.ok else sorted(d) if isinstance(d, dict) else d))
    # forward references at every nesting position: directly, under one and under two replications, behind another forward reference
    table = {
        '300001': ['A', ['300009', '001001']],
        '300002': ['B', ['101002', '300009']],
        '300003': ['C', ['102000', '031001', '001001', '300009']],
        '300004': ['D', ['103002', '001001', '101000', '031001', '300009', '012101']],
        '300005': ['E', ['300001', '300004']],
        '300006': ['F', ['104002', '001001', '102003', '101002', '300008', '012101', '001002']],
        '300008': ['G', ['300009', '012101']],
        '300009': ['H', ['001002', '012101']],
    }

    class TD2(TD):
        def on_call(self2, text, callee, args, kwargs, node, frame):
            if text == 'self.load_json_files' or (isinstance(callee, FuncRef) and callee.fi.name == 'load_json_files'):
                return [dict(table)]
            return TD.on_call(self2, text, callee, args, kwargs, node, frame)
    it = TD2(repo, 'TableD')
    res = it.run_function(init, lambda: {'self': Obj('TableD', {}), 'b': Table('B', B_DEFINED), 'c': Table('C', ()), 'r': Table('R', ()), 'args': ('K',), 'kwargs': {}},
                          self_class='TableD')
    fm = repo.func('descriptors', 'flat_member_ids')
    for r in res:
        d = r.locals['self'].fields.get('descriptors') if r.ok else None
        if not isinstance(d, dict) or set(d) != set(int(k) for k in table):
            rr.fail('TableD.__init__:forward-reference', init.where, 'a table with forward references is loaded as %s' % (r.describe() if not r.ok else sorted(d) if isinstance(d, dict) else d))
            continue
        for key in sorted(table):
            want = _expand_reference(table, key)
            it2 = BuildInterp(repo, None)
            r2 = it2.run_function(fm, lambda: {'descriptor': d[int(key)]})
            got = r2[0].value if len(r2) == 1 and r2[0].ok else [x.describe() for x in r2]
            rr.instance('sequence %s with a forward reference %s' % (key, table[key][1]))
            if got != want:
                rr.fail('TableD.__init__:forward-reference', init.where, 'sequence %s = %s (a sequence defined later in the file is referenced at this nesting position) '
                        'flattens to %s; the table expands to %s' % (key, table[key][1], got, want), witness={'sequence': key})
    rr.require_floor(16)
    return rr


# ---------------------------------------------------------------------------
# thorough tier: every sequence of every bundled Table D
def _bundled_tables(root):
    import glob
    import os
    base = os.path.join(root, 'pybufrkit', 'tables')
    out = []
    for f in sorted(glob.glob(os.path.join(base, '*', '*', '*', 'TableD.json'))):
        parts = f.split(os.sep)
        master, centre, version = parts[-4], parts[-3], parts[-2]
        out.append((master, centre, version, os.path.dirname(f)))
    return out


def _expand_reference(data, sid, depth=0):
    """Direct expansion of a Table D entry from the table contents: sequences replaced by their members, recursively."""
    if depth > 30:
        raise AnalysisError('Table D entry %s nests deeper than 30 levels (cycle?)' % sid)
    out = []
    for m in data[sid][1]:
        i = int(m)
        key = '%06d' % i
        if i >= 300000 and key in data:
            out.extend(_expand_reference(data, key, depth + 1))
        else:
            out.append(i)
    return out


def _bundled_worker(job):
    import json
    import os
    root, wmo_dir, local_dir, label = job
    from sa.model import Repo
    repo = Repo(root)
    datas = []
    b_defined = set()
    for d in (wmo_dir, local_dir):
        if d is None:
            continue
        with open(os.path.join(d, 'TableD.json')) as f:
            datas.append(json.load(f))
        bf = os.path.join(d, 'TableB.json')
        if os.path.exists(bf):
            with open(bf) as f:
                b_defined |= set(int(k) for k in json.load(f))
    merged = {}
    for d in datas:
        merged.update(d)
    init = repo.own_method('TableD', '__init__')
    fm = repo.func('descriptors', 'flat_member_ids')

    class TD(BuildInterp):
        LIST_CAP = 5000
        MAX_STEPS = 50000000
        UNROLL_CAP = 5000

        def on_call(self2, text, callee, args, kwargs, node, frame):
            if text == 'self.load_json_files' or (isinstance(callee, FuncRef) and callee.fi.name == 'load_json_files'):
                return [dict(d) for d in datas]
            if isinstance(callee, UnknownMethod) and callee.name == '__init__':
                return None
            return BuildInterp.on_call(self2, text, callee, args, kwargs, node, frame)
    it = TD(repo, 'TableD')
    res = it.run_function(init, lambda: {'self': Obj('TableD', {}), 'b': Table('B', b_defined), 'c': Table('C', ()), 'r': Table('R', ()), 'args': ('K',), 'kwargs': {}},
                          self_class='TableD')
    oks = [r for r in res if r.ok]
    if len(oks) != 1:
        return label, 0, [('load', '', 'TableD.__init__ on the bundled table %s: %s' % (label, [r.describe() for r in res][:3]))]
    descs = oks[0].locals['self'].fields.get('descriptors')
    bad = []
    n = 0
    if not isinstance(descs, dict) or set(descs) != set(int(k) for k in merged):
        return label, 0, [('load', '', 'TableD.__init__ on %s registers %d sequences, the table files define %d' % (label, len(descs) if isinstance(descs, dict) else -1, len(merged)))]
    it2 = TD(repo, None)
    for key in sorted(merged):
        n += 1
        want = _expand_reference(merged, key)
        r2 = it2.run_function(fm, lambda: {'descriptor': descs[int(key)]})
        got = r2[0].value if len(r2) == 1 and r2[0].ok else [x.describe() for x in r2]
        if got != want:
            bad.append(('expansion', key, 'sequence %s of %s flattens to %s...; the table file expands to %s...' % (key, label, str(got)[:160], str(want)[:160])))
            if len(bad) > 5:
                break
    return label, n, bad


def rule_bundled(repo):
    """Thorough tier.  TableD.__init__ is folded on the contents of every bundled Table D (the table files are read by the analyser as
    data, like the section layouts), then descriptors.flat_member_ids on every sequence it built, against a direct recursive expansion
    of the file."""
    import multiprocessing
    import os
    rr = RuleResult('C14.R9', 'every sequence of every bundled Table D: built tree flattens to the direct expansion of the table file')
    if not os.path.isdir(os.path.join(repo.root, 'pybufrkit', 'tables')):
        # a scratch copy made without the data tables (self-validation): nothing to fold
        rr.note('no tables directory under %s: rule not applicable to this copy' % repo.root)
        return rr
    tabs = _bundled_tables(repo.root)
    if len(tabs) < 10:
        raise AnalysisError('only %d bundled Table D files found under %s' % (len(tabs), repo.root))
    wmo = dict((v, d) for m, c, v, d in tabs if c == '0_0')
    jobs = []
    for m, c, v, d in tabs:
        if c == '0_0':
            jobs.append((repo.root, d, None, 'master %s version %s' % (m, v)))
        else:
            # local tables are loaded on top of a master version: folded with the oldest and the newest bundled one
            for mv in sorted(wmo, key=int)[:1] + sorted(wmo, key=int)[-1:]:
                jobs.append((repo.root, wmo[mv], d, 'centre %s local version %s on master version %s' % (c, v, mv)))
    with multiprocessing.Pool(min(16, len(jobs))) as pool:
        results = pool.map(_bundled_worker, jobs)
    total = 0
    for label, n, bad in results:
        total += n
        rr.instance('%s: %d sequences' % (label, n))
        for kind, key, msg in bad[:3]:
            rr.fail('bundled-table-d:%s' % kind, 'pybufrkit/tables.py', msg, witness={'table': label, 'sequence': key})
    rr.extra = {'sequences_folded': total, 'tables': len(jobs)}
    rr.require_floor(10)
    return rr


class FsInterp(Interp):
    def __init__(self, repo, dirs):
        Interp.__init__(self, repo, None)
        self.dirs = set(dirs)

    def on_call(self, text, callee, args, kwargs, node, frame):
        if text == 'os.path.join':
            if all(isinstance(a, str) for a in args):
                return '/'.join(args)
            return Top('path')
        if text == 'os.path.isdir':
            self.event('isdir', args[0])
            return args[0] in self.dirs
        if text.startswith('log.'):
            return None
        return self.NOT_HANDLED


def rule_r5(repo):
    rr = RuleResult('C14.R5', 'table version selection and fall-back (normalize_tables_sn folded over directory layouts)')
    fi = repo.func('tables', 'normalize_tables_sn')
    dv = repo.const('tables', 'DEFAULT_MASTER_TABLE_VERSION')
    dm = repo.const('tables', 'DEFAULT_MASTER_TABLE_NUMBER')
    root = '/T'
    base = {root + '/0', root + '/0/0_0/33', root + '/0/0_0/25', root + '/0/98_0/1', root + '/0/7_3/2', root + '/0/7_0/2', root + '/10', root + '/10/0_0/25'}
    cases = [
        # (mtn, centre, subcentre, mtv, ltv) -> (wmo, local)
        ((0, 98, 0, 25, 0), (('0', '0_0', '25'), None)),
        ((0, 98, 0, 25, 1), (('0', '0_0', '25'), ('0', '98_0', '1'))),
        ((0, 98, 5, 25, 1), (('0', '0_0', '25'), ('0', '98_0', '1'))),       # sub-centre falls back to 0
        ((0, 7, 3, 33, 2), (('0', '0_0', '33'), ('0', '7_3', '2'))),
        ((0, 7, 9, 33, 2), (('0', '0_0', '33'), ('0', '7_0', '2'))),
        ((0, 55, 0, 33, 4), (('0', '0_0', '33'), None)),                     # no local table anywhere
        ((0, 98, 0, 99, 0), (('0', '0_0', str(dv)), None)),                  # unknown master version -> default
        ((10, 98, 0, 25, 0), (('10', '0_0', '25'), None)),
        ((6, 98, 0, 25, 0), ((str(dm), '0_0', '25'), None)),                 # unknown master table number -> default
        ((6, 98, 0, 77, 1), ((str(dm), '0_0', str(dv)), (str(dm), '98_0', '1'))),
    ]
    for args, want in cases:
        it = FsInterp(repo, base)
        names = ['master_table_number', 'originating_centre', 'originating_subcentre', 'master_table_version', 'local_table_version']
        loc = dict(zip(names, args))
        loc['tables_root_dir'] = root
        res = it.run_function(fi, lambda: dict(loc))
        rr.instance('normalize_tables_sn%r -> %r' % (args, want))
        if len(res) != 1:
            raise AnalysisError('normalize_tables_sn forks on concrete arguments %r' % (args,))
        r = res[0]
        got = tuple(r.value) if r.ok and isinstance(r.value, tuple) else r.describe()
        if got != want:
            rr.fail('tables.normalize_tables_sn', fi.where, 'for master table %d, centre %d/%d, versions %d/%d the tables selected are %r (expected %r)' % (args + (got, want)),
                    witness={'args': list(args)})
    g = repo.func('tables', 'get_tables_sn')
    it = FsInterp(repo, ())
    for args, want in (((0, 98, 0, 25, 0), (('0', '0_0', '25'), None)), ((0, 98, 2, 25, 3), (('0', '0_0', '25'), ('0', '98_2', '3')))):
        res = it.run_function(g, lambda: dict(zip(['master_table_number', 'originating_centre', 'originating_subcentre', 'master_table_version', 'local_table_version'], args)))
        rr.instance('get_tables_sn%r' % (args,))
        for r in res:
            if not r.ok or tuple(r.value) != want:
                rr.fail('tables.get_tables_sn', g.where, 'get_tables_sn%r gives %r (expected %r)' % (args, r.value if r.ok else r.describe(), want))
    rr.require_floor(10)
    return rr


def run(repo, check):
    check.run_rule(rule_r1, repo)
    check.run_rule(rule_r2, repo)
    check.run_rule(rule_r3, repo)
    check.run_rule(rule_r4, repo)
    check.run_rule(rule_r5, repo)
    from sa.rules import c01
    r6 = check.call(c01.rule_r1, repo)
    r6.rule = 'C14.R6'
    r6.title = 'a descriptor that is in no table makes the walk fail with UnknownDescriptor (shared with C01.R1)'
    r6.findings = [f for f in r6.findings if 'Undefined' in f.key]
    for f in r6.findings:
        f.rule = 'C14.R6'
    check.add(r6)
    from sa.rules import c13
    r7 = check.call(c13.rule_r5, repo)
    r7.rule = 'C14.R7'
    r7.title = 'every table-version selection gets its table group, also beyond the cache limit (shared with C13.R5)'
    for f in r7.findings:
        f.rule = 'C14.R7'
    check.add(r7)
    if check.tier == 'thorough':
        check.run_rule(rule_bundled, repo)
    from sa.rules import c13 as _c13
    from sa.rules.common import share as _sh
    _sh(check, repo, _c13.rule_r7, 'C14.R8', 'table entries are not pooled across table versions: no module-level state (shared with C13.R7)')
    from sa.rules import c12 as _c12, c20 as _c20
    _sh(check, repo, _c12.rule_descriptor_list, 'C14.R10', 'the descriptor list of section 3 reaches the template entry by entry: an entry that is in no table is not dropped '
        '(shared with C12.R12)', args=('C14.R10',))
    _sh(check, repo, _c20.rule_r3, 'C14.R11', 'the repair of NCEP replication-only sequences leaves every well-formed sequence and replication as FM-94 reads it '
        '(shared with C20.R3)')
    _sh(check, repo, _c12.rule_r7, 'C14.R12', 'a descriptor that is in no table is refused with UnknownDescriptor at every position of the template, the factor position '
        'of a delayed replication included (shared with C12.R7)')
    check.assumptions = ['the contents of the bundled Table B / D files are data and are not decided (a lint of the 40 table directories found replication '
                         'over-runs in 3 sequences; not claimed)',
                         'the tables are abstracted as lookup oracles; TableR.lookup is the repository\'s own code']
