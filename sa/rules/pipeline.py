"""
End-to-end fold of the decode -> wire -> render -> read-back pipeline on a finite family of concrete templates
(shared by C07, C09 and C16).

Nothing is executed: PathEval folds the repository's own functions on concrete descriptor objects and a scripted bit reader
(every read hands out the next scripted raw value; widths are recorded, not interpreted).  For each template of the family

  1. Decoder.process_members runs with the real CoderState (its __init__ folded): flat descriptors, values and bitmap links;
  2. TemplateData.__init__ and wire() run on those lists: the node tree;
  3. the nested text, nested JSON and flat text renderers run on the tree, and the utils readers on their output.

What is compared is stated by the rules that use it (c09.rule_pipeline, c07.rule_pipeline_links).
"""
from __future__ import print_function

from sa.model import AnalysisError
from sa.patheval import Interp, Native, Obj, Raise, Sym, Top


class ScriptReader(Native):
    """Bit reader whose reads return the next scripted value."""

    def __init__(self, values, data_end_is_error=False):
        self.values, self.k, self.log = list(values), 0, []
        # (for re-runs of a walk that got through with the same script before: asking for more is reading past the end of the data)
        self.data_end_is_error = data_end_is_error

    def __repr__(self):
        return 'ScriptReader@%d' % self.k

    def call_method(self, name, args, kwargs, interp, frame, node):
        if name == 'get_pos':
            return 0
        if name.startswith('read') or name == 'skip':
            if self.k >= len(self.values):
                if self.data_end_is_error:
                    self.log.append((name, tuple(args)))
                    raise Raise('BitReadError', node, interp.where(node, frame))
                raise AnalysisError('pipeline fold: the template reads more values than the script provides (%s%r after %d reads)' % (name, tuple(args), self.k))
            v = self.values[self.k]
            self.k += 1
            self.log.append((name, tuple(args)))
            if name == 'read_uint_or_none' and args and isinstance(args[0], int) and args[0] > 1 and v == 2 ** args[0] - 1:
                raise AnalysisError('pipeline fold: the script gives %r for a %d-bit field, which is its all-ones pattern: write None for a missing value' % (v, args[0]))
            return v
        raise AnalysisError('pipeline fold: bit_reader.%s is not modelled' % name)


class PipeInterp(Interp):
    MAX_DEPTH = 60
    LIST_CAP = 600
    MAX_STEPS = 2000000

    def on_call(self, text, callee, args, kwargs, node, frame):
        if text.startswith('log.'):
            return None
        return self.NOT_HANDLED

    def on_load_attr(self, base, attr, node, frame):
        from sa.patheval import ModRef
        if isinstance(base, ModRef) and base.name == 'six':
            if attr == 'PY2':
                return False
            if attr == 'PY3':
                return True
        return self.NOT_HANDLED

    def on_while(self, node, frame):
        return self.unroll_while(node, frame, 400)


def E(i, name=None, unit='NUMERIC', nbits=8, scale=0, refval=0):
    return Obj('ElementDescriptor', {'id': i, 'name': name or 'ELEMENT %06d' % i, 'unit': unit, 'scale': scale, 'refval': refval, 'nbits': nbits,
                                     'crex_unit': unit, 'crex_scale': 0, 'crex_nchars': 0})


def OP(i):
    return Obj('OperatorDescriptor', {'id': i})


def FIX(n, *members):
    return Obj('FixedReplicationDescriptor', {'id': 100000 + len(members) * 1000 + n, 'members': list(members)})


def DEL(factor, *members):
    return Obj('DelayedReplicationDescriptor', {'id': 100000 + len(members) * 1000, 'members': list(members), 'factor': factor})


def SEQ(i, *members):
    return Obj('SequenceDescriptor', {'id': i, 'name': 'SEQUENCE %06d' % i, 'members': list(members)})


def F31001():
    return E(31001, 'DELAYED DESCRIPTOR REPLICATION FACTOR', 'NUMERIC', 8)


def B():
    return E(31031, 'DATA PRESENT INDICATOR', 'FLAG TABLE', 1)


def T(i=12101):
    return E(i, {12101: 'TEMPERATURE', 12103: 'DEW POINT', 10004: 'PRESSURE', 11002: 'WIND SPEED'}.get(i, 'ELEMENT %06d' % i), 'K', 12, 1, 0)


def Q():
    return E(33007, 'PER CENT CONFIDENCE', 'CODE TABLE', 7)


def templates():
    """name -> (members, scripted raw values in the order the decoder reads them)"""
    t = {}
    t['elements, sequence, replications'] = (
        [E(1001, 'WMO BLOCK NUMBER', nbits=7), SEQ(301011, E(4001, 'YEAR', nbits=12), E(4002, 'MONTH', nbits=4)), FIX(2, T(), E(20003, 'PRESENT WEATHER', 'CODE TABLE', 9)),
         DEL(F31001(), E(7004, 'PRESSURE', nbits=14), T()), E(1015, 'STATION OR SITE NAME', 'CCITT IA5', 32), E(20004, 'PAST WEATHER', 'FLAG TABLE', 4)],
        [11, 2020, 2, 2801, 5, 2755, None, 2, 850, 2700, 500, 2500, b'ABCD', 5])
    t['delayed replication repeated zero times'] = ([E(1001, nbits=7), DEL(F31001(), T(), T(12103)), E(1002, nbits=10)], [11, 0, 22])
    t['nested replications'] = ([DEL(F31001(), E(7004, nbits=14), FIX(2, T())), E(1002, nbits=10)], [2, 850, 2700, 2710, 500, 2500, 2510, 7])
    t['associated fields (204)'] = (
        [OP(204004), E(31021, 'ASSOCIATED FIELD SIGNIFICANCE', 'CODE TABLE', 6), T(), E(10004, 'PRESSURE', 'PA', 14, -1, 0), OP(204000), T(12103)],
        [1, 3, 2801, 5, 10130, 2750])
    t['quality information (222000) with a replicated bitmap'] = (
        [T(), T(12103), E(10004, 'PRESSURE', 'PA', 14, -1, 0), OP(222000), OP(236000), FIX(3, B()), E(1031, 'CENTRE', 'CODE TABLE', 16), Q(), Q()],
        [2801, 2750, 10130, 0, 1, 0, 98, 70, 80])
    t['quality information with a delayed bitmap'] = (
        [T(), T(12103), OP(222000), OP(236000), DEL(F31001(), B()), E(1031, 'CENTRE', 'CODE TABLE', 16), Q()],
        [2801, 2750, 2, 1, 0, 98, 80])
    t['first-order statistics (224255)'] = (
        [T(), T(12103), OP(224000), OP(236000), FIX(2, B()), E(8023, 'FIRST ORDER STATISTICS', 'CODE TABLE', 6), OP(224255), OP(224255)],
        [2801, 2750, 0, 0, 4, 2811, 2760])
    t['difference statistics (225255)'] = (
        [T(), OP(225000), OP(236000), FIX(1, B()), E(8024, 'DIFFERENCE STATISTICS', 'CODE TABLE', 6), OP(225255)],
        [2801, 0, 2, 4096 + 15])
    t['substituted values (223255)'] = ([T(), T(12103), OP(223000), OP(236000), FIX(2, B()), OP(223255)], [2801, 2750, 1, 0, 2760])
    t['replaced / retained values (232255)'] = ([T(), OP(232000), FIX(1, B()), OP(232255)], [2801, 0, 2790])
    t['bitmap reuse (237000)'] = (
        [T(), T(12103), OP(222000), OP(236000), FIX(2, B()), Q(), OP(224000), OP(237000), E(8023, 'FIRST ORDER STATISTICS', 'CODE TABLE', 6), OP(224255)],
        [2801, 2750, 1, 0, 70, 4, 2760])
    t['second bitmap after 235000'] = (
        [T(), T(12103), OP(222000), OP(236000), FIX(2, B()), Q(), Q(), OP(235000), E(10004, 'PRESSURE', 'PA', 14, -1, 0), OP(224000), FIX(1, B()),
         E(8023, 'FIRST ORDER STATISTICS', 'CODE TABLE', 6), OP(224255)],
        [2801, 2750, 0, 0, 70, 80, 10130, 0, 4, 10140])
    t['quality information on a replication factor'] = (
        [DEL(F31001(), T()), OP(222000), OP(236000), FIX(2, B()), Q(), Q()], [1, 2801, 0, 0, 60, 70])
    t['bitmap inside a replication, cancelled at its end'] = (
        [FIX(2, T(), OP(222000), FIX(1, B()), Q(), OP(235000)), E(1002, nbits=10)], [2801, 0, 70, 2750, 0, 80, 7])
    t['quality information while 204 is in force'] = (
        [OP(204004), E(31021, 'ASSOCIATED FIELD SIGNIFICANCE', 'CODE TABLE', 6), T(), OP(222000), OP(236000), FIX(1, B()), Q(), OP(204000), E(1002, nbits=10)],
        [1, 3, 2801, 0, 5, 70, 7])
    t['data not present (221)'] = ([E(1001, nbits=7), OP(221002), T(), E(1002, nbits=10), T(12103)], [11, 7, 2750])
    t['width / scale / reference changes (201, 202, 207, 203)'] = (
        [OP(201130), T(), OP(201000), OP(202129), T(), OP(202000), OP(207001), T(), OP(207000), OP(203012), T(), OP(203255), T(), OP(203000), T()],
        [2801, 2801, 2801, -100, 2801, 2801])
    t['strings (205, 208) and a skipped local descriptor (206)'] = (
        [OP(205004), OP(208002), E(1015, 'STATION OR SITE NAME', 'CCITT IA5', 32), OP(208000), OP(206009), E(12192, 'LOCAL', 'K', 9), T()],
        [b'TEXT', b'AB', 300, 2801])
    t['203 new reference values with 207 in force'] = (
        [OP(203012), T(), OP(203255), OP(207001), T(), OP(207000), T(), OP(203000), T()], [-100, 2801, 2801, 2801])
    t['203 new reference value of zero'] = (
        [OP(203010), E(12104, 'DRY BULB', 'K', 12, 1, -50), OP(203255), E(12104, 'DRY BULB', 'K', 12, 1, -50), OP(203000), E(12104, 'DRY BULB', 'K', 12, 1, -50)],
        [0, 2801, 2801])
    t['operators do not touch code tables and strings'] = (
        [OP(201130), OP(202129), OP(207001), E(20003, 'PRESENT WEATHER', 'CODE TABLE', 9), E(1015, 'STATION OR SITE NAME', 'CCITT IA5', 32), T(), OP(207000), OP(202000),
         OP(201000), T()], [5, b'ABCD', 2801, 2801])
    t['nested associated fields (204 twice)'] = (
        [OP(204002), E(31021, 'ASSOCIATED FIELD SIGNIFICANCE', 'CODE TABLE', 6), OP(204003), E(31021, 'ASSOCIATED FIELD SIGNIFICANCE', 'CODE TABLE', 6), T(), OP(204000),
         T(12103), OP(204000), T()], [1, 2, 9, 2801, 2, 2750, 2801])
    t['width / scale / reference changes on classes above 31 (33, 40)'] = (
        [OP(201130), E(33007, 'PER CENT CONFIDENCE', '%', 7), E(40001, 'SURFACE SOIL MOISTURE', '%', 10, 1, -3), OP(201000), OP(202129),
         E(40001, 'SURFACE SOIL MOISTURE', '%', 10, 1, -3), OP(202000), OP(207001), E(40001, 'SURFACE SOIL MOISTURE', '%', 10, 1, -3), E(33007, 'PER CENT CONFIDENCE', '%', 7),
         OP(207000), E(40001, 'SURFACE SOIL MOISTURE', '%', 10, 1, -3)], [300, 2555, 556, 9557, 1500, 558])
    # marker operators while 201 / 202 / 207 / 208 are in force, and after they have been cancelled (a substituted value takes the
    # width, scale and reference its element would have at that point of the template)
    t['substituted values inside and after 201'] = (
        [T(), T(12103), OP(223000), OP(236000), FIX(2, B()), OP(201130), OP(223255), OP(201000), OP(223255)], [2801, 2750, 0, 0, 11204, 2760])
    t['substituted values inside and after 202'] = (
        [T(), T(12103), OP(223000), OP(236000), FIX(2, B()), OP(202129), OP(223255), OP(202000), OP(223255)], [2801, 2750, 0, 0, 28015, 2760])
    t['substituted values inside and after 207'] = (
        [T(), T(12103), OP(223000), OP(236000), FIX(2, B()), OP(207001), OP(223255), OP(207000), OP(223255)], [2801, 2750, 0, 0, 28015, 2760])
    t['substituted values before, inside and after 201 and 202'] = (
        [T(), T(12103), T(12104), OP(223000), OP(236000), FIX(3, B()), OP(223255), OP(201129), OP(202129), OP(223255), OP(202000), OP(201000), OP(223255)],
        [2801, 2750, 2700, 0, 0, 0, 2802, 7000, 2701])
    t['substituted string inside and after 208'] = (
        [E(1015, 'STATION OR SITE NAME', 'CCITT IA5', 32), E(1019, 'LONG STATION OR SITE NAME', 'CCITT IA5', 32), OP(223000), FIX(2, B()), OP(208002), OP(223255), OP(208000),
         OP(223255)], [b'ABCD', b'EFGH', 0, 0, b'XY', b'WXYZ'])
    t['first-order statistics in a delayed replication, more data behind it'] = (
        [T(), T(12103), OP(224000), OP(236000), FIX(2, B()), E(8023, 'FIRST ORDER STATISTICS', 'CODE TABLE', 6), DEL(F31001(), OP(224255)), T(), E(1002, nbits=10)],
        [2801, 2750, 0, 0, 4, 2, 2811, 2760, 2802, 7])
    t['missing values'] = ([T(), E(20003, 'PRESENT WEATHER', 'CODE TABLE', 9), E(20004, 'PAST WEATHER', 'FLAG TABLE', 1), T(12103)], [None, None, 1, 2750])
    return t


class Result(object):
    pass


def plain_state(repo, compressed=False, n=1):
    from sa.rules.walk import fold_init
    sts = fold_init(repo, compressed, n)
    plain = [x for x in sts if isinstance(x.fields.get('decoded_values_all_subsets'), list) and all(type(v) is list for v in x.fields['decoded_values_all_subsets'])]
    return (plain or sts)[0]


def decode(repo, members, script, coder='Decoder'):
    """Fold of Decoder.process_members on a fresh state.  Returns (ok, state, reader, exc)."""
    fi = repo.method(coder, 'process_members')
    it = PipeInterp(repo, coder)
    box = {}

    def mk():
        st = plain_state(repo)
        rd = ScriptReader(script)
        box['st'], box['rd'] = st, rd
        return {'self': Obj(coder, {}), 'state': st, 'bit_operator': rd, 'members': list(members)}
    res = it.run_function(fi, mk, self_class=coder)
    if len(res) != 1:
        raise AnalysisError('pipeline fold: Decoder.process_members forks into %d paths on a concrete template and script' % len(res))
    return res[0], box['st'], box['rd']


def wire(repo, members, descs, vals, links):
    """Fold of TemplateData(...) and wire().  Returns (result of wire(), the TemplateData object)."""
    it = PipeInterp(repo, 'TemplateData')
    init = repo.own_method('TemplateData', '__init__')
    td = Obj('TemplateData', {})
    res = it.run_function(init, lambda: {'self': td, init.params[1]: Obj('BufrTemplate', {'members': list(members), 'id': 999999}), init.params[2]: False,
                                         init.params[3]: [descs], init.params[4]: [vals], init.params[5]: [links]}, self_class='TemplateData')
    if len(res) != 1 or not res[0].ok:
        raise AnalysisError('pipeline fold: TemplateData.__init__ could not be folded: %s' % [r.describe() for r in res])
    td = res[0].locals['self']
    w = repo.own_method('TemplateData', 'wire')
    res = PipeInterp(repo, 'TemplateData').run_function(w, lambda: {'self': td}, self_class='TemplateData')
    if len(res) != 1:
        raise AnalysisError('pipeline fold: TemplateData.wire forks into %d paths on concrete lists' % len(res))
    return res[0], td


def run_template(repo, name):
    members, script = templates()[name]
    out = Result()
    out.name, out.members = name, members
    r, st, rd = decode(repo, members, script)
    out.decode = r
    if not r.ok:
        return out
    out.descs = st.fields['decoded_descriptors_all_subsets'][0]
    out.vals = st.fields['decoded_values_all_subsets'][0]
    out.links = st.fields['bitmap_links_all_subsets'][0]
    out.reads = rd.log
    out.unread = len(rd.values) - rd.k
    w, td = wire(repo, members, out.descs, out.vals, out.links)
    out.wire = w
    if w.ok:
        out.nodes = td.fields['decoded_nodes_all_subsets'][0]
    return out


def node_indices(nodes, acc=None, role='member'):
    """[(flat index, role, owner index or None)] of every value node of a tree, attributes included."""
    acc = [] if acc is None else acc
    for n in nodes:
        f = n.fields
        if 'index' in f:
            acc.append((f['index'], role, None))
            for a in f.get('attributes') or []:
                acc.append((a.fields.get('index'), 'attribute', f['index']))
                # (attributes of attributes: the associated field of a quality value etc.)
                for a2 in a.fields.get('attributes') or []:
                    acc.append((a2.fields.get('index'), 'attribute', a.fields.get('index')))
        if isinstance(f.get('factor'), Obj):
            node_indices([f['factor']], acc, 'factor')
        if isinstance(f.get('members'), list):
            node_indices(f['members'], acc, 'member')
    return acc


class ScriptWriter(Native):
    """Bit writer that records what it is asked to write."""

    def __init__(self):
        self.log = []

    def __repr__(self):
        return 'ScriptWriter(%d)' % len(self.log)

    def call_method(self, name, args, kwargs, interp, frame, node):
        if name == 'get_pos':
            return 0
        if name.startswith('write') or name == 'skip':
            self.log.append((name, tuple(args)))
            return None
        raise AnalysisError('pipeline fold: bit_writer.%s is not modelled' % name)


def encode(repo, members, vals):
    """Fold of Encoder.process_members on a state that holds the given flat values.  Returns (result, writer)."""
    from sa.rules.walk import fold_init
    fi = repo.method('Encoder', 'process_members')
    it = PipeInterp(repo, 'Encoder')
    box = {}

    def mk():
        sts = fold_init(repo, False, 1, values=[list(vals)])
        plain = [x for x in sts if isinstance(x.fields.get('decoded_values_all_subsets'), list) and all(type(v) is list for v in x.fields['decoded_values_all_subsets'])]
        st = (plain or sts)[0]
        wr = ScriptWriter()
        box['st'], box['wr'] = st, wr
        return {'self': Obj('Encoder', {}), 'state': st, 'bit_operator': wr, 'members': list(members)}
    res = it.run_function(fi, mk, self_class='Encoder')
    if len(res) != 1:
        raise AnalysisError('pipeline fold: Encoder.process_members forks into %d paths on a concrete template and value list' % len(res))
    return res[0], box['st'], box['wr']


# ---------------------------------------------------------------------------
# Independent reading of a template by the FM-94 rules (regulation 94.5, Table C), written from the specification and the label
# scheme of the documentation - not from the repository's code.  Uncompressed data, one subset, well-formed templates of the family.
MARKER_PREFIX = {223: 'T', 224: 'F', 225: 'D', 232: 'R'}
NON_NUMERIC = ('CCITT IA5', 'CODE TABLE', 'FLAG TABLE')


def reference_walk(members, script):
    """Returns (entries, links): entries = [(label, kind, width, value)] in flat order (kind: uint / int / bytes / const),
    links = {flat index of an attribute value: flat index of its owner}."""
    from fractions import Fraction
    S = {'off201': 0, 'off202': 0, 'bits203': 0, 'refvals': {}, 'assoc': [], 'skip206': 0, 'inc207': (0, 0, 1), 'nbytes208': 0, 'dnp': 0, 'qa': None,
         'bm': 'NA', 'nbits_bm': 0, 'reuse_next': False, 'reuse_bitmap': None, 'back': None, 'boundary': 0, 'selected': None, 'pos': 0}
    out, links, kinds = [], {}, []      # kinds[i]: 'element' for a plain element entry (candidate for back reference)
    k = [0]

    def take():
        v = script[k[0]]
        k[0] += 1
        return v

    def label(i):
        return '%06d' % i

    def emit(lab, kind, width, value, plain=None):
        out.append((lab, kind, width, value))
        kinds.append(plain)

    def next_selected():
        sel = S['selected']
        e = sel[S['pos']]
        S['pos'] += 1
        return e

    def define_bitmap():
        n = S['nbits_bm']
        bits = [e[3] for e in out[-n:]] if False else None
        # the bits are the values of the last n 031031 entries
        vals = [e[3] for e in out if e[0] == '031031'][-n:]
        if S['back'] is None:
            cands = [i for i in range(S['boundary']) if kinds[i] is not None]
            S['back'] = cands[-n:]
        S['selected'] = [(i, kinds[i]) for bit, i in zip(vals, S['back']) if bit == 0]
        S['pos'] = 0
        if S['reuse_next']:
            S['reuse_bitmap'] = list(vals)
        S['bm'] = 'NA'

    def value_of(raw, scale, ref):
        if raw is None:
            return None
        v = Fraction(raw + ref)
        if scale:
            v = v / (Fraction(10) ** scale)
            return float(v)
        return int(v)

    def element(d, marker=None, as_factor=False):
        f = d.fields
        X = f['id'] // 1000 % 100
        lab = label(f['id'])
        nbits, scale, ref, unit = f['nbits'], f['scale'], f['refval'], f['unit']
        if marker is not None:
            lab = MARKER_PREFIX[marker] + lab[1:]
            if marker == 225:
                ref, nbits = -(2 ** nbits), nbits + 1
        if marker is None:
            if S['dnp'] > 0:
                S['dnp'] -= 1
                if not (1 <= X <= 9 or X == 31):
                    return
            if S['skip206']:
                w, S['skip206'] = S['skip206'], 0
                emit('S' + lab[1:], 'uint', w, take())
                return
            if S['bits203'] and X != 31:
                raw = take()
                S['refvals'][f['id']] = raw
                emit(lab, 'int', S['bits203'], raw, plain=d)
                return
        if S['assoc'] and X != 31:
            emit('A' + lab[1:], 'uint', sum(S['assoc']), take())
        idx = len(out)
        if marker is None and X == 33 and S['qa'] in ('waiting', 'processing'):
            owner, _ = next_selected()
            links[idx] = owner
            S['qa'] = 'processing'
        elif marker is None and S['qa'] == 'processing':
            S['qa'] = None
        if unit == 'CCITT IA5':
            n = S['nbytes208'] or nbits // 8
            emit(lab, 'bytes', n, take(), plain=d if marker is None else None)
        elif unit in ('CODE TABLE', 'FLAG TABLE'):
            emit(lab, 'uint', nbits, take(), plain=d if marker is None else None)
        else:
            w = nbits + S['off201'] + S['inc207'][0]
            sc = scale + S['off202'] + S['inc207'][1]
            if f['id'] in S['refvals'] and marker is None:
                rf = S['refvals'][f['id']] * S['inc207'][2]
            else:
                rf = ref * S['inc207'][2]
            emit(lab, 'uint', w, value_of(take(), sc, rf), plain=d if marker is None else None)

    def operator(d):
        code, y = d.fields['id'] // 1000, d.fields['id'] % 1000
        lab = label(d.fields['id'])
        if code == 201:
            S['off201'] = y - 128 if y else 0
        elif code == 202:
            S['off202'] = y - 128 if y else 0
        elif code == 203:
            if y == 255:
                S['bits203'] = 0
            else:
                S['bits203'] = y
                if y == 0:
                    S['refvals'] = {}
        elif code == 204:
            if y:
                S['assoc'].append(y)
            else:
                S['assoc'].pop()
        elif code == 205:
            emit(lab, 'bytes', y, take())
        elif code == 206:
            S['skip206'] = y
        elif code == 207:
            S['inc207'] = ((10 * y + 2) // 3, y, 10 ** y) if y else (0, 0, 1)
        elif code == 208:
            S['nbytes208'] = y
        elif code == 221:
            S['dnp'] = y
        elif code in (222, 223, 224, 225, 232):
            if y == 0:
                S['boundary'] = len(out)
                S['bm'], S['nbits_bm'], S['reuse_next'] = 'INDICATOR', 0, False
                if code == 222:
                    S['qa'] = 'waiting'
                emit(lab, 'const', None, 0)
            else:
                owner, e = next_selected()
                idx0 = len(out)
                element(e, marker=code)
                links[len(out) - 1] = owner
        elif code == 235:
            # (cancel backward data reference: no entry in the flat lists - unlike 222000 .. 237255 the library does not list it)
            S['back'], S['reuse_bitmap'], S['selected'] = None, None, None
        elif code == 236:
            emit(lab, 'const', None, 0)
        elif code == 237:
            if y == 0:
                vals = S['reuse_bitmap']
                S['selected'] = [(i, kinds[i]) for bit, i in zip(vals, S['back']) if bit == 0]
                S['pos'] = 0
            else:
                S['reuse_bitmap'] = None
            emit(lab, 'const', None, 0)
        else:
            raise AnalysisError('reference walk: operator %s is outside the family' % lab)

    def step_bitmap(d):
        st = S['bm']
        if st == 'NA':
            return
        is_bit = d.cls == 'ElementDescriptor' and d.fields['id'] == 31031
        if st == 'INDICATOR':
            if d.cls == 'OperatorDescriptor' and d.fields['id'] == 236000:
                S['bm'], S['reuse_next'] = 'WAITING', True
            elif d.cls == 'OperatorDescriptor' and d.fields['id'] == 237000:
                S['bm'] = 'NA'
            elif is_bit:
                S['bm'], S['nbits_bm'] = 'COUNTING', 1
            else:
                S['bm'] = 'WAITING'
        elif st == 'WAITING':
            if is_bit:
                S['bm'], S['nbits_bm'] = 'COUNTING', S['nbits_bm'] + 1
        elif st == 'COUNTING':
            if is_bit:
                S['nbits_bm'] += 1
            else:
                define_bitmap()

    def walk(ms):
        for d in ms:
            step_bitmap(d)
            if d.cls == 'ElementDescriptor':
                element(d)
            elif d.cls == 'OperatorDescriptor':
                operator(d)
            elif d.cls == 'SequenceDescriptor':
                walk(d.fields['members'])
            elif d.cls == 'FixedReplicationDescriptor':
                for _ in range(d.fields['id'] % 1000):
                    walk(d.fields['members'])
            elif d.cls == 'DelayedReplicationDescriptor':
                fac = d.fields['factor']
                n = take()
                emit(label(fac.fields['id']), 'uint', fac.fields['nbits'], n, plain=fac)
                for _ in range(n):
                    walk(d.fields['members'])
            else:
                raise AnalysisError('reference walk: member of class %s is outside the family' % d.cls)
    walk(members)
    if S['bm'] == 'COUNTING':
        define_bitmap()
    return out, links, k[0]


# ---------------------------------------------------------------------------
# compressed data: the same subsets written by the encoder walk in compressed form and read back by the decoder walk
class FieldReader(Native):
    """Reader that replays the fields a ScriptWriter recorded (a field read with another kind or width than it was written with is a
    layout disagreement between the two walks)."""

    def __init__(self, log):
        self.log, self.k, self.problem = list(log), 0, None

    def __repr__(self):
        return 'FieldReader@%d' % self.k

    def call_method(self, name, args, kwargs, interp, frame, node):
        if name == 'get_pos':
            return 0
        if not name.startswith('read'):
            raise AnalysisError('pipeline fold: bit_reader.%s is not modelled' % name)
        if self.k >= len(self.log):
            self.problem = 'the decoder asks for %s%r after the %d fields the encoder wrote' % (name, tuple(args), len(self.log))
            raise Raise('BitReadError', node, interp.where(node, frame))
        wname, wargs = self.log[self.k]
        self.k += 1
        kinds = {'read_uint_or_none': 'write_uint', 'read_uint': 'write_uint', 'read_int': 'write_int', 'read_bytes': 'write_bytes'}
        width = wargs[1] if len(wargs) > 1 else None
        if kinds.get(name) != wname or (args and args[0] != width):
            self.problem = 'field %d was written as %s%r and is read as %s%r' % (self.k - 1, wname, tuple(wargs), name, tuple(args))
            raise Raise('LayoutMismatch', node, interp.where(node, frame))
        v = wargs[0]
        if name == 'read_uint_or_none' and isinstance(width, int) and width > 1 and v == 2 ** width - 1:
            return None
        return v


def code_compressed(repo, members, subsets):
    """Encoder walk over `subsets` (lists of flat values) in compressed mode, then decoder walk over the fields written.
    Returns (encode result, decode result, decoded state or None, reader)."""
    from sa.rules.walk import fold_init
    n = len(subsets)

    def state(values=None):
        sts = fold_init(repo, True, n, values=values)
        plain = [x for x in sts if isinstance(x.fields.get('decoded_values_all_subsets'), list) and all(type(v) is list for v in x.fields['decoded_values_all_subsets'])]
        return (plain or sts)[0]
    efi = repo.method('Encoder', 'process_members')
    wr = ScriptWriter()
    eres = PipeInterp(repo, 'Encoder').run_function(efi, lambda: {'self': Obj('Encoder', {}), 'state': state([list(s) for s in subsets]), 'bit_operator': wr,
                                                                  'members': list(members)}, self_class='Encoder')
    if len(eres) != 1:
        raise AnalysisError('pipeline fold: Encoder.process_members (compressed) forks into %d paths' % len(eres))
    if not eres[0].ok:
        return eres[0], None, None, None
    dfi = repo.method('Decoder', 'process_members')
    rd = FieldReader(wr.log)
    box = {}

    def mk():
        box['st'] = state()
        return {'self': Obj('Decoder', {}), 'state': box['st'], 'bit_operator': rd, 'members': list(members)}
    dres = PipeInterp(repo, 'Decoder').run_function(dfi, mk, self_class='Decoder')
    if len(dres) != 1:
        raise AnalysisError('pipeline fold: Decoder.process_members (compressed) forks into %d paths' % len(dres))
    return eres[0], dres[0], box['st'], rd


# ---------------------------------------------------------------------------
# several uncompressed subsets through one coder state (C06)
def decode_subsets(repo, members, scripts, coder='Decoder'):
    """The per-subset loop of process_template_data on one real CoderState: switch_subset_context(k), then the walk over the
    script of subset k.  Returns [(result, descs, vals, links)] per subset."""
    n = len(scripts)
    st = plain_state(repo, False, n)
    sw = repo.own_method('CoderState', 'switch_subset_context')
    fi = repo.method(coder, 'process_members')
    out = []
    for k, script in enumerate(scripts):
        r0 = PipeInterp(repo, 'CoderState').run_function(sw, lambda: {'self': st, sw.params[1]: k}, self_class='CoderState')
        if len(r0) != 1 or not r0[0].ok:
            raise AnalysisError('pipeline fold: switch_subset_context(%d) could not be folded: %s' % (k, [x.describe() for x in r0]))
        rd = ScriptReader(script)
        res = PipeInterp(repo, coder).run_function(fi, lambda: {'self': Obj(coder, {}), 'state': st, 'bit_operator': rd, 'members': list(members)}, self_class=coder)
        if len(res) != 1:
            raise AnalysisError('pipeline fold: %s.process_members forks into %d paths on subset %d' % (coder, len(res), k))
        out.append((res[0], list(st.fields['decoded_descriptors_all_subsets'][k]), list(st.fields['decoded_values_all_subsets'][k]),
                    dict(st.fields['bitmap_links_all_subsets'][k]), len(rd.values) - rd.k))
    return out


def subset_families():
    """name -> (members, [script of subset variant A, variant B, ...]): same template, subsets that differ in replication counts,
    bitmaps and values, and that end inside operator constructs."""
    f = {}
    f['delayed replication before a bitmap'] = (
        [DEL(F31001(), T()), T(12103), OP(222000), OP(236000), DEL(F31001(), B()), Q()],
        [[1, 2801, 2750, 2, 0, 1, 70], [3, 2801, 2802, 2803, 2750, 2, 1, 0, 80], [0, 2750, 1, 0, 60]])
    f['template ending inside 201 / 202 / 207 / 208'] = (
        [T(), OP(201130), OP(202129), OP(207001), OP(208003), T(), E(1015, 'STATION OR SITE NAME', 'CCITT IA5', 32)],
        [[2801, 2801, b'ABC'], [2700, 2700, b'XYZ']])
    f['template ending inside 203 and 204'] = (
        [OP(203012), T(), OP(203255), T(), OP(204004), E(31021, 'ASSOCIATED FIELD SIGNIFICANCE', 'CODE TABLE', 6), T(12103)],
        [[-100, 2801, 1, 3, 2750], [50, 2801, 1, 5, 2700]])
    f['bitmap reuse and cancellation'] = (
        [T(), T(12103), OP(222000), OP(236000), FIX(2, B()), Q(), OP(224000), OP(237000), E(8023, 'FIRST ORDER STATISTICS', 'CODE TABLE', 6), OP(224255), OP(237255)],
        [[2801, 2750, 1, 0, 70, 4, 2760], [2801, 2750, 0, 1, 80, 4, 2811]])
    f['data not present and a skipped local descriptor left pending'] = (
        [E(1001, nbits=7), OP(221001), T(), E(1002, nbits=10), OP(206009)],
        [[11, 7], [12, 8]])
    f['cancel back references, new bitmap'] = (
        [T(), OP(223000), FIX(1, B()), OP(223255), OP(235000), T(12103), OP(232000), DEL(F31001(), B()), OP(232255)],
        [[2801, 0, 2790, 2750, 1, 0, 2740], [2801, 0, 2790, 2750, 1, 0, 2741]])
    return f


# ---------------------------------------------------------------------------
# the compiled path, concretely: TemplateCompiler.process_members -> statement tree -> process_statements on a fresh state
class CompileInterp(PipeInterp):
    def on_call(self, text, callee, args, kwargs, node, frame):
        if text == 'get_func_name':
            return frame.fi.name
        return PipeInterp.on_call(self, text, callee, args, kwargs, node, frame)


def compile_template(repo, members):
    """Fold of CompilerState.__init__ and TemplateCompiler.process_members on a concrete template: (result, recorded statements)."""
    cinit = repo.own_method('CompilerState', '__init__')
    tg = Obj('TableGroupStub', {'key': 'TGKEY'})
    tpl = Obj('BufrTemplate', {'members': list(members), 'id': 999999})
    r0 = CompileInterp(repo, 'CompilerState').run_function(cinit, lambda: {'self': Obj('CompilerState', {}), cinit.params[1]: tg, cinit.params[2]: tpl},
                                                            self_class='CompilerState')
    ok0 = [r for r in r0 if r.ok and isinstance(r.locals['self'].fields.get('decoded_values_all_subsets'), list)]
    if not ok0:
        raise AnalysisError('pipeline fold: CompilerState.__init__ could not be folded: %s' % [r.describe() for r in r0])
    st = ok0[0].locals['self']
    fi = repo.method('TemplateCompiler', 'process_members')
    res = CompileInterp(repo, 'TemplateCompiler').run_function(fi, lambda: {'self': Obj('TemplateCompiler', {}), 'state': st, 'bit_operator': None,
                                                                           'members': list(members)}, self_class='TemplateCompiler')
    if len(res) != 1:
        raise AnalysisError('pipeline fold: TemplateCompiler.process_members forks into %d paths on a concrete template' % len(res))
    stack = st.fields.get('block_stack')
    if not (isinstance(stack, list) and stack and isinstance(stack[0], Obj) and isinstance(stack[0].fields.get('statements'), list)):
        raise AnalysisError('pipeline fold: the compiler state keeps its statements in %r, not in block_stack[0].statements' % (stack,))
    return res[0], stack[0].fields['statements']


def replay(repo, statements, state, bit_operator, coder='Decoder'):
    fi = repo.func('templatecompiler', 'process_statements')
    res = CompileInterp(repo, coder).run_function(fi, lambda: {fi.params[0]: Obj(coder, {}), fi.params[1]: state, fi.params[2]: bit_operator,
                                                              fi.params[3]: statements}, self_class=coder)
    if len(res) != 1:
        raise AnalysisError('pipeline fold: process_statements forks into %d paths on a concrete template and script' % len(res))
    return res[0]


def _json_data(v):
    """What json.dumps / json.loads make of a to_dict() result: tuples and the repository's namedtuples become lists, everything else
    must already be JSON data (a descriptor object left in the dictionary cannot be written out at all)."""
    from sa.patheval import NT_FIELDS
    if isinstance(v, Obj):
        if v.cls in NT_FIELDS:
            return [_json_data(v.fields[k]) for k in NT_FIELDS[v.cls]]
        raise AnalysisError('pipeline fold: to_dict() leaves a %s object in its result: not JSON data' % v.cls)
    if isinstance(v, (tuple, list)):
        return [_json_data(x) for x in v]
    if isinstance(v, dict):
        return dict((k, _json_data(x)) for k, x in v.items())
    if v is None or isinstance(v, (bool, int, float, str)):
        return v
    raise AnalysisError('pipeline fold: to_dict() result contains %r: not JSON data' % (v,))


def _descriptor_index(members, acc=None):
    acc = {} if acc is None else acc
    for m in members:
        if isinstance(m, Obj):
            acc.setdefault(m.fields.get('id'), m)
            f = m.fields.get('factor')
            if isinstance(f, Obj):
                acc.setdefault(f.fields.get('id'), f)
            if isinstance(m.fields.get('members'), list):
                _descriptor_index(m.fields['members'], acc)
    return acc


def save_and_load(repo, members):
    """The compiled form of a concrete template written out and read back: CompiledTemplate.to_dict() folded, turned into JSON data,
    and loads_compiled_template() folded on it with a table group that looks descriptors up among those of the template.
    Returns (result of loading, statements of the loaded template)."""
    from sa.patheval import Stub
    cinit = repo.own_method('CompilerState', '__init__')
    tpl = Obj('BufrTemplate', {'members': list(members), 'id': 999999, 'original_descriptor_ids': [0]})
    tg = Obj('TableGroupStub', {'key': ('TG', 0)})
    r0 = CompileInterp(repo, 'CompilerState').run_function(cinit, lambda: {'self': Obj('CompilerState', {}), cinit.params[1]: tg, cinit.params[2]: tpl}, self_class='CompilerState')
    ok0 = [r for r in r0 if r.ok and isinstance(r.locals['self'].fields.get('decoded_values_all_subsets'), list)]
    if not ok0:
        raise AnalysisError('pipeline fold: CompilerState.__init__ could not be folded')
    st = ok0[0].locals['self']
    fi = repo.method('TemplateCompiler', 'process_members')
    res = CompileInterp(repo, 'TemplateCompiler').run_function(fi, lambda: {'self': Obj('TemplateCompiler', {}), 'state': st, 'bit_operator': None, 'members': list(members)},
                                                               self_class='TemplateCompiler')
    if len(res) != 1 or not res[0].ok:
        return res[0], None
    compiled = st.fields['block_stack'][0]
    td = repo.method(compiled.cls, 'to_dict')
    r1 = CompileInterp(repo, compiled.cls).run_function(td, lambda: {'self': compiled}, self_class=compiled.cls)
    if len(r1) != 1 or not r1[0].ok or not isinstance(r1[0].value, dict):
        raise AnalysisError('pipeline fold: CompiledTemplate.to_dict could not be folded: %s' % [x.describe() for x in r1])
    data = _json_data(r1[0].value)
    index = _descriptor_index(members)

    class LoadInterp(CompileInterp):
        def on_call(self2, text, callee, args, kwargs, node, frame):
            from sa.patheval import UnknownMethod, ModRef
            if text == 'json.loads' or (isinstance(callee, UnknownMethod) and isinstance(callee.recv, ModRef) and callee.recv.name == 'json' and callee.name == 'loads'):
                return data
            if text.endswith('get_table_group_by_key'):
                def lookup(interp, a, kw, node_, frame_):
                    i = a[0]
                    if i not in index:
                        raise AnalysisError('pipeline fold: the loader looks up descriptor %r, which the template does not contain' % (i,))
                    return index[i]
                return Stub('table group', {'lookup': lookup, 'template_from_ids': lambda interp, a, kw, node_, frame_: tpl}, attrs={'key': ('TG', 0)})
            return CompileInterp.on_call(self2, text, callee, args, kwargs, node, frame)
    lf = repo.func('templatecompiler', 'loads_compiled_template')
    r2 = LoadInterp(repo, None).run_function(lf, lambda: {lf.params[0]: 'JSON'})
    if len(r2) != 1:
        raise AnalysisError('pipeline fold: loads_compiled_template forks into %d paths on concrete JSON data' % len(r2))
    if not r2[0].ok:
        return r2[0], None
    loaded = r2[0].value
    if not (isinstance(loaded, Obj) and isinstance(loaded.fields.get('statements'), list)):
        raise AnalysisError('pipeline fold: loads_compiled_template returns %r' % (loaded,))
    return r2[0], loaded.fields['statements']
