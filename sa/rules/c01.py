"""
C01  Decoding yields exactly the values FM-94 assigns to the bit stream (structural part).

R1 dispatch exhaustiveness of the template walk      R2 primitive completeness / mode dispatch
R3 flat-list lockstep of the decoder primitives      R4 operator -> register table, folded over Y
R5 register -> field def-use in process_element      R6 arithmetic normal form (raw + ref) / scale
R7 missing rule (all ones, width > 1)                R8 label table
R9 class filters folded over X = 0..63
"""
from __future__ import print_function

import ast

from sa.model import AnalysisError, norm
from sa.patheval import Interp, Obj, Sym, Top, FuncRef, Native
from sa.report import RuleResult
from sa.rules import codec, walk
from sa.rules.codec import lin_eq, linear, run_primitive, skeleton, PRIMS, MODES
from sa.rules.walk import WalkInterp, make_state, element, operator, snapshot, NextBitmapped

CODES = (201, 202, 203, 204, 205, 206, 207, 208, 221, 222, 223, 224, 225, 232, 235, 236, 237)


def where_of(fi):
    return fi.where


# ---------------------------------------------------------------------------
def rule_r1(repo):
    rr = RuleResult('C01.R1', 'the template walk dispatches every descriptor class exactly once and refuses unknown ones')
    fi = repo.method('Decoder', 'process_members')
    it = WalkInterp(repo, 'Decoder')

    def run(member):
        def mk():
            return {'self': Obj('Decoder', {}), 'state': make_state(repo, it), 'bit_operator': Top('bitop'), 'members': [member]}
        return it.run_function(fi, mk, self_class='Decoder')

    el = element(12101)
    factor = element(31001, unit='NUMERIC')
    cases = [
        ('ElementDescriptor', el, 'emit1'),
        ('FixedReplicationDescriptor', Obj('FixedReplicationDescriptor', {'id': 101003, 'members': [el]}), 'emit3'),
        ('DelayedReplicationDescriptor', Obj('DelayedReplicationDescriptor', {'id': 101000, 'members': [el], 'factor': factor}), 'factor'),
        ('SequenceDescriptor', Obj('SequenceDescriptor', {'id': 301001, 'name': 's', 'members': [el, el]}), 'emit2'),
        ('OperatorDescriptor', operator(201, 130), 'store'),
    ]
    for cname, member, expect in cases:
        res = run(member)
        rr.instance('process_members([%s]) -> %s' % (cname, expect))
        for r in res:
            emits = [e for e in r.events if e[0] == 'emit']
            key = 'Coder.process_members:%s' % cname
            if not r.ok:
                rr.fail(key, fi.where, 'a %s member makes the walk raise %s' % (cname, r.exc.cls))
                continue
            if expect.startswith('emit') and len(emits) != int(expect[4:]):
                rr.fail(key, fi.where, 'a %s member yields %d emissions, expected %s' % (cname, len(emits), expect[4:]))
            if expect == 'factor':
                q = [e for e in r.events if e[0] in ('emit', 'query')]
                names = [e[1] for e in q]
                if not names or names[0] != 'process_numeric' or 'get_value_for_delayed_replication_factor' not in names[1:2]:
                    rr.fail(key, fi.where, 'delayed replication does not decode its factor first and then ask for its value: %s' % names)
                else:
                    d = q[0][2][0]
                    if not (isinstance(d, Obj) and d.fields.get('id') == 31001):
                        rr.fail(key, fi.where, 'the first emission of a delayed replication is not its class-31 factor')
            if expect == 'store':
                st = [e for e in r.events if e[0] == 'store' and e[1] == 'nbits_offset']
                if not st:
                    rr.fail(key, fi.where, 'an operator member does not reach the operator state machine')
    # classes that may appear in a template but are not dispatched must be refused with UnknownDescriptor
    for cname in ('UndefinedElementDescriptor', 'UndefinedSequenceDescriptor', 'UndefinedDescriptor'):
        if not repo.has_cls(cname):
            raise AnalysisError('class %s vanished from descriptors.py' % cname)
        res = run(Obj(cname, {'id': 63255}))
        rr.instance('process_members([%s]) -> UnknownDescriptor' % cname)
        for r in res:
            if r.ok or r.exc.cls != 'UnknownDescriptor':
                rr.fail('Coder.process_members:%s' % cname, fi.where,
                        'a %s member is not refused with UnknownDescriptor (outcome: %s)' % (cname, r.describe()))
    # ... also while 221YYY (data not present) is counting: an unknown descriptor is refused, never silently skipped
    for cname in ('UndefinedElementDescriptor', 'UndefinedSequenceDescriptor'):
        member = Obj(cname, {'id': 12255 if 'Element' in cname else 312255})

        def mk2():
            return {'self': Obj('Decoder', {}), 'state': make_state(repo, it, {'data_not_present_count': 3}), 'bit_operator': Top('bitop'), 'members': [member]}
        res = it.run_function(fi, mk2, self_class='Decoder')
        rr.instance('process_members([%s]) under 221YYY -> UnknownDescriptor' % cname)
        for r in res:
            if r.ok or r.exc.cls != 'UnknownDescriptor':
                rr.fail('Coder.process_members:%s:under-221' % cname, fi.where,
                        'while 221YYY is counting, a %s member is not refused with UnknownDescriptor (outcome: %s): a descriptor that is in no table '
                        'would be skipped silently' % (cname, r.describe()))
    rr.require_floor(10)
    return rr


# ---------------------------------------------------------------------------
class DispatchInterp(Interp):
    def on_call(self, text, callee, args, kwargs, node, frame):
        if isinstance(callee, FuncRef) and frame.depth == 0 and callee.fi.name.startswith('process_') and \
                (callee.fi.name.endswith('_compressed') or callee.fi.name.endswith('_uncompressed')):
            self.event('dispatch', callee.fi.name, list(args), callee.fi.cls.name if callee.fi.cls else None)
            return None
        return self.NOT_HANDLED


def rule_r2(repo, coder='Decoder', rule='C01.R2'):
    rr = RuleResult(rule, 'every abstract primitive is implemented by %s and dispatches on the compression flag' % coder)
    base = repo.cls('Coder')
    n = 0
    for name, fi in sorted(base.methods.items()):
        if not fi.is_abstract:
            continue
        own = repo.method(coder, name, required=False)
        rr.instance('%s.%s overrides abstract Coder.%s' % (coder, name, name))
        n += 1
        if own is None or own.is_abstract:
            rr.fail('%s.%s:missing' % (coder, name), base.methods[name].where,
                    'abstract Coder.%s is not implemented by %s (Coder does not use ABCMeta, so Python does not enforce it)' % (name, coder))
            continue
        if name not in ('process',) and len(own.params) != len(fi.params):
            rr.fail('%s.%s:arity' % (coder, name), own.where,
                    '%s.%s takes %d parameters, the abstract declaration %d' % (coder, name, len(own.params), len(fi.params)))
    for bname, impl in (('BitReader', 'BitStringBitReader'), ('BitWriter', 'BitStringBitWriter')):
        if (coder == 'Decoder') != (bname == 'BitReader'):
            continue
        for name, fi in sorted(repo.cls(bname).methods.items()):
            if not fi.is_abstract:
                continue
            own = repo.method(impl, name, required=False)
            rr.instance('%s.%s overrides abstract %s.%s' % (impl, name, bname, name))
            if own is None or own.is_abstract:
                rr.fail('%s.%s:missing' % (impl, name), fi.where, 'abstract %s.%s is not implemented by %s' % (bname, name, impl))
            elif len([p for p in own.params]) != len(fi.params):
                rr.fail('%s.%s:arity' % (impl, name), own.where, '%s.%s arity differs from the abstract declaration' % (impl, name))
    # mode dispatch
    for prim in PRIMS:
        # (the dispatcher may live in the coder itself or be inherited: it is the method the coder object answers with)
        fi = repo.method(coder, 'process_' + prim, required=False)
        if fi is None or fi.is_abstract:
            continue
        for comp in (True, False):
            it = DispatchInterp(repo, coder)

            def mk():
                loc = {}
                for p in fi.params:
                    if p == 'self':
                        loc[p] = Obj(coder, {})
                    elif p == 'state':
                        loc[p] = Obj('CoderState', {'is_compressed': comp})
                    else:
                        loc[p] = Sym('P:' + p)
                return loc
            res = it.run_function(fi, mk, self_class=coder)
            want = 'process_%s_%s' % (prim, 'compressed' if comp else 'uncompressed')
            rr.instance('%s.process_%s(is_compressed=%s) -> %s' % (coder, prim, comp, want))
            for r in res:
                d = [e for e in r.events if e[0] == 'dispatch']
                key = '%s.process_%s:%s' % (coder, prim, 'compressed' if comp else 'uncompressed')
                if len(d) != 1 or d[0][1] != want or not r.ok:
                    rr.fail(key, fi.where, 'with is_compressed=%s the dispatcher calls %s (expected exactly %s)' % (
                        comp, [e[1] for e in d] or r.describe(), want))
                    continue
                passed = [repr(a) for a in d[0][2]]
                expect = ['P:' + p for p in fi.params[2:]]
                if passed[1:] != expect:
                    rr.fail(key + ':args', fi.where, 'the dispatcher passes %s, expected the parameters %s in order' % (passed[1:], expect))
    rr.require_floor(18)
    return rr


# ---------------------------------------------------------------------------
def rule_r3(repo):
    rr = RuleResult('C01.R3', 'each decoder primitive appends exactly one descriptor and one value per subset on every non-raising path')
    for prim in PRIMS:
        for mode in MODES:
            m = 'process_%s_%s' % (prim, mode)
            fi, recs, _ = run_primitive(repo, 'Decoder', m)
            oks = codec.require_paths(recs, fi)
            rr.instance('Decoder.%s: %d paths' % (m, len(recs)))
            for r in oks:
                nd = len(r.appends('decoded_descriptors'))
                key = 'Decoder.%s' % m
                if nd != 1:
                    rr.fail(key + ':descriptors', fi.where, 'path [%s] appends %d descriptors to the flat list (expected 1)' % (r.desc(), nd))
                if mode == 'uncompressed':
                    nv = len(r.appends('decoded_values'))
                    if nv != 1:
                        rr.fail(key + ':values', fi.where, 'path [%s] appends %d values (expected 1)' % (r.desc(), nv))
                    stray = r.appends('decoded_values@subset')
                    if stray:
                        rr.fail(key + ':values', fi.where, 'uncompressed primitive writes into other subsets')
                else:
                    depth = 0
                    in_loop = out_loop = 0
                    nloops_with_append = 0
                    cur = 0
                    for e in r.events:
                        if e[0] == 'loop_begin':
                            depth += 1
                            cur = 0
                        elif e[0] == 'loop_end':
                            depth -= 1
                            if cur:
                                nloops_with_append += 1
                        elif e[0] == 'append' and e[1].startswith('decoded_values'):
                            if depth > 0 and e[1] == 'decoded_values@subset':
                                in_loop += 1
                                cur += 1
                            else:
                                out_loop += 1
                    if out_loop or nloops_with_append != 1 or in_loop != 1:
                        rr.fail(key + ':values', fi.where,
                                'path [%s]: %d appends inside %d per-subset loops, %d outside (expected exactly one append in '
                                'exactly one loop over all subsets)' % (r.desc(), in_loop, nloops_with_append, out_loop))
    rr.require_floor(10)
    return rr


# ---------------------------------------------------------------------------
def expected_operator_effect(code, y, dirty, consts):
    """Reference (FM-94, DESIGN appendix A.3): {register: expected repr} changes + emissions."""
    ch, emits = {}, []
    if code == 201:
        ch['nbits_offset'] = repr((y - 128) if y else 0)
    elif code == 202:
        ch['scale_offset'] = repr((y - 128) if y else 0)
    elif code == 203:
        ch['nbits_of_new_refval'] = repr(0 if y == 255 else y)
        if y == 0:
            ch['new_refvals'] = ('dict', ())
    elif code == 204:
        lst = list(dirty['nbits_of_associated'][1])
        ch['nbits_of_associated'] = ('list', tuple(lst[:-1]) if y == 0 else tuple(lst + [repr(y)]))
    elif code == 205:
        emits = [('process_string', y)]
    elif code == 206:
        ch['nbits_of_skipped_local_descriptor'] = repr(y)
    elif code == 207:
        if y == 0:
            t = (0, 0, 1)
        else:
            t = ((10 * y + 2) // 3, y, 10 ** y)
        ch['bsr_modifier'] = ('BSRModifier', (('nbits_increment', repr(t[0])), ('refval_factor', repr(t[2])), ('scale_increment', repr(t[1]))))
    elif code == 208:
        ch['new_nbytes'] = repr(y)
    elif code == 221:
        ch['data_not_present_count'] = repr(y)
    elif code in (222, 223, 224, 225, 232) and y == 0:
        ch['bitmap_definition_state'] = repr(consts['BITMAP_INDICATOR'])
        ch['back_reference_boundary'] = '0'
        if code == 222:
            ch['status_qa_info_follows'] = repr(consts['QA_INFO_WAITING'])
        emits = [('process_constant', 0)]
    elif code == 235:
        ch['back_referenced_descriptors'] = 'None'
        ch['bitmap'] = 'None'
        ch['bitmapped_descriptors'] = 'None'
    elif code == 236:
        emits = [('process_constant', 0)]
    elif code == 237:
        emits = [('process_constant', 0)]
        if y == 0:
            ch['next_bitmapped_descriptor'] = '*'
        else:
            # cancels the bitmap defined for reuse - whether or not another bitmap (not for reuse) has been built since
            ch['bitmap'] = 'None'
    return ch, emits


def rule_r4(repo, tier):
    rr = RuleResult('C01.R4', 'operator -> register table of process_operator_descriptor, folded over the operand')
    fi = repo.method('Decoder', 'process_operator_descriptor')
    consts = {}
    for k in ('BITMAP_INDICATOR', 'QA_INFO_WAITING', 'BITMAP_NA'):
        v = repo.const('coder', k)
        if not isinstance(v, int):
            raise AnalysisError('coder.%s is not an integer constant' % k)
        consts[k] = v
    ys = list(range(256)) if tier == 'thorough' else [0, 1, 2, 3, 7, 8, 63, 64, 127, 128, 129, 130, 200, 254, 255]
    dirty_over = {
        'nbits_offset': 7, 'scale_offset': -3, 'nbits_of_new_refval': 9, 'new_refvals': {1001: 5},
        'nbits_of_associated': [4, 2], 'nbits_of_skipped_local_descriptor': 0, 'new_nbytes': 3,
        'data_not_present_count': 0, 'status_qa_info_follows': 0, 'bitmap': [0, 1], 'bitmapped_descriptors': [(0, 'd')],     # (a consistent bitmap state: two back references, the first selected)
        'bitmap_definition_state': 0, 'most_recent_bitmap_is_for_reuse': True, 'n_031031': 2,
        'back_reference_boundary': 99, 'back_referenced_descriptors': [(0, 'd'), (1, 'e')],
    }
    n_cases = 0
    for reuse in (True, False):
        for code in CODES:
            for y in ys:
                if code in (222, 223, 224, 225, 232) and y != 0:
                    continue   # markers: rule C07.R1/R3 and C09.R1
                if code in (235, 236) and y != 0:
                    continue
                if code == 237 and y not in (0, 255):
                    continue
                if not reuse and code != 237:
                    continue
                it = WalkInterp(repo, 'Decoder')
                box = {}

                def mk():
                    over = dict((k, (list(v) if isinstance(v, list) else dict(v) if isinstance(v, dict) else v)) for k, v in dirty_over.items())
                    over['most_recent_bitmap_is_for_reuse'] = reuse
                    over['bsr_modifier'] = Obj('BSRModifier', {'nbits_increment': 4, 'scale_increment': 1, 'refval_factor': 10})
                    over['next_bitmapped_descriptor'] = NextBitmapped(element(12101))
                    st = make_state(repo, it, over)
                    box['before'] = snapshot(st)
                    return {'self': Obj('Decoder', {}), 'state': st, 'bit_operator': Top('bitop'), 'descriptor': operator(code, y)}
                res = it.run_function(fi, mk, self_class='Decoder')
                n_cases += 1
                key = 'Coder.process_operator_descriptor:%d' % code
                if len(res) != 1:
                    rr.fail(key + ':paths', fi.where, 'operator %06d: %d paths with a fully determined state (expected 1)' % (code * 1000 + y, len(res)))
                    continue
                r = res[0]
                if not r.ok:
                    rr.fail(key, fi.where, 'operator %06d raises %s' % (code * 1000 + y, r.exc.cls), witness={'operand': y})
                    continue
                after = snapshot(r.locals['state'])
                before = box['before']
                want, want_emits = expected_operator_effect(code, y, before, consts)
                got = dict((k, after[k]) for k in after if after[k] != before[k])
                want_eff = dict((k, v) for k, v in want.items() if v == '*' or v != before[k])
                emits = [(e[1], e[2][1] if len(e[2]) > 1 else None) for e in r.events if e[0] == 'emit']
                bad = []
                for k in sorted(set(got) | set(want_eff)):
                    if k in want_eff and want_eff[k] == '*':
                        if k not in got:
                            bad.append('%s unchanged (must be re-created)' % k)
                        continue
                    if got.get(k, before[k]) != want_eff.get(k, before[k]):
                        bad.append('%s = %s (expected %s)' % (k, _short(got.get(k, before[k])), _short(want_eff.get(k, before[k]))))
                if emits != want_emits:
                    bad.append('emissions %s (expected %s)' % (emits, want_emits))
                if bad:
                    rr.fail(key, fi.where, 'operator %06d: %s' % (code * 1000 + y, '; '.join(bad)),
                            witness={'operator': code * 1000 + y, 'reuse_flag': reuse})
    for code in CODES:
        rr.instance('operator %d x %d operands' % (code, len(ys)))
    # an operator outside the table is refused
    for code in (209, 241, 242, 243):
        it = WalkInterp(repo, 'Decoder')
        res = it.run_function(fi, lambda: {'self': Obj('Decoder', {}), 'state': make_state(repo, it), 'bit_operator': Top('b'),
                                           'descriptor': operator(code, 0)}, self_class='Decoder')
        rr.instance('operator %d000 is refused' % code)
        if any(r.ok for r in res):
            rr.fail('Coder.process_operator_descriptor:%d' % code, fi.where, 'unsupported operator %d000 is silently accepted' % code)
    rr.extra = {'cases_evaluated': n_cases, 'operands': len(ys)}
    rr.require_floor(17)
    return rr


def _short(v):
    s = repr(v)
    return s if len(s) < 90 else s[:87] + '...'


# ---------------------------------------------------------------------------
def sym_state(repo, it, over=None):
    o = {
        'nbits_offset': Sym('S.nbits_offset'), 'scale_offset': Sym('S.scale_offset'),
        'bsr_modifier': Obj('BSRModifier', {'nbits_increment': Sym('BSR.nbits_increment'),
                                            'scale_increment': Sym('BSR.scale_increment'),
                                            'refval_factor': Sym('BSR.refval_factor')}),
        'new_nbytes': Sym('S.new_nbytes'), 'nbits_of_associated': [], 'new_refvals': {},
    }
    if over:
        o.update(over)
    return make_state(repo, it, o)


def _pow10_arg(v):
    """exponent of `10 ** e` possibly multiplied by 1.0"""
    if isinstance(v, Sym) and v.op == 'mul' and len(v.args) == 2:
        for a, b in ((v.args[0], v.args[1]), (v.args[1], v.args[0])):
            if isinstance(a, (int, float)) and a == 1:
                return _pow10_arg(b)
    if isinstance(v, Sym) and v.op == 'pow' and len(v.args) == 2 and v.args[0] in (10, 10.0):
        return v.args[1]
    return None


def check_newref(repo, coder, rr):
    """coder.process_numeric_of_new_refval hands process_numeric the reference new_refvals[id] * refval_factor (203 value under 207)."""
    nf = repo.method(coder, 'process_numeric_of_new_refval')
    it = WalkInterp(repo, coder)

    def mk():
        loc = {}
        for p in nf.params:
            if p == 'self':
                loc[p] = Obj(coder, {})
            elif p == 'state':
                loc[p] = sym_state(repo, it, {'new_refvals': {12101: Sym('NEWREF')}})
            elif p.startswith('bit_'):
                loc[p] = Top('b')
            elif p == 'descriptor':
                loc[p] = element(12101)
            else:
                loc[p] = Sym('P:' + p)
        return loc
    res = it.run_function(nf, mk, self_class=coder)
    rr.instance('%s.process_numeric_of_new_refval: reference = new_refvals[id] * factor' % coder)
    for r in res:
        em = [e for e in r.events if e[0] == 'emit']
        ok = r.ok and len(em) == 1 and em[0][1] == 'process_numeric'
        if ok:
            d, nbits, sp, refval = em[0][2]
            ok = repr(nbits) == 'P:nbits' and repr(sp) == 'P:scale_powered' and isinstance(refval, Sym) and refval.op == 'mul' \
                and set(map(repr, refval.args)) == {'NEWREF', 'P:refval_factor'}
        if not ok:
            rr.fail('%s.process_numeric_of_new_refval' % coder, nf.where, 'the reference used for an element redefined by 203YYY is not new_refvals[id] * refval_factor '
                    '(the 207YYY factor): %s' % ([(e[1], [repr(a) for a in e[2][1:]]) for e in em] or r.describe()))


def rule_r5(repo):
    rr = RuleResult('C01.R5', 'register -> field def-use in process_element_descriptor')
    fi = repo.method('Decoder', 'process_element_descriptor')
    units = dict((k, repo.const('constants', k)) for k in ('UNITS_STRING', 'UNITS_FLAG_TABLE', 'UNITS_CODE_TABLE'))
    if any(not isinstance(v, str) for v in units.values()):
        raise AnalysisError('unit constants are not strings')

    def run(desc, over=None):
        it = WalkInterp(repo, 'Decoder')
        return it.run_function(fi, lambda: {'self': Obj('Decoder', {}), 'state': sym_state(repo, it, over),
                                            'bit_operator': Top('b'), 'descriptor': desc}, self_class='Decoder')

    key = 'Coder.process_element_descriptor'
    # numeric
    res = run(element(12101, unit='K'))
    rr.instance('numeric element: nbits/scale/refval leaves')
    for r in res:
        em = [e for e in r.events if e[0] == 'emit']
        if not r.ok or len(em) != 1 or em[0][1] != 'process_numeric':
            rr.fail(key + ':numeric', fi.where, 'a plain numeric element yields %s' % ([e[1] for e in em] or r.describe()))
            continue
        d, nbits, sp, refval = em[0][2]
        if not lin_eq(nbits, Sym('add', Sym('add', Sym('D.nbits'), Sym('S.nbits_offset')), Sym('BSR.nbits_increment'))):
            rr.fail(key + ':numeric-nbits', fi.where, 'numeric width is %r, expected descriptor.nbits + nbits_offset (201) + nbits_increment (207)' % (nbits,))
        ex = _pow10_arg(sp)
        if ex is None or not lin_eq(ex, Sym('add', Sym('add', Sym('D.scale'), Sym('S.scale_offset')), Sym('BSR.scale_increment'))):
            rr.fail(key + ':numeric-scale', fi.where, 'scale factor is %r, expected 10 ** (descriptor.scale + scale_offset (202) + scale_increment (207))' % (sp,))
        ok = isinstance(refval, Sym) and refval.op == 'mul' and set(map(repr, refval.args)) == {'D.refval', 'BSR.refval_factor'}
        if not ok:
            rr.fail(key + ':numeric-refval', fi.where, 'reference value is %r, expected descriptor.refval * refval_factor (207)' % (refval,))
    # numeric with a new reference value in force
    res = run(element(12101, unit='K'), {'new_refvals': {12101: Sym('NEWREF')}})
    rr.instance('numeric element with 203 reference: runtime reference path')
    for r in res:
        em = [e for e in r.events if e[0] == 'emit']
        if not r.ok or len(em) != 1 or em[0][1] != 'process_numeric_of_new_refval':
            rr.fail(key + ':newref', fi.where, 'an element with a 203-defined reference is emitted through %s' % ([e[1] for e in em] or r.describe()))
            continue
        d, nbits, sp, fac = em[0][2]
        if repr(fac) != 'BSR.refval_factor' or not lin_eq(nbits, Sym('add', Sym('add', Sym('D.nbits'), Sym('S.nbits_offset')), Sym('BSR.nbits_increment'))):
            rr.fail(key + ':newref-args', fi.where, 'new-reference emission has width %r and factor %r' % (nbits, fac))
    # the Decoder's runtime lookup: new_refvals[id] * refval_factor
    check_newref(repo, 'Decoder', rr)
    # code / flag: width untouched by 201/207
    for uk in ('UNITS_FLAG_TABLE', 'UNITS_CODE_TABLE'):
        res = run(element(20003, unit=units[uk]))
        rr.instance('%s element: width is descriptor.nbits only' % uk)
        for r in res:
            em = [e for e in r.events if e[0] == 'emit']
            if not r.ok or len(em) != 1 or em[0][1] != 'process_codeflag' or repr(em[0][2][1]) != 'D.nbits':
                rr.fail(key + ':codeflag', fi.where, 'a %s element yields %s' % (uk, [(e[1], repr(e[2][1])) for e in em] or r.describe()))
    # string: 208 width or nbits // 8
    res = run(element(1015, unit=units['UNITS_STRING']))
    rr.instance('string element: new_nbytes (208) else nbits // 8')
    seen = set()
    for r in res:
        em = [e for e in r.events if e[0] == 'emit']
        if not r.ok or len(em) != 1 or em[0][1] != 'process_string':
            rr.fail(key + ':string', fi.where, 'a string element yields %s' % ([e[1] for e in em] or r.describe()))
            continue
        seen.add(repr(em[0][2][1]))
    if seen and seen != {'S.new_nbytes', 'floordiv(D.nbits,8)'}:
        rr.fail(key + ':string-width', fi.where, 'string widths are %s, expected new_nbytes when set (208) else descriptor.nbits // 8' % sorted(seen))
    # associated field: sum of the stack, emitted before the element, not for class 31
    res = run(element(12101, unit='K'), {'nbits_of_associated': [4, 2]})
    rr.instance('associated field precedes the element with the summed width')
    for r in res:
        em = [e for e in r.events if e[0] == 'emit']
        ok = r.ok and len(em) == 2 and em[0][1] == 'process_codeflag' and em[1][1] == 'process_numeric'
        if ok:
            a = em[0][2][0]
            ok = isinstance(a, Obj) and a.cls == 'AssociatedDescriptor' and a.fields.get('id') == 12101 and a.fields.get('nbits') == 6 and em[0][2][1] == 6
        if not ok:
            rr.fail(key + ':associated', fi.where, 'with 204 widths [4, 2] in force the element yields %s' % (
                [(e[1], repr(e[2][0])[:60], repr(e[2][1])) for e in em] or r.describe()))
    rr.require_floor(7)
    return rr


# ---------------------------------------------------------------------------
def rule_r6(repo):
    rr = RuleResult('C01.R6', 'every numeric value appended by the decoder normalises to (raw + reference) / scale_powered')
    for mode in MODES:
        m = 'process_numeric_' + mode
        fi, recs, it = run_primitive(repo, 'Decoder', m)
        oks = codec.require_paths(recs, fi, 2)
        n = 0
        for r in oks:
            b = r.bindings()
            ios = r.io()
            # data reads: everything except the 6-bit width field
            raw_leaves = []
            for k, e in enumerate(ios):
                w = e[2][0] if e[2] else None
                if isinstance(w, int) and w == 6 and mode == 'compressed':
                    continue
                raw_leaves.append('io%d' % k)

            def bound(name, default):
                return b[name] if name in b else default
            vals = [e[2] for e in r.events if e[0] == 'append' and e[1].startswith('decoded_values')]
            for v in vals:
                n += 1
                if v is None:
                    continue
                raw = 0
                none = False
                for lf in raw_leaves:
                    bv = bound(lf, Sym(lf))
                    if bv is None:
                        none = True
                    else:
                        raw = it.sym_binop('add', raw, bv) if (isinstance(raw, Sym) or isinstance(bv, Sym)) else raw + bv
                refval = bound('P:refval', Sym('P:refval'))
                scale = bound('P:scale_powered', Sym('P:scale_powered'))
                num, den = (v.args[0], v.args[1]) if isinstance(v, Sym) and v.op == 'div' and len(v.args) == 2 else (v, 1)
                want_num = Sym('add', raw, refval) if not (isinstance(raw, (int, float)) and isinstance(refval, (int, float))) else raw + refval
                ok = lin_eq(num, want_num) and repr(den) == repr(scale) and not none
                if not ok:
                    rr.fail('Decoder.%s:form' % m, fi.where,
                            'path [%s] appends %r; with raw = %r the FM-94 value is (raw + %r) / %r (add the reference first, then divide)' % (
                                r.desc(), v, raw, refval, scale), witness={'path': r.desc()})
        rr.instance('Decoder.%s: %d appended values on %d paths' % (m, n, len(oks)))
    rr.require_floor(2)
    return rr


# ---------------------------------------------------------------------------
READ_TABLE = {
    'process_numeric_uncompressed': ['read_uint_or_none'],
    'process_numeric_compressed': ['read_uint_or_none', 'read_uint', 'read_uint_or_none'],
    'process_codeflag_uncompressed': ['read_uint_or_none'],
    'process_codeflag_compressed': ['read_uint_or_none', 'read_uint', 'read_uint_or_none'],
    'process_string_uncompressed': ['read_bytes'],
    'process_string_compressed': ['read_bytes', 'read_uint', 'read_bytes'],
    'process_new_refval_uncompressed': ['read_int'],
    'process_new_refval_compressed': ['read_int', 'read_uint'],
    'process_constant_uncompressed': [],
    'process_constant_compressed': [],
}


class ReaderInterp(Interp):
    def on_call(self, text, callee, args, kwargs, node, frame):
        if text == 'self.read_uint':
            return Sym('raw')
        return self.NOT_HANDLED

    def ev_Compare(self, e, frame):
        left = self.ev(e.left, frame)
        if len(e.ops) == 1:
            right = self.ev(e.comparators[0], frame)
            r = self.cmp(e.ops[0], left, right, frame)
            if r is None and (isinstance(left, Sym) or isinstance(right, Sym)):
                l2, r2 = (left, right) if isinstance(left, Sym) else (right, left)
                self.event('cmp', type(e.ops[0]).__name__, repr(l2), r2, not isinstance(left, Sym))
                return Top('bool')
            if r is None:
                return Top('bool')
            return r
        return Interp.ev_Compare(self, e, frame)


def rule_r7(repo):
    rr = RuleResult('C01.R7', 'missing rule: all ones of a field wider than one bit; read kinds per primitive')
    table = repo.const('constants', 'NUMERIC_MISSING_VALUES')
    rr.instance('constants.NUMERIC_MISSING_VALUES folds to 2**i - 1 for every width it covers (at least 0..64)')
    if not (isinstance(table, list) and len(table) >= 65 and table == [2 ** i - 1 for i in range(len(table))]):
        rr.fail('constants.NUMERIC_MISSING_VALUES', 'pybufrkit/constants.py',
                'NUMERIC_MISSING_VALUES does not fold to [2**i - 1 for i in 0..n], n >= 64: %s' % _short(table))
        return rr
    fi = repo.method('BitStringBitReader', 'read_uint_or_none')
    FLIP = {'Lt': 'Gt', 'LtE': 'GtE', 'Gt': 'Lt', 'GtE': 'LtE', 'Eq': 'Eq', 'NotEq': 'NotEq', 'Is': 'Is', 'IsNot': 'IsNot'}
    HOLDS = {'Eq': lambda a, b: a == b, 'NotEq': lambda a, b: a != b, 'Lt': lambda a, b: a < b, 'LtE': lambda a, b: a <= b,
             'Gt': lambda a, b: a > b, 'GtE': lambda a, b: a >= b, 'Is': lambda a, b: a == b, 'IsNot': lambda a, b: a != b}
    # widths: Table B elements (with 201 / 207 changes) stay within 64 bits; a field skipped by 206YYY or an associated field of
    # 204YYY is as wide as the 8-bit operand says: 0..255
    for n in range(0, 256):
        it = ReaderInterp(repo, 'BitStringBitReader')
        res = it.run_function(fi, lambda: {'self': Obj('BitStringBitReader', {}), 'nbits': n}, self_class='BitStringBitReader')
        # every path: the comparisons of the raw field with constants it decided (with their outcome) and what it returns.  The raw
        # value only meets constants through comparisons, so its behaviour is decided on a finite set of representatives: every
        # constant mentioned, its neighbours, the ends of the range - however the test is written (==, !=, De Morgan, early return).
        paths = []
        consts = set([0, 1, 2 ** n - 1, 2 ** n - 2, 2 ** n // 2])
        undecidable = None
        for r in res:
            cm = [e for e in r.events if e[0] == 'cmp']
            cons = []
            for e, (l, c, k) in zip(cm, r.log):
                opn, k0, swapped = e[1], e[3], e[4] if len(e) > 4 else False
                if opn not in HOLDS or isinstance(k0, bool) or not isinstance(k0, int):
                    undecidable = '%s %r' % (opn, k0)
                    continue
                cons.append((FLIP[opn] if swapped else opn, k0, c == 0))
                consts.update((k0 - 1, k0, k0 + 1))
            if len(cm) != len(r.log):
                undecidable = 'a decision that is not a comparison of the field with a constant'
            paths.append((cons, r))
        if undecidable:
            raise AnalysisError('BitReader.read_uint_or_none (width %d): %s - not a comparison of the raw field with a constant' % (n, undecidable))
        bad = None
        for raw in sorted(c for c in consts if 0 <= c <= max(2 ** n - 1, 0)):
            feas = [r for cons, r in paths if all(HOLDS[o](raw, k) == t for o, k, t in cons)]
            want = None if (n > 1 and raw == 2 ** n - 1) else 'raw'
            for r in feas:
                got = 'raise' if not r.ok else (None if r.value is None else ('raw' if repr(r.value) == 'raw' else repr(r.value)))
                if got != want:
                    bad = (raw, got, want)
            if not feas:
                bad = (raw, 'no path', want)
        if bad:
            rr.fail('BitReader.read_uint_or_none', fi.where,
                    'for width %d a field of value %d reads as %s (expected %s); FM-94: missing iff width > 1 and all %d bits are ones%s' % (
                        n, bad[0], bad[1], 'missing' if bad[2] is None else 'the value', n,
                        ' (a width above 64 is reached through 206YYY / 204YYY, whose operand is 8 bits wide)' if n > 64 else ''), witness={'nbits': n, 'raw': bad[0]})
            if n > 64:
                break
    rr.instance('BitReader.read_uint_or_none folded for widths 0..255')
    for m, want in sorted(READ_TABLE.items()):
        fi, recs, _ = run_primitive(repo, 'Decoder', m)
        longest = []
        for r in recs:
            names = [e[1] for e in r.io()]
            if len(names) > len(longest):
                longest = names
        rr.instance('Decoder.%s reads %s' % (m, longest))
        for r in recs:
            names = [e[1] for e in r.io()]
            if names != want[:len(names)]:
                rr.fail('Decoder.%s:read-kinds' % m, fi.where,
                        'path [%s] reads %s; the FM-94 layout is %s (data fields and minima: unsigned with missing detection; '
                        'the 6-bit width: plain unsigned; 203 values: sign-magnitude)' % (r.desc(), names, want))
                break
        if longest != want:
            rr.fail('Decoder.%s:read-kinds' % m, fi.where, 'longest path reads %s, expected %s' % (longest, want))
    # both compressed sites carry the one-bit rule: a 1-bit difference of 1 is missing.  Decided by folding the routine with the
    # three fields scripted (minimum, 6-bit width, difference): how the test is written (nested ifs, a flag computed before the loop,
    # a helper) does not matter, only what is appended for each subset.
    def per_subset(r):
        return [e[2] for e in r.events if e[0] == 'append' and e[1] == 'decoded_values@subset']
    for m in ('process_numeric_compressed', 'process_codeflag_compressed'):
        scripted = [('one-bit', [5, 1, 1], True, 'a 1-bit difference of value 1'),
                    ('diff-missing', [5, 3, None], True, 'an all-ones difference (3 bits)'),
                    ('diff-missing', [5, 1, None], True, 'a difference reported missing by the reader (1 bit)'),
                    ('min-missing', [None, 0], True, 'an all-ones minimum with width 0'),
                    ('one-bit-zero', [5, 1, 0], False, 'a 1-bit difference of value 0'),
                    ('diff-value', [5, 3, 2], False, 'a 3-bit difference of value 2')]
        hit = False
        for key, reads, want_missing, what in scripted:
            fi, recs, _ = run_primitive(repo, 'Decoder', m, reads=reads)
            oks = [r for r in recs if r.ok]
            if not oks:
                rr.fail('Decoder.%s:%s' % (m, key), fi.where, '%s: no path completes (%s)' % (what, sorted(set(r.exc for r in recs))))
                continue
            for r in oks:
                vals = per_subset(r)
                if want_missing:
                    if key == 'one-bit':
                        hit = True
                    if vals != [None]:
                        rr.fail('Decoder.%s:%s' % (m, key), fi.where, '%s decodes to %r, not missing [%s]' % (what, vals, r.desc()))
                        break
                elif m == 'process_numeric_compressed' and (len(vals) != 1 or vals[0] is None):
                    rr.fail('Decoder.%s:%s' % (m, key), fi.where, '%s decodes to %r; it is an ordinary value [%s]' % (what, vals, r.desc()))
                    break
        rr.instance('Decoder.%s: one-bit difference rule present: %s' % (m, hit))
    # code / flag columns: the reconstructed value min + diff is missing when it is all ones of the element width (> 1 bit):
    # folded on scripted fields (how the re-check is written does not matter)
    from sa.rules import columns
    cr = columns.rule_columns(repo, 'quick', 'C01.R7', only=('codeflag',))
    for f in cr.findings:
        if f.key.startswith('column:codeflag:all-ones-recheck') or f.key.startswith('column:codeflag:decoder-widths'):
            rr.findings.append(f)
    rr.instance('Decoder.process_codeflag_compressed: all-ones re-check of minimum + difference (folded on scripted columns)')
    rr.require_floor(15)
    return rr


# ---------------------------------------------------------------------------
def rule_r8(repo):
    rr = RuleResult('C01.R8', 'label table of plain and pseudo descriptors')
    it = Interp(repo, None)
    from sa.patheval import Path

    def label(obj):
        fi = repo.method(obj.cls, '__str__')
        res = it.run_function(fi, lambda: {'self': obj}, self_class=obj.cls)
        if len(res) != 1 or not res[0].ok:
            return '<%d paths>' % len(res)
        return res[0].value
    cases = [
        (Obj('ElementDescriptor', {'id': 12101}), '012101'),
        (Obj('ElementDescriptor', {'id': 1001}), '001001'),
        (Obj('AssociatedDescriptor', {'id': 12101, 'nbits': 4}), 'A12101'),
        (Obj('AssociatedDescriptor', {'id': 1001, 'nbits': 4}), 'A01001'),
        (Obj('SkippedLocalDescriptor', {'id': 63255, 'nbits': 9}), 'S63255'),
        (Obj('OperatorDescriptor', {'id': 222000}), '222000'),
        (Obj('FixedReplicationDescriptor', {'id': 101003}), '101003'),
        (Obj('SequenceDescriptor', {'id': 301001}), '301001'),
    ]
    for mid, pre in ((223255, 'T'), (224255, 'F'), (225255, 'D'), (232255, 'R')):
        cases.append((Obj('MarkerDescriptor', {'id': 12101, 'marker_id': mid}), pre + '12101'))
        cases.append((Obj('MarkerDescriptor', {'id': 1001, 'marker_id': mid}), pre + '01001'))
    for obj, want in cases:
        got = label(obj)
        rr.instance('str(%s %s) == %s' % (obj.cls, obj.fields.get('marker_id', obj.fields['id']), want))
        if got != want:
            rr.fail('%s.__str__%s' % (obj.cls, (':%d' % obj.fields['marker_id']) if 'marker_id' in obj.fields else ''),
                    repo.method(obj.cls, '__str__').where, 'label of %s %r is %r, documented %r' % (obj.cls, obj.fields, got, want))
    # from_element_descriptor keeps id/unit and records the marker id
    fi = repo.method('MarkerDescriptor', 'from_element_descriptor')
    w = WalkInterp(repo, 'Decoder')
    res = w.run_function(fi, lambda: {'ed': element(12101, unit='K'), 'marker_id': 224255, 'scale': None, 'refval': None, 'nbits': None},
                         self_class='MarkerDescriptor')
    rr.instance('MarkerDescriptor.from_element_descriptor copies the element and records marker_id')
    for r in res:
        md = r.value
        ok = r.ok and isinstance(md, Obj) and md.cls == 'MarkerDescriptor' and md.fields.get('id') == 12101 and \
            md.fields.get('marker_id') == 224255 and md.fields.get('unit') == 'K' and repr(md.fields.get('nbits')) == 'D.nbits' and \
            repr(md.fields.get('scale')) == 'D.scale' and repr(md.fields.get('refval')) == 'D.refval'
        if not ok:
            rr.fail('MarkerDescriptor.from_element_descriptor', fi.where, 'result is %r' % (md,))
    rr.require_floor(16)
    return rr


# ---------------------------------------------------------------------------
def rule_r9(repo, tier):
    rr = RuleResult('C01.R9', 'class filters (221 skip, associated field, class-33 linking) folded over X = 0..63')
    pm = repo.method('Decoder', 'process_members')
    pe = repo.method('Decoder', 'process_element_descriptor')
    consts = dict((k, repo.const('coder', k)) for k in ('QA_INFO_NA', 'QA_INFO_WAITING', 'QA_INFO_PROCESSING'))
    xs = range(64)
    for X in xs:
        did = X * 1000 + 1
        # (a) 221: data not present
        it = WalkInterp(repo, 'Decoder')
        res = it.run_function(pm, lambda: {'self': Obj('Decoder', {}), 'state': make_state(repo, it, {'data_not_present_count': 2}),
                                           'bit_operator': Top('b'), 'members': [element(did, unit='K')]}, self_class='Decoder')
        for r in res:
            em = [e for e in r.events if e[0] == 'emit']
            want = 1 if (1 <= X <= 9 or X == 31) else 0
            cnt = r.locals['state'].fields.get('data_not_present_count')
            if not r.ok or len(em) != want or cnt != 1:
                rr.fail('Coder.process_members:221', pm.where,
                        'under 221 an element of class %02d yields %d emissions (expected %d: only classes 01-09 and 31 are present) '
                        'and leaves the count at %r (expected 1)' % (X, len(em), want, cnt), witness={'X': X})
        # (b) associated field
        it = WalkInterp(repo, 'Decoder')
        res = it.run_function(pe, lambda: {'self': Obj('Decoder', {}), 'state': make_state(repo, it, {'nbits_of_associated': [4]}),
                                           'bit_operator': Top('b'), 'descriptor': element(did, unit='K')}, self_class='Decoder')
        for r in res:
            em = [e for e in r.events if e[0] == 'emit']
            want = 1 if X == 31 else 2
            if X == 33:
                continue
            if not r.ok or len(em) != want:
                rr.fail('Coder.process_element_descriptor:204-class', pe.where,
                        'with 204 in force an element of class %02d yields %d emissions (expected %d: class 31 carries no associated field)' % (X, len(em), want),
                        witness={'X': X})
        # (c) class-33 linking after 222000
        for status in ('QA_INFO_NA', 'QA_INFO_WAITING', 'QA_INFO_PROCESSING'):
            it = WalkInterp(repo, 'Decoder')
            res = it.run_function(pe, lambda: {'self': Obj('Decoder', {}),
                                               'state': make_state(repo, it, {'status_qa_info_follows': consts[status],
                                                                              'next_bitmapped_descriptor': NextBitmapped(element(12101))}),
                                               'bit_operator': Top('b'), 'descriptor': element(did, unit='K')}, self_class='Decoder')
            for r in res:
                links = [e for e in r.events if e[0] == 'link']
                st = r.locals['state'].fields.get('status_qa_info_follows')
                if X == 33:
                    want_links = 0 if status == 'QA_INFO_NA' else 1
                    want_st = consts['QA_INFO_NA'] if status == 'QA_INFO_NA' else consts['QA_INFO_PROCESSING']
                else:
                    want_links = 0
                    want_st = consts['QA_INFO_NA'] if status == 'QA_INFO_PROCESSING' else consts[status]
                if not r.ok or len(links) != want_links or st != want_st:
                    rr.fail('Coder.process_element_descriptor:222-class33', pe.where,
                            'class %02d element in QA status %s: %d links, status -> %r (expected %d links, status %r)' % (
                                X, status, len(links), st, want_links, want_st), witness={'X': X, 'status': status})
                if links:
                    # the link key is the flat index of the class-33 value itself (next emission)
                    em_before = 0
                    for e in r.events:
                        if e is links[0]:
                            break
                        if e[0] == 'emit':
                            em_before += 1
                    if links[0][1] != em_before:
                        rr.fail('Coder.process_element_descriptor:222-linkkey', pe.where, 'class-33 link key is %r, the value lands at flat index %d' % (links[0][1], em_before))
        rr.instance('class %02d: 221 filter, associated-field filter, class-33 linking' % X)
    rr.require_floor(64)
    return rr

def rule_reference(repo, rule='C01.R14'):
    """End-to-end fold on the concrete templates of rules/pipeline.py against an independent reading of each template by the FM-94
    rules (pipeline.reference_walk, written from the specification): the decoder walk, folded with a scripted reader, must ask for the
    same fields in the same order with the same kinds and widths, label them alike, turn the scripted raw values into the same
    numbers ((raw + reference) / 10**scale with 201 / 202 / 203 / 207 in force; 225255: width + 1, reference -2**width) and link
    the same attribute values to the same owners."""
    from sa.rules import pipeline as P
    from sa.rules.c09 import TextInterp
    rr = RuleResult(rule, 'decoder walk folded end to end on concrete templates against an independent FM-94 reading: fields, widths, labels, values, links')
    kind = {'read_uint_or_none': 'uint', 'read_uint': 'uint', 'read_int': 'int', 'read_bytes': 'bytes'}
    for name in sorted(P.templates()):
        members, script = P.templates()[name]
        if name == 'quality information while 204 is in force':
            pass        # (decoding is right here; only the hierarchical view is a known finding of C07 / C09)
        o = P.run_template(repo, name)
        key = 'reference:%s' % name.split(' (')[0].replace(' ', '-').replace(',', '')
        rr.instance('template "%s"' % name)
        if not o.decode.ok:
            rr.fail(key, 'pybufrkit/coder.py', 'template "%s": the decoder walk ends in %s' % (name, o.decode.exc.cls), witness={'template': name})
            continue
        ent, links, used = P.reference_walk(members, script)
        if used != len(script):
            raise AnalysisError('reference walk of "%s" uses %d of %d scripted values: the family entry is inconsistent' % (name, used, len(script)))
        it = TextInterp(repo, None)
        labels = []
        for d in o.descs:
            fi = repo.method(d.cls, '__str__')
            r = it.run_function(fi, lambda: {'self': d}, self_class=d.cls)
            labels.append(r[0].value if len(r) == 1 and r[0].ok else '?')
        want_labels = [e[0] for e in ent]
        want_vals = [e[3] for e in ent]
        want_reads = [(k, w) for _, k, w, _ in ent if k != 'const']
        got_reads = [(kind.get(m, m), a[0] if a else None) for m, a in o.reads]

        def same(a, b):
            if isinstance(a, float) or isinstance(b, float):
                return a is not None and b is not None and not isinstance(a, bytes) and not isinstance(b, bytes) and abs(a - b) <= 1e-9 * max(1.0, abs(a))
            return a == b and type(a) is type(b)
        problems = []
        if got_reads != want_reads:
            d = [(i, g, w) for i, (g, w) in enumerate(zip(got_reads, want_reads)) if g != w][:1] or [('count', len(got_reads), len(want_reads))]
            problems.append('fields read (kind, width) differ at %s: decoder %s, FM-94 %s' % d[0])
        if labels != want_labels:
            d = [(i, g, w) for i, (g, w) in enumerate(zip(labels, want_labels)) if g != w][:1] or [('count', len(labels), len(want_labels))]
            problems.append('labels differ at %s: decoder %s, FM-94 %s' % d[0])
        if len(o.vals) != len(want_vals) or not all(same(a, b) for a, b in zip(o.vals, want_vals)):
            d = [(i, g, w) for i, (g, w) in enumerate(zip(o.vals, want_vals)) if not same(g, w)][:1] or [('count', len(o.vals), len(want_vals))]
            problems.append('values differ at %s: decoder %r, FM-94 %r' % d[0])
        if dict(o.links) != links:
            problems.append('attribute links: decoder %s, FM-94 %s' % (dict(o.links), links))
        if problems:
            rr.fail(key, 'pybufrkit/coder.py', 'template "%s" with raw fields %s: %s' % (name, _short(script), '; '.join(problems)), witness={'template': name})
    rr.require_floor(15)
    return rr


def run(repo, check):
    check.run_rule(rule_r1, repo)
    check.run_rule(rule_r2, repo)
    check.run_rule(rule_r3, repo)
    check.run_rule(rule_r4, repo, check.tier)
    check.run_rule(rule_r5, repo)
    check.run_rule(rule_r6, repo)
    check.run_rule(rule_r7, repo)
    check.run_rule(rule_r8, repo)
    check.run_rule(rule_r9, repo, check.tier)
    from sa.rules import c07
    from sa.rules.common import share
    share(check, repo, c07.rule_r2, 'C01.R10', 'the bitmap designates the descriptors whose width and scale the marker values are decoded with (shared with C07.R2)')
    from sa.rules import c07 as _c07
    from sa.rules.common import share as _sh
    _sh(check, repo, _c07.rule_r3, 'C01.R11', 'values introduced by marker operators are decoded with the coding of the element the bitmap designates (225255: width + 1, '
        'reference -2**width), freshly derived for every message (shared with C07.R3)', args=(check.tier,))
    from sa.rules import c06 as _c06, c05 as _c05
    _sh(check, repo, _c06.rule_r1, 'C01.R12', 'operators in force (201, 202, 203, 204, 206, 207, 208, 221) end with the subset: every subset of an uncompressed message '
        'starts from the Table B coding (shared with C06.R1)', args=('C01.R12',),
        keep=lambda f: any(k in f.key for k in ('nbits_offset', 'scale_offset', 'new_refval', 'nbits_of_associated', 'skipped_local', 'bsr_modifier', 'new_nbytes',
                                                'data_not_present')))
    _sh(check, repo, _c05.rule_state_mode, 'C01.R13', 'the data section is read in the mode the header declares, whatever the number of subsets (shared with C05.R8)',
        args=('C01.R13',), keep=lambda f: 'Decoder' in f.key or 'CoderState' in f.key or 'decoder' in str(f.where))
    check.run_rule(rule_reference, repo)
    check.assumptions = ['bitstring reads the requested number of bits MSB first (trusted base)',
                         'Table B contents (width, scale, reference of each element) are data, not decided here',
                         'the frozen operator table (DESIGN appendix A.3) restates FM-94 regulation 94.5.3 / Table C']
