"""
C11  A byte stream is split into exactly the messages it contains (structural part).

decoder.generate_bufr_message is evaluated by PathEval against a scripted stream: an abstract byte
string with known signature positions (real message starts and decoys inside message bodies and
separators), and a scripted decoder whose outcome per start position (full decode ok / damaged data /
damaged header, declared and decoded lengths, data category, filter verdict) is fixed by the scenario.
The yielded sequence, the exceptions and the table-definition side effects are compared with the
outcome the property prescribes, for {full, info-only} x {no filter, filter} x {continue, stop}.

R1 scripted-stream fold                 R2 constants and anchoring (one signature constant, start_signature=None)
R3 command_split / command_info write and count what the scanner yields
"""
from __future__ import print_function

import ast

from sa.model import AnalysisError, norm
from sa.patheval import Interp, Native, Obj, Sym, Top, Raise, UnknownMethod
from sa.report import RuleResult

LIB = 'PyBufrKitError'


class Stream(Native):
    def __init__(self, length, sigs, stops=(), headers=None):
        self.length, self.sigs, self.stops = length, sorted(sigs), sorted(stops)
        self.headers = dict(headers or {})          # start of a real message -> total length declared in its section 0

    def regex_subject(self):
        """The octets of the stream, for a scanner that looks for message starts with a regular expression: start signature at every
        signature position (followed, for a real message, by the declared length and edition 4), '7777' at every stop position."""
        data = bytearray(b'.' * self.length)
        for p in self.stops:
            data[p:p + 4] = b'7777'
        for p in self.sigs:
            data[p:p + 4] = b'BUFR'
            if p in self.headers:
                data[p + 4:p + 7] = self.headers[p].to_bytes(3, 'big')
                data[p + 7] = 4
        return bytes(data[:self.length])

    def regex_searched(self, interp, method, start, mo):
        if method != 'search':
            raise AnalysisError('generate_bufr_message applies a regular expression to the stream with %s()' % method)
        found = -1 if mo is None else mo.start()
        interp.event('find', start)
        last = getattr(self, 'last_start', None)
        if last is not None and start <= last and getattr(self, 'last_found', -1) >= 0 and start <= self.last_found:
            interp.event('rescan', start, self.last_found)
            raise Raise('ScanDoesNotAdvance', None, 'stream model')
        self.last_start, self.last_found = start, found

    def __repr__(self):
        return 'Stream'

    def call_method(self, name, args, kwargs, interp, frame, node):
        if name == 'find':
            sig = args[0]
            start = args[1] if len(args) > 1 else 0
            if sig == interp.stop_signature and sig != interp.signature:
                # a search for the stop signature: answered truthfully (message ends and decoys inside bodies)
                interp.event('find_stop', start)
                for p in self.stops:
                    if isinstance(start, int) and p >= start:
                        return p
                return -1
            if sig != interp.signature:
                interp.event('find_other', sig)
                return -1
            if not isinstance(start, int):
                raise AnalysisError('generate_bufr_message searches from a non-concrete position %r' % (start,))
            last = getattr(self, 'last_start', None)
            interp.event('find', start)
            if last is not None and start <= last and getattr(self, 'last_found', -1) >= 0 and start <= self.last_found:
                # the search restarts at or before a signature it already found: the scan can never terminate
                interp.event('rescan', start, self.last_found)
                raise Raise('ScanDoesNotAdvance', None, 'stream model')
            self.last_start = start
            for p in self.sigs:
                if p >= start:
                    self.last_found = p
                    return p
            self.last_found = -1
            return -1
            for p in self.sigs:
                if p >= start:
                    return p
            return -1
        return Top('call:' + name)


class Msg(object):
    def __init__(self, start, length, full='ok', info='ok', category=0, n_subsets=1, matched=True, info_len=None, declared=None, foreign=False):
        self.start, self.length, self.full, self.info = start, length, full, info
        # data category 11, but not in the layout of a table-definition message: an ordinary message, nothing to register
        self.foreign = foreign
        self.category, self.n_subsets, self.matched = category, n_subsets, matched
        # octets a metadata-only decode consumes (it follows the section lengths, which may be the damaged ones)
        self.info_len = length - 4 if info_len is None else info_len
        # total length declared in section 0 (normally the real one)
        self.declared = length if declared is None else declared


class Scanner(Interp):
    MAX_PATHS = 200

    def __init__(self, repo, msgs, stream):
        Interp.__init__(self, repo, None)
        self.msgs = dict((m.start, m) for m in msgs)
        self.stream = stream
        self.signature = repo.const('constants', 'MESSAGE_START_SIGNATURE')
        self.stop_signature = repo.const('constants', 'MESSAGE_STOP_SIGNATURE')

    def builtin(self, name, args, kwargs, node, frame):
        if name == 'len' and args:
            a = args[0]
            if isinstance(a, Stream):
                return a.length
            if isinstance(a, Obj) and a.cls == 'Span':
                return a.fields['stop'] - a.fields['start']
        return Interp.builtin(self, name, args, kwargs, node, frame)

    def on_subscript(self, base, idx, node, frame):
        if isinstance(base, Stream) and isinstance(idx, tuple) and idx[0] == 'slice':
            lo = 0 if idx[1] is None else idx[1]
            hi = base.length if idx[2] is None else idx[2]
            if not isinstance(lo, int) or not isinstance(hi, int):
                raise AnalysisError('generate_bufr_message slices the stream at a non-concrete position')
            return Obj('Span', {'start': lo, 'stop': min(hi, base.length), 'open_end': idx[2] is None})
        if isinstance(base, Obj) and base.cls == 'Span' and isinstance(idx, tuple) and idx[0] == 'slice':
            # a slice of a slice: positions relative to the first one
            n = base.fields['stop'] - base.fields['start']
            lo = 0 if idx[1] is None else idx[1]
            hi = n if idx[2] is None else idx[2]
            if not isinstance(lo, int) or not isinstance(hi, int) or lo < 0 or hi < 0 or idx[3] is not None:
                raise AnalysisError('generate_bufr_message slices a part of the stream at a position the stream model cannot follow (%r)' % (idx[1:],))
            return Obj('Span', {'start': base.fields['start'] + min(lo, n), 'stop': base.fields['start'] + min(hi, n),
                                'open_end': idx[2] is None and base.fields.get('open_end', False)})
        return self.NOT_HANDLED

    def on_call(self, text, callee, args, kwargs, node, frame):
        if text == 'ScriptRunner':
            return Obj('ScriptRunnerStub', {})
        # (recognised by the scripted receiver, not by the name of the variable that holds it)
        recv_cls = callee.recv.cls if isinstance(callee, UnknownMethod) and isinstance(callee.recv, Obj) else None
        if text == 'sr.run' or (recv_cls == 'ScriptRunnerStub' and callee.name == 'run'):
            m = args[0]
            self.event('filter', m.fields['__start'], m.fields['__mode'])
            return self.msgs[m.fields['__start']].matched
        if recv_cls == 'Span' and callee.name == 'find':
            # a search inside a slice of the stream: the answer is relative to the slice
            span, sig = callee.recv, args[0]
            frm = args[1] if len(args) > 1 else 0
            if not isinstance(frm, int) or frm < 0:
                raise AnalysisError('generate_bufr_message searches a part of the stream from a non-concrete position %r' % (frm,))
            p = self.stream.call_method('find', [sig, span.fields['start'] + frm], {}, self, frame, node)
            if not isinstance(p, int) or p < 0 or p + 4 > span.fields['stop']:
                return -1
            return p - span.fields['start']
        if text == 'decoder.process' or (recv_cls == 'DecoderStub' and callee.name == 'process'):
            span = args[0]
            info_only = kwargs.get('info_only', False)
            if not (isinstance(span, Obj) and span.cls == 'Span'):
                self.event('decode_arg', repr(span))
                raise Raise('BitReadError', node, self.where(node, frame))
            st = span.fields['start']
            if 'start_signature' not in kwargs and len(args) < 3:
                # Decoder.process with its default start signature skips to the first signature of its input by itself
                nxt = [p for p in self.stream.sigs if st <= p and p + 4 <= span.fields['stop']]
                if not nxt:
                    self.event('decode_arg', 'no signature in the input')
                    raise Raise(LIB, node, self.where(node, frame))
                st = min(nxt)
            avail = span.fields['stop'] - st
            self.event('decode', st, 'info' if info_only else 'full', kwargs.get('start_signature', 'DEFAULT'), getattr(self.stream, 'last_found', None),
                       kwargs.get('file_path', args[1] if len(args) > 1 else None))
            mgr = callee.recv.fields.get('compiled_template_manager') if isinstance(callee, UnknownMethod) and isinstance(callee.recv, Obj) else None
            if isinstance(mgr, Obj):
                # what the decoder's compiled-template cache holds when this decode starts (C20.R2)
                cache = mgr.fields.get('cache')
                self.event('compiled_cache', st, sorted(repr(v) for v in cache.values()) if isinstance(cache, dict) else repr(cache))
            m = self.msgs.get(st)
            if m is None:
                raise Raise('BitReadError', node, self.where(node, frame))      # garbage after a decoy signature
            out = m.info if info_only else m.full
            if out != 'ok':
                raise Raise(out, node, self.where(node, frame))
            n = m.info_len if info_only else m.length
            if avail < n:
                # the decoder was handed less than the message occupies: it runs off the end of its input
                self.event('truncated_input', st, avail, n)
                raise Raise('BitReadError', node, self.where(node, frame))
            return Obj('BufrMessage', {'__start': st, '__mode': 'info' if info_only else 'full',
                                       'length': Obj('P', {'value': m.declared}), 'serialized_bytes': Obj('Span', {'start': st, 'stop': st + n}),
                                       'data_category': Obj('P', {'value': m.category}), 'n_subsets': Obj('P', {'value': m.n_subsets})})
        if text == 'BufrTableDefinitionProcessor':
            return Obj('TableProcessorStub', {})
        if text.endswith('.process') and isinstance(callee, UnknownMethod) and isinstance(callee.recv, Obj) and callee.recv.cls == 'TableProcessorStub':
            m = args[0]
            if self.msgs[m.fields['__start']].foreign:
                self.event('tables_refused', m.fields['__start'], m.fields['__mode'])
                raise Raise(LIB, node, self.where(node, frame))
            self.event('tables', m.fields['__start'], m.fields['__mode'])
            return (Sym('A'), Sym('B_ENTRIES'), Sym('D_ENTRIES'))
        if text in ('TableGroupCacheManager.invalidate', 'TableGroupCacheManager.add_extra_entries'):
            self.event(text.split('.')[1], [repr(a) for a in args])
            return None
        if text == 'print':
            return None
        return self.NOT_HANDLED

    def on_while(self, node, frame):
        return self.unroll_while(node, frame, 400)

    def ev_Yield(self, e, frame):
        # a message is handed out: its bytes are taken as they are now, and the consumer then does with the object what it likes
        # (here: empties its bytes) - the scan may not depend on it afterwards
        v = self.ev(e.value, frame) if e.value is not None else None
        span = None
        if isinstance(v, Obj) and isinstance(v.fields.get('serialized_bytes'), Obj):
            sb = v.fields['serialized_bytes']
            span = (sb.fields.get('start'), sb.fields.get('stop'))
        self.event('yield', v, span)
        if isinstance(v, Obj) and 'serialized_bytes' in v.fields:
            v.fields['serialized_bytes'] = Obj('Span', {'start': 0, 'stop': 0, 'open_end': False})
        return None


def scenario():
    """Stream layout (positions in octets); decoys are signatures that do not start a message."""
    msgs = [
        Msg(7, 100, matched=True),
        Msg(110, 80, matched=False),                               # body contains a decoy signature at 130
        Msg(190, 60, full='BitReadError', matched=True, info_len=75),   # section 4 length damaged (increased): data unreadable, header intact
        Msg(250, 50, category=11, n_subsets=3, matched=False),     # table definitions
        Msg(300, 40, full=LIB, info=LIB, matched=True),            # damaged header: even the metadata decode fails
        Msg(345, 35, matched=True, declared=31),                   # intact sections, section-0 total understated
        Msg(385, 30, category=11, n_subsets=2, matched=True, foreign=True),   # data category 11 in another layout: a message like any other
        Msg(420, 25, matched=True),
        Msg(450, 266, matched=True),                               # 266 = 0x00010A: the length octets contain a line feed
        Msg(720, 30, matched=True),
    ]
    decoys = [130, 320]
    # stop signatures: the real end of every message, and the characters '7777' inside the bodies of two messages
    stops = [m.start + m.length - 4 for m in msgs] + [50, 150]
    stream = Stream(753, [m.start for m in msgs] + decoys, stops, headers=dict((m.start, m.declared) for m in msgs))
    return msgs, stream


def expected(msgs, info_only, use_filter, cont):
    """What the property prescribes: [(start, first byte, last byte+1, mode)], final exception, table events."""
    ys, tables = [], []
    exc = None
    for m in msgs:
        if info_only:
            if m.info != 'ok':
                if not cont:
                    exc = m.info
                    break
                continue
            if (not use_filter) or m.matched:
                ys.append((m.start, m.start, m.start + m.declared, 'info'))
            continue
        # full decoding
        if use_filter:
            if m.info != 'ok':
                if not cont:
                    exc = m.info
                    break
                continue
            if not m.matched:
                if m.category == 11 and m.n_subsets > 0 and m.full == 'ok' and not m.foreign:
                    tables.append((m.start, 'full'))
                continue
        if m.full != 'ok':
            if not cont:
                exc = m.full
                break
            continue
        if m.category == 11 and m.n_subsets > 0 and not m.foreign:
            tables.append((m.start, 'full'))
        ys.append((m.start, m.start, m.start + m.length, 'full'))
    return ys, exc, tables


KINDS = ('ok', 'unmatched', 'damaged-data', 'damaged-header', 'tables', 'tables-unmatched')


def generated_scenario(kinds):
    """A stream made of the given message kinds, separated by short signature-free gaps; bodies of intact messages carry decoys."""
    msgs, decoys, stops = [], [], []
    pos = 3
    for i, k in enumerate(kinds):
        length = 40 + 8 * i
        kw = {}
        if k == 'unmatched':
            kw = dict(matched=False)
        elif k == 'damaged-data':
            kw = dict(full='BitReadError', info_len=length + 9)
        elif k == 'damaged-header':
            kw = dict(full=LIB, info=LIB)
        elif k == 'tables':
            kw = dict(category=11, n_subsets=2)
        elif k == 'tables-unmatched':
            kw = dict(category=11, n_subsets=2, matched=False)
        msgs.append(Msg(pos, length, **kw))
        if k in ('ok', 'unmatched', 'tables'):
            decoys.append(pos + 12)
            stops.append(pos + 20)
        stops.append(pos + length - 4)
        pos += length + (i % 3)
    return msgs, Stream(pos + 24, [m.start for m in msgs] + decoys, stops, headers=dict((m.start, m.declared) for m in msgs))


def rule_r1(repo, tier='quick'):
    rr = RuleResult('C11.R1', 'stream scanner folded over a scripted stream: yields, exceptions and table side effects per mode')
    fi = repo.func('decoder', 'generate_bufr_message')
    import itertools
    scenarios = [('curated', scenario)]
    if tier == 'thorough':
        for n in (1, 2, 3, 4):
            for kinds in itertools.product(KINDS, repeat=n):
                scenarios.append(('/'.join(kinds), (lambda kk: (lambda: generated_scenario(kk)))(kinds)))
    for sname, make in scenarios:
      for info_only in (False, True):
        for use_filter in (False, True):
            for cont in (True, False):
                msgs, stream = make()
                it = Scanner(repo, msgs, stream)
                res = it.run_function(fi, lambda: {'decoder': Obj('DecoderStub', {}), 's': stream, 'info_only': info_only, 'continue_on_error': cont,
                                                   'filter_expr': 'EXPR' if use_filter else None, 'args': (), 'kwargs': {'file_path': 'FILE'}})
                name = '%s, %s, %s' % ('info-only' if info_only else 'full', 'filter' if use_filter else 'no filter', 'continue on error' if cont else 'stop on error')
                if sname != 'curated':
                    name = 'stream [%s]: %s' % (sname, name)
                else:
                    rr.instance('scan (%s)' % name)
                if len(res) != 1:
                    rr.fail('generate_bufr_message:paths', fi.where, '%s: %d paths on a fully scripted stream' % (name, len(res)))
                    continue
                r = res[0]
                wy, wexc, wtab = expected(msgs, info_only, use_filter, cont)
                ys = []
                for e in r.events:
                    if e[0] == 'yield':
                        # (the bytes of the message as they are when it is handed out - the consumer may do with it what it likes)
                        m, span = e[1], (e[2] if len(e) > 2 else None)
                        ys.append((m.fields['__start'], span[0] if span else None, span[1] if span else None, m.fields['__mode']))
                tabs = [(e[1], e[2]) for e in r.events if e[0] == 'tables']
                gexc = None if r.ok else r.exc.cls
                key = 'generate_bufr_message:%s:%s' % ('info' if info_only else 'full', 'filter' if use_filter else 'nofilter')
                if gexc == 'ScanDoesNotAdvance':
                    rs = [e for e in r.events if e[0] == 'rescan']
                    rr.fail(key + ':search-restart', fi.where, '%s: the signature search restarts at octet %s although the signature at %s was already handled: the '
                            'same message is found again and again' % (name, rs[0][1] if rs else '?', rs[0][2] if rs else '?'), witness={'scenario': name})
                    continue
                if gexc is not None and not (repo.has_cls(gexc) and repo.is_subclass(gexc, LIB)):
                    rr.fail(key + ':foreign-error', fi.where, '%s: the scan ends with %s, which is not a library error' % (name, gexc), witness={'scenario': name})
                    continue
                if ys != wy:
                    rr.fail(key + ':yields', fi.where, '%s: yields %s; the stream contains %s' % (name, ys, wy), witness={'scenario': name})
                if (gexc is None) != (wexc is None):
                    rr.fail(key + ':exception', fi.where, '%s: ends with %s (expected %s)' % (name, gexc or 'normal return', wexc or 'normal return'), witness={'scenario': name})
                lost = [e for e in r.events if e[0] == 'decode' and len(e) > 5 and e[5] != 'FILE']
                if lost:
                    rr.fail(key + ':options', fi.where, '%s: the decode at octet %s (%s pass) is not given the file_path the scan was called with (got %r): every decoding pass of a '
                            'scan takes the caller\'s options' % (name, lost[0][1], lost[0][2], lost[0][5]), witness={'scenario': name})
                if tabs != wtab:
                    rr.fail(key + ':tables', fi.where, '%s: table definitions taken from %s (expected %s: only from a fully decoded definition message)' % (name, tabs, wtab),
                            witness={'scenario': name})
                # no decode may be anchored anywhere but at a found signature, and never with a start signature search
                dec = [e for e in r.events if e[0] == 'decode']
                for e in dec:
                    # (whether the decoder is told not to search - start_signature=None - or is handed input that begins with the
                    # signature makes no difference; what counts is where the decoding starts)
                    if len(e) > 4 and e[4] is not None and e[4] >= 0 and e[1] != e[4]:
                        rr.fail(key + ':anchor', fi.where, '%s: the scanner found a start signature at %s and the decoder starts decoding at %s; the scanner must decode '
                                'exactly at the position it found' % (name, e[4], e[1]))
                bad = [e for e in r.events if e[0] == 'decode_arg']
                if bad:
                    rr.fail(key + ':slice', fi.where, '%s: the decoder is given %s instead of the rest of the stream from the found signature' % (name, bad[0][1]))
                if sname == 'curated' and any(e[1] == 130 for e in dec):
                    rr.fail(key + ':inner-signature', fi.where, '%s: a start signature inside the body of a message is decoded as a new message' % name)
                after = [e for e in r.events if e[0] in ('invalidate', 'add_extra_entries')]
                if wtab and tabs == wtab and ([e[0] for e in after] != ['invalidate', 'add_extra_entries'] * len(wtab) or any(e[0] == 'invalidate' and e[1] for e in after)):
                    rr.fail(key + ':tables-registration', fi.where, '%s: after extracting table definitions the scanner performs %s (expected invalidate, then add_extra_entries)' % (
                        name, [e[0] for e in after]))
    if len(scenarios) > 1:
        rr.instance('%d generated streams (all sequences of 1..4 messages over %d kinds) x 8 modes' % (len(scenarios) - 1, len(KINDS)))
    rr.extra = {'streams': len(scenarios), 'folds': len(scenarios) * 8}
    rr.require_floor(8)
    return rr


def rule_r2(repo):
    rr = RuleResult('C11.R2', 'one start signature: the scanner, the decoder default and section 0 agree')
    sig = repo.const('constants', 'MESSAGE_START_SIGNATURE')
    stop = repo.const('constants', 'MESSAGE_STOP_SIGNATURE')
    exp0 = [p.get('expected') for p in repo.layout(0, None)['parameters'] if p['name'] == 'start_signature']
    exp5 = [p.get('expected') for p in repo.layout(5, None)['parameters']]
    rr.instance('MESSAGE_START_SIGNATURE %r, section 0 expects %r' % (sig, exp0))
    if sig != b'BUFR' or exp0 != ['BUFR']:
        rr.fail('signature:start', 'pybufrkit/constants.py', 'the scanner searches %r but section 0 expects %r' % (sig, exp0))
    rr.instance('MESSAGE_STOP_SIGNATURE %r, section 5 expects %r' % (stop, exp5))
    if stop != b'7777' or exp5 != ['7777']:
        rr.fail('signature:stop', 'pybufrkit/constants.py', 'stop signature constant %r, section 5 expects %r' % (stop, exp5))
    proc = repo.own_method('Decoder', 'process')
    d = dict(zip(proc.params[-len(proc.defaults):], [norm(x) for x in proc.defaults]))
    rr.instance('Decoder.process default start_signature = %s' % d.get('start_signature'))
    if d.get('start_signature') != 'MESSAGE_START_SIGNATURE':
        rr.fail('signature:decoder-default', proc.where, 'Decoder.process searches for %s by default' % d.get('start_signature'))
    # (that the scanner searches for this constant, from the current position, is decided by the fold in R1: the stream model answers
    #  only searches for MESSAGE_START_SIGNATURE and reports a search that restarts before a signature already handled)
    rr.require_floor(3)
    return rr


def rule_r3(repo):
    rr = RuleResult('C11.R3', 'command_split writes the yielded bytes unmodified; counting counts yields')
    fi = repo.func('commands', 'command_split')

    from sa.patheval import Stub

    class I(Interp):
        # files are scripted objects that remember their name: which variables hold them, or whether reading / writing was moved into
        # helpers, does not matter
        def on_call(self, text, callee, args, kwargs, node, frame):
            it = self
            if text == 'Decoder':
                return Stub('decoder')
            if text == 'open':
                name = args[0] if args else kwargs.get('file')

                def read(interp, a, kw, node, frame):
                    return Sym('STREAM')

                def write(interp, a, kw, node, frame):
                    it.event('write', repr(a[0]) if a else None, name)
                    return None
                return Stub('file', {'read': read, 'write': write}, attrs={'name': name})
            if text == 'generate_bufr_message':
                self.event('scan', [repr(a) for a in args], dict((k, repr(v)) for k, v in kwargs.items()))
                return [Stub('message 0', attrs={'serialized_bytes': Sym('BYTES0')}), Stub('message 1', attrs={'serialized_bytes': Sym('BYTES1')})]
            if text == 'print':
                return None
            return self.NOT_HANDLED
    it = I(repo, None)
    ns = Obj('Namespace', {'filenames': ['f.bufr'], 'definitions_directory': None, 'tables_root_directory': None, 'continue_on_error': False})
    res = it.run_function(fi, lambda: {'ns': ns})
    rr.instance('command_split on a two-message file')
    for r in res:
        wr = [(e[1], e[2]) for e in r.events if e[0] == 'write']
        sc = [e for e in r.events if e[0] == 'scan']
        if not r.ok or wr != [('BYTES0', 'f.bufr.0'), ('BYTES1', 'f.bufr.1')]:
            rr.fail('commands.command_split:writes', fi.where, 'the split pieces are written as %s (%s); expected each message\'s serialized_bytes to <file>.<k>' % (wr, r.describe()))
        if sc and sc[0][2].get('info_only') != 'True':
            rr.fail('commands.command_split:mode', fi.where, 'command_split scans with %s' % sc[0][2])
    # counting (info -c): one line per file with the number of messages the scan yields for *that* file
    ci = repo.func('commands', 'command_info')
    per_file = {'three.bufr': 3, 'none.bufr': 0, 'one.bufr': 1}

    class C(Interp):
        def on_call(self, text, callee, args, kwargs, node, frame):
            it = self
            if text in ('Decoder', 'FlatTextRenderer'):
                return Stub(text)
            if text == 'open':
                name = args[0] if args else kwargs.get('file')
                return Stub('file', {'read': lambda interp, a, kw, node, frame: Sym('STREAM:%s' % name)}, attrs={'name': name})
            if text == 'generate_bufr_message':
                src = repr(args[1]) if len(args) > 1 else ''
                name = src.split(':', 1)[1] if src.startswith('STREAM:') else None
                self.event('scan', name, dict((k, repr(v)) for k, v in kwargs.items()))
                return [Stub('message %d of %s' % (k, name)) for k in range(per_file.get(name, 0))]
            if text == 'print':
                self.event('print', args[0] if args else None)
                return None
            return self.NOT_HANDLED

        def builtin(self, name, args, kwargs, node, frame):
            if name == 'print':
                self.event('print', args[0] if args else None)
                return None
            return Interp.builtin(self, name, args, kwargs, node, frame)
    for order in (['three.bufr', 'none.bufr', 'one.bufr'], ['none.bufr', 'three.bufr'], ['one.bufr', 'one.bufr', 'none.bufr']):
        it = C(repo, None)
        ns = Obj('Namespace', {'filenames': list(order), 'definitions_directory': None, 'tables_root_directory': None, 'continue_on_error': False,
                               'multiple_messages': False, 'count_only': True, 'template': False})
        res = it.run_function(ci, lambda: {'ns': ns})
        rr.instance('command_info -c on %s' % order)
        want = ['%s: %d' % (f, per_file[f]) for f in order]
        for r in res:
            got = [e[1] for e in r.events if e[0] == 'print']
            if not r.ok or got != want:
                rr.fail('commands.command_info:count', ci.where, 'counting the messages of %s prints %s (%s); expected %s: each file is counted on its own' % (order, got, r.describe(), want),
                        witness={'files': order})
    rr.require_floor(1)
    return rr


def run(repo, check):
    check.run_rule(rule_r1, repo, check.tier)
    check.run_rule(rule_r2, repo)
    check.run_rule(rule_r3, repo)
    from sa.rules import c04, c17
    r4 = check.call(c04.rule_r3, repo, 'quick')
    r4.rule = 'C11.R4'
    r4.title = 'the decoder consumes exactly the declared extent of every section, so a decode reports the span the scanner advances by (shared with C04.R3)'
    r4.findings = [f for f in r4.findings if f.key.startswith('Decoder.')]
    for f in r4.findings:
        f.rule = 'C11.R4'
    check.add(r4)
    r5 = check.call(c17.rule_r2, repo)
    r5.rule = 'C11.R5'
    r5.title = 'filter expressions over metadata read the section they name (shared with C17.R2)'
    for f in r5.findings:
        f.rule = 'C11.R5'
    check.add(r5)
    from sa.rules.common import share
    share(check, repo, c17.rule_r3, 'C11.R6', 'decoder options never rewrite the section layouts later messages of the stream are read with (shared with C17.R3)')
    from sa.rules import c18
    share(check, repo, c18.rule_r7, 'C11.R7', 'a filter expression is evaluated with its query variables as the global namespace, on the message being tested (shared with C18.R7)')
    from sa.rules import c13 as _c13
    share(check, repo, _c13.rule_r3, 'C11.R8', 'the decoder a stream is scanned with keeps nothing from one message to the next (shared with C13.R3)',
          keep=lambda f: 'Decoder' in f.key or 'Coder.' in f.key or 'Coder:' in f.key)
    from sa.rules import c20 as _c20
    share(check, repo, _c20.rule_r6, 'C11.R9', 'a message of data category 11 in any other layout is refused by the definition processor with the library error the scanner '
          'absorbs, so it is delivered like any other message (shared with C20.R6)')
    check.assumptions = ['the scripted decoder stands for Decoder.process: it succeeds exactly at real message starts, reports the decoded span (C04.R4) and '
                         'raises a library error on damaged input (C12); the scanner logic is what is decided here',
                         'the boundaries found in a particular byte string are a runtime fact']
