"""
C08  Template compilation preserves behaviour (structural part).

R1 record / replay agreement: recorded method names exist on the runtime receiver with the right arity
R2 override completeness: every state method the generic walk calls is recorded by CompilerState
R4 JSON closure: to_dict -> load_*_from_dict is the identity on every recorded statement kind
R5 cache-key completeness
R6 compile / replay differential: for a finite family of abstract templates the emission trace of
   `compile then process_statements` equals the trace of the plain walk (translation validation of the
   compiler by abstract interpretation; nothing is executed)
"""
from __future__ import print_function

import ast
import itertools

from sa.model import AnalysisError, norm, effects, recorded_method_names
from sa.patheval import Interp, Native, Obj, Sym, Top, Raise, FuncRef, UnknownMethod, ClassRef, _Ctrl
from sa.report import RuleResult
from sa.rules.walk import WalkInterp, make_state, element, operator, NextBitmapped, DescList, EMIT, QUERY


# ---------------------------------------------------------------------------
class TraceInterp(WalkInterp):
    """Walk interpreter for plain runs, compile runs and replay runs."""
    LIST_CAP = 400
    MAX_PATHS = 600

    def on_call(self, text, callee, args, kwargs, node, frame):
        if text == 'get_func_name':
            return frame.fi.name
        if isinstance(callee, FuncRef) and callee.fi.cls is not None and callee.fi.cls.name == 'CoderState' \
                and callee.fi.name == 'build_bitmapped_descriptors':
            st = callee.bound
            self.event('build', repr(st.fields.get('back_referenced_descriptors')), st.fields.get('back_reference_boundary'),
                       repr(args[0]) if args else None)
            st.fields['back_referenced_descriptors'] = 'BUILT@%d' % len([e for e in self.path.events if e[0] == 'build'])
            st.fields['bitmapped_descriptors'] = 'BITMAPPED'
            st.fields['next_bitmapped_descriptor'] = NextBitmapped(element(12101))
            return None
        if isinstance(callee, FuncRef) and callee.fi.cls is not None and callee.fi.cls.name == 'CoderState' \
                and callee.fi.name == 'recall_bitmap':
            st = callee.bound
            self.event('recall', repr(st.fields.get('bitmapped_descriptors')))
            st.fields['next_bitmapped_descriptor'] = NextBitmapped(element(12101))
            return st.fields.get('bitmap')
        if isinstance(callee, FuncRef) and callee.fi.cls is not None and callee.fi.name == 'define_bitmap' \
                and callee.fi.cls.name in ('Decoder', 'Encoder'):
            # run the real define_bitmap (it reads n_031031 and the reuse flag)
            return self.NOT_HANDLED
        r = WalkInterp.on_call(self, text, callee, args, kwargs, node, frame)
        if r is None and isinstance(callee, FuncRef) and callee.fi.name == 'process_new_refval' and callee.fi.cls is not None \
                and self.repo.is_subclass(callee.fi.cls.name, 'Coder') and callee.fi.cls.name != 'TemplateCompiler' and len(args) >= 3:
            # side effect of the real primitive (decided by C01.R10 / C02): state.new_refvals[descriptor.id] = value read / written
            st, d = args[0], args[2]
            if isinstance(st, Obj) and isinstance(st.fields.get('new_refvals'), dict) and isinstance(d, Obj):
                st.fields['new_refvals'][d.fields.get('id')] = Sym('NEWREF')
        return r

    def on_subscript(self, base, idx, node, frame):
        if isinstance(base, Sym) and isinstance(idx, tuple) and idx and idx[0] == 'slice':
            return Sym('slice', base, _n(idx[1]), _n(idx[2]))
        return self.NOT_HANDLED

    def on_while(self, node, frame):
        # (an executor written with an explicit work stack instead of recursion)
        return self.unroll_while(node, frame, 400)

    def on_with(self, node, frame):
        # `with state.new_loop(repeat):` -- the contextmanager of CompilerState, modelled natively
        if len(node.items) == 1:
            ce = node.items[0].context_expr
            if isinstance(ce, ast.Call) and isinstance(ce.func, ast.Attribute) and ce.func.attr == 'new_loop':
                st = self.ev(ce.func.value, frame)
                repeat = self.ev(ce.args[0], frame)
                loop = Obj('Loop', {'repeat': repeat, 'statements': []})
                stack = st.fields['block_stack']
                stack[-1].fields['statements'].append(loop)
                stack.append(loop)
                c = self.block(node.body, frame)
                stack.pop()
                return c
        return self.NOT_HANDLED


def _n(v):
    return Sym('None') if v is None else v


def base_state_over():
    return {'next_bitmapped_descriptor': NextBitmapped(element(12101)), 'decoded_values': Sym('VALUES')}


def _mk_state(repo, it, cls, extra=None):
    over = base_state_over()
    if extra:
        over.update(extra)
    st = make_state(repo, it, over, cls=cls)
    # define_bitmap is a QUERY for the generic walk interpreter; here it must run
    return st


class NoQuery(TraceInterp):
    """define_bitmap / delayed factor: the factor stays a query, define_bitmap is inlined."""

    def on_call(self, text, callee, args, kwargs, node, frame):
        if isinstance(callee, FuncRef) and callee.fi.cls is not None and callee.fi.name == 'define_bitmap' \
                and callee.fi.cls.name in ('Decoder', 'Encoder'):
            self.event('define_bitmap', repr(args[1]) if len(args) > 1 else None)
            return self.call_function(callee.fi, [callee.bound] + list(args), kwargs, node, frame)
        return TraceInterp.on_call(self, text, callee, args, kwargs, node, frame)


def dkey(d):
    if isinstance(d, Obj):
        f = d.fields
        extra = ()
        if d.cls in ('AssociatedDescriptor', 'SkippedLocalDescriptor'):
            extra = (f.get('nbits'),)
        if d.cls == 'MarkerDescriptor':
            extra = (f.get('marker_id'), repr(f.get('nbits')), repr(f.get('refval')))
        return (d.cls, f.get('id')) + extra
    return repr(d)


def trace_of(events):
    out = []
    for e in events:
        if e[0] == 'emit':
            out.append(('emit', e[1], dkey(e[2][0]), tuple(repr(a) for a in e[2][1:])))
        elif e[0] == 'query':
            out.append(('query', e[1]))
        elif e[0] == 'link':
            out.append(('link', repr(e[1]), repr(e[2])))
        elif e[0] in ('build', 'recall', 'define_bitmap', 'next_bitmapped'):
            out.append(tuple(e[:4]))
        elif e[0] in ('loop_begin', 'loop_end'):
            out.append((e[0],))
        elif e[0] == 'store' and e[1] in ('bitmap',):
            out.append(('store', e[1], repr(e[2])))
    # drop empty loops
    changed = True
    while changed:
        changed = False
        for i in range(len(out) - 1):
            if out[i] == ('loop_begin',) and out[i + 1] == ('loop_end',):
                del out[i:i + 2]
                changed = True
                break
    return tuple(out)


def new_coder(repo, it, cls):
    """The coder object as its constructor leaves it: cls.__init__ folded with its defaults (collaborators that are not part of the
    walk are stubs).  A constructor that cannot be folded to one object leaves a bare object (attributes then read as unknown)."""
    init = repo.method(cls, '__init__', required=False)
    if init is None:
        return Obj(cls, {})
    try:
        nd = len(init.defaults)
        loc = {'self': Obj(cls, {})}
        for i, p in enumerate(init.params[1:], start=1):
            di = i - (len(init.params) - nd)
            loc[p] = ast.literal_eval(init.defaults[di]) if di >= 0 else None
        res = InitInterp(repo, cls).run_function(init, lambda: dict(loc), self_class=cls)
        ok = [r for r in res if r.ok]
        if len(ok) >= 1:
            return ok[0].locals['self']
    except (AnalysisError, ValueError):
        pass
    return Obj(cls, {})


class InitInterp(Interp):
    def on_call(self, text, callee, args, kwargs, node, frame):
        if text in ('SectionConfigurer', 'CompiledTemplateManager') or text.startswith('log.'):
            return Obj(text + 'Stub', {}) if not text.startswith('log.') else None
        return self.NOT_HANDLED


def run_plain(repo, members, coder='Decoder', state_extra=None):
    fi = repo.method(coder, 'process_members')
    it = NoQuery(repo, coder)
    res = it.run_function(fi, lambda: {'self': new_coder(repo, it, coder), 'state': _mk_state(repo, it, 'CoderState', state_extra),
                                       'bit_operator': Top('b'), 'members': list(members)}, self_class=coder)
    return res


def run_compile(repo, members):
    """Statements recorded by TemplateCompiler.process_members.  Returns [(ok, statements or exc)] per path."""
    fi = repo.method('TemplateCompiler', 'process_members')
    it = TraceInterp(repo, 'TemplateCompiler')
    box = []

    def mk():
        root = Obj('CompiledTemplate', {'statements': []})
        st = make_state(repo, it, {'block_stack': [root], 'decoded_values': Sym('VALUES')}, cls='CompilerState')
        # whatever else CompilerState.__init__ sets up (beyond the registers of CoderState and the block stack) is taken from its fold
        cinit = repo.own_method('CompilerState', '__init__', required=False) if hasattr(repo, 'own_method') else None
        if cinit is not None:
            try:
                tg = Obj('TableGroupStub', {'key': Sym('TGKEY')})
                res0 = InitInterp(repo, 'CompilerState').run_function(
                    cinit, lambda: {'self': Obj('CompilerState', {}), cinit.params[1]: tg, cinit.params[2]: Obj('BufrTemplateStub', {})}, self_class='CompilerState')
                ok0 = [r for r in res0 if r.ok]
                if ok0:
                    for k, v in ok0[0].locals['self'].fields.items():
                        if k not in st.fields:
                            st.fields[k] = v
            except (AnalysisError, IndexError, TypeError):
                pass
        box.append(root)
        return {'self': new_coder(repo, it, 'TemplateCompiler'), 'state': st, 'bit_operator': None, 'members': list(members)}
    res = it.run_function(fi, mk, self_class='TemplateCompiler')
    out = []
    for r, root in zip(res, box):
        out.append((r, root.fields['statements']))
    return out


def run_replay(repo, statements, coder='Decoder', state_extra=None):
    fi = repo.func('templatecompiler', 'process_statements')
    it = NoQuery(repo, coder)
    res = it.run_function(fi, lambda: {'coder': new_coder(repo, it, coder), 'state': _mk_state(repo, it, 'CoderState', state_extra),
                                       'bit_operator': Top('b'), 'statements': statements}, self_class=coder)
    return res


# ---------------------------------------------------------------------------
def E(i=12101, unit='K'):
    return element(i, unit=unit)


def OP(x):
    return operator(x // 1000, x % 1000)


def BITS(n=1):
    return Obj('DelayedReplicationDescriptor', {'id': 101000, 'members': [element(31031, unit='FLAG TABLE')], 'factor': element(31001, unit='NUMERIC')})


def FIX(n, *members):
    return Obj('FixedReplicationDescriptor', {'id': 100000 + len(members) * 1000 + n, 'members': list(members)})


def DEL(*members):
    return Obj('DelayedReplicationDescriptor', {'id': 100000 + len(members) * 1000, 'members': list(members), 'factor': element(31001, unit='NUMERIC')})


def SEQ(*members):
    return Obj('SequenceDescriptor', {'id': 301001, 'name': 'seq', 'members': list(members)})


B1 = lambda: element(31031, unit='FLAG TABLE')
Q = lambda: element(33007, unit='CODE TABLE')
S = lambda: element(1015, unit='CCITT IA5')


def curated_templates():
    t = {}
    t['plain elements'] = [E(), S(), E(20003, 'CODE TABLE')]
    t['201/202 scope'] = [E(), OP(201130), OP(202129), E(), OP(202000), OP(201000), E()]
    t['207 scope'] = [OP(207002), E(), S(), OP(207000), E()]
    t['208 scope'] = [OP(208003), S(), OP(208000), S()]
    t['203 definition and use'] = [OP(203012), E(), OP(203255), E(), OP(203000), E()]
    t['203 with 207'] = [OP(203012), E(), OP(203255), OP(207001), E(), OP(207000)]
    t['204 scope'] = [OP(204007), element(31021, 'CODE TABLE'), E(), E(), OP(204000), E()]
    t['205 string'] = [OP(205004), E()]
    t['206 skip'] = [OP(206008), E(12192), E()]
    t['221 data not present'] = [OP(221003), E(1001), E(), E(), E()]
    t['fixed replication'] = [FIX(2, E(), S())]
    t['delayed replication'] = [DEL(E(), E(1002))]
    t['nested replication'] = [DEL(E(), FIX(2, E(1002))), E()]
    t['sequence'] = [SEQ(E(), SEQ(S()))]
    t['operators inside replication'] = [FIX(2, OP(201130), E(), OP(201000)), E()]
    t['222 quality info'] = [E(), E(10004), OP(222000), OP(236000), BITS(), element(1031, 'CODE TABLE'), Q(), Q()]
    t['222 without 236'] = [E(), E(10004), OP(222000), BITS(), element(1031, 'CODE TABLE'), Q(), Q(), E()]
    t['222 fixed bitmap'] = [E(), E(10004), OP(222000), FIX(2, B1()), element(1031, 'CODE TABLE'), Q(), Q()]
    t['223 substitution'] = [E(), E(10004), OP(223000), OP(236000), BITS(), OP(223255), OP(223255)]
    t['224 first order'] = [E(), E(10004), OP(224000), OP(236000), BITS(), element(8023, 'CODE TABLE'), OP(224255), OP(224255)]
    t['225 difference'] = [E(), E(10004), OP(225000), OP(236000), BITS(), element(8024, 'CODE TABLE'), OP(225255), OP(225255)]
    t['232 replacement'] = [E(), OP(232000), BITS(), OP(232255)]
    t['bitmap reuse 237000'] = [E(), E(10004), OP(222000), OP(236000), BITS(), Q(), Q(), OP(224000), OP(237000), element(8023, 'CODE TABLE'), OP(224255), OP(224255)]
    t['237255 cancel'] = [E(), OP(222000), OP(236000), BITS(), Q(), OP(237255), OP(224000), BITS(), OP(224255)]
    t['235000 then new bitmap'] = [E(), E(10004), OP(222000), OP(236000), BITS(), Q(), OP(235000), E(7004), OP(224000), BITS(), element(8023, 'CODE TABLE'), OP(224255)]
    t['two bitmaps without cancel'] = [E(), OP(222000), BITS(), Q(), OP(223000), BITS(), OP(223255)]
    t['markers under 201'] = [E(), E(10004), OP(223000), FIX(2, B1()), OP(201130), OP(223255), OP(201000), OP(223255)]
    t['markers under 207'] = [E(), OP(223000), FIX(1, B1()), OP(207002), OP(223255), OP(207000), OP(223255)]
    t['markers under 202'] = [E(), OP(224000), FIX(1, B1()), element(8023, 'CODE TABLE'), OP(202129), OP(224255), OP(202000), OP(224255)]
    t['string marker under 208'] = [S(), OP(208003), OP(223000), OP(236000), FIX(1, B1()), OP(223255), OP(208000)]
    t['bitmap inside replication'] = [FIX(2, E(12001), OP(222000), FIX(1, B1()), element(1031, 'CODE TABLE'), element(1032, 'CODE TABLE'), Q(), OP(235000))]
    t['bitmap inside delayed replication'] = [DEL(E(12001), OP(224000), OP(236000), BITS(), element(8023, 'CODE TABLE'), OP(224255), OP(235000))]
    t['quality info then plain class 33'] = [E(), OP(222000), FIX(1, B1()), Q(), E(), Q()]
    t['replication factor with quality info'] = [DEL(E()), OP(222000), OP(236000), BITS(), Q(), Q()]
    t['markers under 204'] = [OP(204007), element(31021, 'CODE TABLE'), E(), OP(224000), OP(236000), FIX(1, B1()), element(8023, 'CODE TABLE'), OP(224255), OP(204000)]
    t['203 definition under 204'] = [OP(204007), element(31021, 'CODE TABLE'), OP(203012), E(), OP(203255), E(), OP(204000)]
    t['marker after 203000'] = [OP(203012), E(), OP(203255), E(), OP(203000), OP(224000), OP(236000), FIX(1, B1()), element(8023, 'CODE TABLE'), OP(224255)]
    t['marker while 203 values are in force'] = [OP(203012), E(), OP(203255), E(), OP(224000), OP(236000), FIX(1, B1()), element(8023, 'CODE TABLE'), OP(224255), OP(203000)]
    t['class 33 marker'] = [Q(), OP(222000), FIX(1, B1()), Q(), OP(223000), OP(237000), OP(223255)]
    # bitmaps written out as plain 031031 members, first and after a replicated one (whose loop body is compiled once)
    t['spelled-out bitmap'] = [E(), E(10004), OP(223000), B1(), B1(), OP(223255)]
    t['spelled-out bitmap after a replicated one'] = [E(), E(10004), OP(222000), BITS(), Q(), OP(224000), B1(), B1(), element(8023, 'CODE TABLE'), OP(224255)]
    t['spelled-out bitmap after 236000'] = [E(), E(10004), OP(222000), OP(236000), B1(), B1(), Q(), OP(224000), OP(237000), element(8023, 'CODE TABLE'), OP(224255)]
    t['spelled-out bitmap after a fixed one'] = [E(), E(10004), OP(222000), FIX(2, B1()), Q(), OP(223000), B1(), B1(), OP(223255)]
    # delayed repetition: the count is 031011 / 031012
    for fid in (31011, 31012, 31000, 31002):
        t['delayed replication counted by %06d' % fid] = [E(), Obj('DelayedReplicationDescriptor', {
            'id': 102000, 'members': [E(), E(8002, 'CODE TABLE')], 'factor': element(fid, unit='NUMERIC')}), E()]
    # the same Table D sequence met at several places of one template, under different operator regimes: what is recorded for one
    # occurrence must not be reused for another (a compiler that memoises sequences must key the memo by every register it resolves)
    regimes = {
        '201': ([OP(201130)], [OP(201000)]), '202': ([OP(202129)], [OP(202000)]), '207': ([OP(207002)], [OP(207000)]), '208': ([OP(208003)], [OP(208000)]),
        '204': ([OP(204007), element(31021, 'CODE TABLE')], [OP(204000)]), '203': ([OP(203012), E(), OP(203255)], [OP(203000)]),
        '206': ([OP(206008)], []), '221': ([OP(221002)], []),
    }
    for k, (open_, close) in sorted(regimes.items()):
        t['sequence repeated before, under and after %s' % k] = [SEQ(E(), S())] + open_ + [SEQ(E(), S())] + close + [SEQ(E(), S())]
    t['sequence repeated inside and outside a replication'] = [SEQ(E(), S()), FIX(2, OP(201130), SEQ(E(), S()), OP(201000)), DEL(SEQ(E(), S()))]
    t['sequence repeated around a bitmap'] = [SEQ(E(), S()), OP(222000), OP(236000), BITS(), Q(), Q(), SEQ(E(), S()), OP(223000), OP(237000), OP(223255), SEQ(E(), S())]
    return t


SYMBOLS = {
    'E': E, 'S': S, 'C': lambda: E(20003, 'CODE TABLE'), 'Q': Q, 'B': B1,
    '201130': lambda: OP(201130), '201000': lambda: OP(201000), '202129': lambda: OP(202129), '202000': lambda: OP(202000),
    '203012': lambda: OP(203012), '203255': lambda: OP(203255), '203000': lambda: OP(203000),
    '204007': lambda: OP(204007), '204000': lambda: OP(204000), '205003': lambda: OP(205003), '206008': lambda: OP(206008),
    '207002': lambda: OP(207002), '207000': lambda: OP(207000), '208003': lambda: OP(208003), '208000': lambda: OP(208000),
    '221002': lambda: OP(221002), '222000': lambda: OP(222000), '223000': lambda: OP(223000), '223255': lambda: OP(223255),
    '224000': lambda: OP(224000), '224255': lambda: OP(224255), '225000': lambda: OP(225000), '225255': lambda: OP(225255),
    '232000': lambda: OP(232000), '232255': lambda: OP(232255), '235000': lambda: OP(235000), '236000': lambda: OP(236000),
    '237000': lambda: OP(237000), '237255': lambda: OP(237255),
    'FIX2(E)': lambda: FIX(2, E()), 'DEL(E)': lambda: DEL(E()), 'DEL(B)': BITS, 'SEQ(E,S)': lambda: SEQ(E(), S()),
}

KNOWN_KEYS = {
    'markers under 204': 'compiled:marker under 204',
}


def compare(repo, name, members, rr, key_prefix='template'):
    """Returns number of paths compared."""
    plain = run_plain(repo, members)
    comp = run_compile(repo, members)
    P = set()
    for r in plain:
        P.add(trace_of(r.events) if r.ok else ('raise', r.exc.cls))
    Rp = set()
    for r, stmts in comp:
        if not r.ok:
            Rp.add(('raise', r.exc.cls))
            continue
        for rr2 in run_replay(repo, stmts):
            Rp.add(trace_of(rr2.events) if rr2.ok else ('raise', rr2.exc.cls))
    # errors raised while the plain walk runs may legitimately surface at compile time instead
    Pn = set(x for x in P if x[:1] != ('raise',))
    Rn = set(x for x in Rp if x[:1] != ('raise',))
    praise = set(x for x in P if x[:1] == ('raise',))
    rraise = set(x for x in Rp if x[:1] == ('raise',))
    if Pn != Rn or bool(praise) != bool(rraise):
        only_p = sorted(Pn - Rn, key=repr)
        only_r = sorted(Rn - Pn, key=repr)
        detail = first_difference(only_p[0] if only_p else (), only_r[0] if only_r else ()) if (only_p or only_r) else \
            'plain raises %s, compiled raises %s' % (sorted(praise), sorted(rraise))
        return False, detail
    return True, len(P)


def first_difference(a, b):
    for i in range(max(len(a), len(b))):
        x = a[i] if i < len(a) else '<end>'
        y = b[i] if i < len(b) else '<end>'
        if x != y:
            return 'step %d: plain walk %s, compiled %s' % (i, _fmt(x), _fmt(y))
    return 'identical prefixes'


def _fmt(x):
    s = repr(x)
    return s if len(s) < 220 else s[:217] + '...'


def rule_r6(repo, tier, only_bitmap=False):
    rr = RuleResult('C08.R6', 'compile / replay differential: compiled templates emit the same trace as the plain walk')
    n = 0
    for name, members in sorted(curated_templates().items()):
        if only_bitmap and not any(k in name for k in ('222', '223', '224', '225', '232', '235', '237', 'bitmap', 'marker', 'quality')):
            continue
        ok, detail = compare(repo, name, members, rr)
        n += 1
        rr.instance('template "%s": %s' % (name, 'traces agree' if ok else 'DIFFER'))
        if not ok:
            key = KNOWN_KEYS.get(name, 'template:%s' % name)
            rr.fail('differential:%s' % key, 'pybufrkit/templatecompiler.py', 'template "%s" (%s): %s' % (name, ' '.join(_mname(m) for m in members), detail),
                    witness={'template': name})
    if only_bitmap:
        rr.require_floor(10)
        return rr
    # breadth: all pairs (and, thorough, triples over a reduced alphabet) of members
    syms = sorted(SYMBOLS)
    pairs = list(itertools.product(syms, repeat=2))
    bad_pairs = {}
    def crosses_scope(x, y):
        # a 221YYY count that runs into a replication is consumed per iteration at run time but once at compile time:
        # outside the property's domain (operators opened and closed within one replication scope)
        return x == '221002' and y in ('FIX2(E)', 'DEL(E)', 'DEL(B)', 'SEQ(E,S)')

    for a, b in pairs:
        if crosses_scope(a, b):
            continue
        members = [E(1001), SYMBOLS[a](), SYMBOLS[b](), E(10004)]
        try:
            ok, detail = compare(repo, '%s %s' % (a, b), members, rr)
        except AnalysisError as ex:
            raise AnalysisError('differential on pair (%s, %s): %s' % (a, b, ex))
        n += 1
        if not ok:
            bad_pairs[(a, b)] = detail
    rr.instance('all %d ordered pairs over %d member symbols' % (len(pairs), len(syms)))
    if tier == 'thorough':
        red = [s for s in syms if s in ('E', 'S', 'Q', 'B', '201130', '201000', '203012', '203255', '204007', '204000', '207002', '207000', '208003',
                                        '221002', '222000', '223000', '223255', '224255', '235000', '236000', '237000', '237255', 'DEL(B)', 'FIX2(E)')]
        m = 0
        for a, b, c in itertools.product(red, repeat=3):
            if crosses_scope(a, b) or crosses_scope(b, c):
                continue
            members = [E(1001), SYMBOLS[a](), SYMBOLS[b](), SYMBOLS[c](), E(10004)]
            ok, detail = compare(repo, '%s %s %s' % (a, b, c), members, rr)
            m += 1
            n += 1
            if not ok:
                bad_pairs[(a, b, c)] = detail
        rr.instance('all %d ordered triples over %d member symbols' % (m, len(red)))
    groups = {}
    for combo, detail in sorted(bad_pairs.items()):
        # group by the construct involved
        if any(c in ('223255', '224255', '225255', '232255') for c in combo) and '204007' in combo:
            k = 'compiled:marker under 204'
        elif any(c in ('223255', '224255', '225255', '232255') for c in combo) and '222000' in combo:
            k = 'compiled:marker while quality info pending'
        else:
            k = 'pair:%s' % '+'.join(combo)
        groups.setdefault(k, []).append((combo, detail))
    for k, lst in sorted(groups.items()):
        combo, detail = lst[0]
        rr.fail('differential:%s' % k, 'pybufrkit/templatecompiler.py', 'members %s: %s%s' % (
            ' '.join(combo), detail, ' (+%d more combinations)' % (len(lst) - 1) if len(lst) > 1 else ''), witness={'members': list(combo)})
    rr.extra = {'templates_compared': n}
    rr.require_floor(35)
    return rr


def _mname(m):
    if isinstance(m, Obj):
        i = m.fields.get('id')
        s = '%06d' % i if isinstance(i, int) else str(i)
        if 'members' in m.fields and m.fields['members']:
            return '%s[%s]' % (s, ' '.join(_mname(x) for x in m.fields['members']))
        return s
    return repr(m)


# ---------------------------------------------------------------------------
def rule_r1(repo):
    rr = RuleResult('C08.R1', 'every recorded method name exists on the runtime receiver with matching arity')
    rec = recorded_method_names(repo)
    tc = repo.cls('TemplateCompiler')
    cs = repo.cls('CompilerState')
    for cname, names in sorted(rec.items()):
        for nm in sorted(names):
            if cname == 'CoderMethodCall':
                for coder in ('Decoder', 'Encoder'):
                    f = repo.method(coder, nm, required=False)
                    rr.instance('%s.%s recorded as CoderMethodCall' % (coder, nm))
                    if f is None:
                        rr.fail('recorded:%s.%s' % (coder, nm), tc.methods[nm].where if nm in tc.methods else tc.node.lineno,
                                'the compiler records a call to %s which %s does not define' % (nm, coder))
                        continue
                    # arity: recorded args + (state[, bit_operator]) must fit
                    rf = tc.methods.get(nm)
                    if rf is None:
                        continue
                    nargs = None
                    for call in effects(rf).calls:
                        if isinstance(call.func, ast.Name) and call.func.id == 'CoderMethodCall' and len(call.args) >= 2 and isinstance(call.args[1], ast.Tuple):
                            nargs = len(call.args[1].elts)
                            first_is_desc = norm(call.args[1].elts[0]) == 'descriptor' if call.args[1].elts else False
                    if nargs is not None:
                        want = 1 + 1 + (1 if first_is_desc else 0) + nargs     # self, state, [bit_operator], args
                        if len(f.params) != want:
                            rr.fail('recorded:%s.%s:arity' % (coder, nm), f.where, '%s.%s takes %d parameters; the recorded call supplies %d' % (coder, nm, len(f.params), want))
            else:
                f = repo.own_method('CoderState', nm, required=False)
                rr.instance('CoderState.%s recorded as StateMethodCall' % nm)
                if f is None:
                    rr.fail('recorded:CoderState.%s' % nm, cs.methods[nm].where if nm in cs.methods else 'pybufrkit/templatecompiler.py',
                            'the compiler records state.%s() which CoderState does not define' % nm)
                elif len(f.params) != 1:
                    rr.fail('recorded:CoderState.%s:arity' % nm, f.where, 'state.%s is replayed without arguments but takes %d' % (nm, len(f.params) - 1))
    rr.require_floor(20)
    return rr


def rule_r2(repo):
    rr = RuleResult('C08.R2', 'every CoderState method the generic walk calls, and every abstract primitive, is recorded by the compiler')
    coder = repo.cls('Coder')
    state_methods = set(repo.cls('CoderState').methods)
    # what the compiler actually runs: everything reachable from its template walk, resolved for the TemplateCompiler class (a generic
    # method that the compiler overrides - and the hooks only that method calls - is not part of it)
    from sa.model import CallGraph
    cg = CallGraph(repo, 'TemplateCompiler')
    reach = cg.reachable([repo.method('TemplateCompiler', 'process_template')])
    if len(reach) < 12:
        raise AnalysisError('the template walk of the compiler reaches only %d functions' % len(reach))
    called = {}
    self_calls = {}
    for fi in reach:
        if fi.cls is None or fi.cls.name in ('TemplateCompiler', 'CompilerState', 'CoderState'):
            continue
        for c in effects(fi).calls:
            if isinstance(c.func, ast.Attribute) and isinstance(c.func.value, ast.Name):
                if c.func.value.id == 'state' and c.func.attr in state_methods:
                    called.setdefault(c.func.attr, fi)
                elif c.func.value.id == 'self':
                    self_calls.setdefault(c.func.attr, fi)
    cs = repo.cls('CompilerState')
    for nm, fi in sorted(called.items()):
        rr.instance('state.%s() called by %s' % (nm, fi.qualname))
        own = cs.methods.get(nm)
        if own is None and nm in cs.class_consts:
            continue        # bound in the class body (a recorder made by a factory): that it records is decided by the differential R6
        if own is None:
            rr.fail('CompilerState.%s:missing' % nm, fi.where, '%s calls state.%s(), which CompilerState does not override: it would run at compile time '
                    'on the compiler\'s empty state and never at run time' % (fi.qualname, nm))
            continue
        if not any(isinstance(c.func, ast.Name) and c.func.id == 'StateMethodCall' for c in effects(own).calls):
            rr.fail('CompilerState.%s:not-recorded' % nm, own.where, 'CompilerState.%s does not record a StateMethodCall' % nm)
    tc = repo.cls('TemplateCompiler')
    for nm, fi in sorted(coder.methods.items()):
        if not fi.is_abstract or nm in ('process', 'process_section'):
            continue
        if nm not in self_calls:
            continue        # an abstract hook that nothing the compiler runs calls
        rr.instance('abstract %s (called by %s) is implemented for TemplateCompiler' % (nm, self_calls[nm].qualname))
        impl = repo.method('TemplateCompiler', nm, required=False)
        if impl is None or impl.is_abstract:
            rr.fail('TemplateCompiler.%s:missing' % nm, fi.where, 'abstract Coder.%s is called by %s while compiling and is not overridden by TemplateCompiler' % (
                nm, self_calls[nm].qualname))
    # data-dependent walk methods are overridden too
    for nm in ('process_fixed_replication_descriptor', 'process_delayed_replication_descriptor', 'process_bitmapped_descriptor', 'process_bitmap_definition'):
        rr.instance('TemplateCompiler overrides %s' % nm)
        if nm not in tc.methods:
            rr.fail('TemplateCompiler.%s:missing' % nm, tc.node.lineno and 'pybufrkit/templatecompiler.py', 'TemplateCompiler does not override %s' % nm)
    rr.require_floor(6)
    return rr


# ---------------------------------------------------------------------------
class JsonInterp(TraceInterp):
    def on_call(self, text, callee, args, kwargs, node, frame):
        if text == 'table_group.lookup':
            i = args[0]
            if isinstance(i, int):
                if i // 100000 == 0:
                    return element(i)
                if i // 100000 == 2:
                    return OP(i)
                return Obj('Descriptor', {'id': i})
            return Top('lookup')
        if isinstance(callee, UnknownMethod) and callee.name == 'update' and isinstance(callee.recv, dict) and args and isinstance(args[0], dict):
            callee.recv.update(args[0])
            return None
        return TraceInterp.on_call(self, text, callee, args, kwargs, node, frame)

    def builtin(self, name, args, kwargs, node, frame):
        if name == 'tuple' and args and isinstance(args[0], list):
            return tuple(args[0])
        return TraceInterp.builtin(self, name, args, kwargs, node, frame)


def jsonify(v):
    """What json.dumps/loads does to a to_dict() result: tuples and namedtuples become lists."""
    if isinstance(v, Obj) and v.cls == 'BSRModifier':
        return [jsonify(v.fields[k]) for k in ('nbits_increment', 'scale_increment', 'refval_factor')]
    if isinstance(v, (tuple, list)):
        return [jsonify(x) for x in v]
    if isinstance(v, dict):
        return dict((k, jsonify(x)) for k, x in v.items())
    return v


def stmt_key(s):
    if not isinstance(s, Obj):
        return repr(s)
    f = s.fields
    if s.cls in ('CoderMethodCall', 'StateMethodCall'):
        args = f.get('args') or ()
        sp = f.get('state_properties')
        spk = None
        if isinstance(sp, dict):
            spk = tuple(sorted((k, (v.cls, tuple(sorted((a, repr(b)) for a, b in v.fields.items()))) if isinstance(v, Obj) else repr(v)) for k, v in sp.items()))
        return (s.cls, f.get('method_name'), tuple(dkey(a) if isinstance(a, Obj) else repr(a) for a in args), spk)
    if s.cls == 'Loop':
        rep = f.get('repeat')
        return ('Loop', stmt_key(rep) if isinstance(rep, Obj) else repr(rep), tuple(stmt_key(x) for x in f.get('statements', [])))
    return (s.cls,)


def rule_r4(repo):
    rr = RuleResult('C08.R4', 'JSON closure: to_dict followed by the loader reproduces every recorded statement')
    load_funcs = repo.module('templatecompiler').const_nodes.get('STATEMENT_LOAD_FUNCS')
    if not isinstance(load_funcs, ast.Dict):
        raise AnalysisError('STATEMENT_LOAD_FUNCS is not a dict literal')
    keys = set(k.value for k in load_funcs.keys if isinstance(k, ast.Constant))
    # (which statement classes need a loader is decided from the statements the compiler actually records for the curated family,
    # below: a class that is only instantiated as a scratch container never reaches a compiled template)
    # fold: compile curated templates, serialise each statement, load it back, compare
    seen = set()
    recorded = set()
    n = 0
    for name, members in sorted(curated_templates().items()):
        for r, stmts in run_compile(repo, members):
            if not r.ok:
                continue
            for s in _flatten(stmts):
                if not isinstance(s, Obj):
                    raise AnalysisError('template "%s" records %r, not a statement object' % (name, s))
                recorded.add(s.cls)
                k0 = stmt_key(s)
                if k0 in seen or s.cls == 'Loop':
                    continue
                seen.add(k0)
                n += 1
                td = repo.method(s.cls, 'to_dict')
                it = JsonInterp(repo, s.cls)
                res = it.run_function(td, lambda: {'self': s}, self_class=s.cls)
                if len(res) != 1 or not res[0].ok or not isinstance(res[0].value, dict):
                    raise AnalysisError('%s.to_dict could not be folded: %s' % (s.cls, [x.describe() for x in res]))
                d = jsonify(res[0].value)
                lf = load_funcs.values[[k.value for k in load_funcs.keys].index(d.get('type'))] if d.get('type') in keys else None
                if lf is None:
                    rr.fail('loader:type:%s' % d.get('type'), td.where, 'statement serialises with type %r which has no loader' % d.get('type'))
                    continue
                if isinstance(lf, ast.Lambda):
                    continue
                lfi = repo.func('templatecompiler', lf.id)
                it2 = JsonInterp(repo, None)
                res2 = it2.run_function(lfi, lambda: {'table_group': Obj('BufrTableGroup', {}), 'd': d})
                if len(res2) != 1 or not res2[0].ok:
                    rr.fail('loader:%s' % s.fields.get('method_name'), lfi.where, 'loading %r: %s' % (d, [x.describe() for x in res2]))
                    continue
                k1 = stmt_key(res2[0].value)
                if k1 != k0:
                    a0 = [x for x in k0[2]] if len(k0) > 2 else []
                    a1 = [x for x in k1[2]] if len(k1) > 2 else []
                    if k0[:2] == k1[:2] and k0[3:] == k1[3:] and a0[1:] == a1[1:] and a0 and a1 and a0[0][1:2] == a1[0][1:2] and a0[0][0] in ('AssociatedDescriptor', 'SkippedLocalDescriptor'):
                        key = 'json:pseudo-descriptor-class'
                        msg = 'a recorded %s argument is written as its bare id and loaded back through the table lookup as %s: the A/S label and the ' \
                              'pseudo-descriptor class are lost (%s)' % (a0[0][0], a1[0][0], s.fields.get('method_name'))
                    else:
                        key = 'json:%s' % s.fields.get('method_name')
                        msg = 'statement %s is loaded back as %s' % (_fmt(k0), _fmt(k1))
                    rr.fail(key, lfi.where, msg, witness={'statement': _fmt(k0)})
    rr.instance('statement classes recorded %s, loaders %s' % (sorted(recorded), sorted(keys)))
    if recorded - keys:
        rr.fail('loader:missing', 'pybufrkit/templatecompiler.py', 'statement class(es) %s are recorded in compiled templates but have no entry in STATEMENT_LOAD_FUNCS' % sorted(recorded - keys))
    rr.instance('%d distinct recorded statements serialised and loaded back' % n)
    rr.extra = {'statements_folded': n}
    rr.require_floor(2)
    return rr


def _flatten(stmts):
    for s in stmts:
        yield s
        if isinstance(s, Obj) and s.cls == 'Loop':
            rep = s.fields.get('repeat')
            if isinstance(rep, Obj):
                yield rep
            for x in _flatten(s.fields.get('statements', [])):
                yield x


# ---------------------------------------------------------------------------
class KeyInterp(Interp):
    def load_attr(self, base, attr, node, frame):
        if isinstance(base, Sym):
            return Sym('attr', base, attr)
        return Interp.load_attr(self, base, attr, node, frame)

    def on_call(self, text, callee, args, kwargs, node, frame):
        if text.startswith('log.'):
            return None
        if text == 'self.cache.get':
            self.event('lookup', args[0])
            return None
        if text == 'self.template_compiler.process':
            self.event('compile', list(args))
            return Sym('COMPILED')
        return self.NOT_HANDLED

    def on_store_subscript(self, base, idx, value, node, frame):
        self.event('cache_store', idx, value)
        return True

    def comprehension(self, e, frame, ctor):
        it = self.ev(e.generators[0].iter, frame)
        if isinstance(it, Sym):
            saved = dict(frame.locals)
            self.assign(e.generators[0].target, Sym('each', it), frame, e)
            elt = self.ev(e.elt, frame)
            frame.locals = saved
            return Sym('comp', elt)
        return Interp.comprehension(self, e, frame, ctor)


def rule_r5(repo):
    rr = RuleResult('C08.R5', 'the compiled-template cache key contains both inputs of the compilation, whole')
    fi = repo.own_method('CompiledTemplateManager', 'get_or_compile')
    it = KeyInterp(repo, 'CompiledTemplateManager')
    res = it.run_function(fi, lambda: {'self': Obj('CompiledTemplateManager', {'cache': {}, 'cache_max': Sym('MAX')}),
                                       'template': Obj('BufrTemplateStub', {'original_descriptor_ids': Sym('IDS'), 'members': Sym('MEMBERS'), 'id': Sym('TID')}),
                                       'table_group': Obj('TableGroupStub', {'key': Sym('TGKEY')})}, self_class='CompiledTemplateManager')
    n = 0
    for r in res:
        if not r.ok:
            continue
        lk = [e[1] for e in r.events if e[0] == 'lookup']
        stores = [e for e in r.events if e[0] == 'cache_store']
        comp = [e[1] for e in r.events if e[0] == 'compile']
        n += 1
        for k in lk + [s[1] for s in stores]:
            parts = list(k) if isinstance(k, tuple) else [k]
            reprs = set(repr(p) for p in parts)
            ids_ok = bool(reprs & {'tuple(IDS)', 'IDS', 'list(IDS)'})
            tg_ok = 'TGKEY' in reprs
            if not (ids_ok and tg_ok):
                rr.fail('CompiledTemplateManager.get_or_compile:key', fi.where,
                        'the cache key is %s; it must contain the full descriptor list (template.original_descriptor_ids) and the whole table group key, '
                        'otherwise a template compiled for one message is reused for a different one' % (sorted(reprs),))
        for s in stores:
            if lk and repr(s[1]) != repr(lk[0]):
                rr.fail('CompiledTemplateManager.get_or_compile:store-key', fi.where, 'the template is stored under %r but looked up under %r' % (s[1], lk[0]))
            if repr(s[2]) != 'COMPILED':
                rr.fail('CompiledTemplateManager.get_or_compile:store-value', fi.where, 'the cache stores %r' % (s[2],))
        for c in comp:
            if [repr(a) for a in c] != ['Obj(BufrTemplateStub,' + repr(c[0].fields) + ')', 'Obj(TableGroupStub,' + repr(c[1].fields) + ')'] if len(c) == 2 else True:
                pass
    rr.instance('get_or_compile: %d paths, key components checked' % n)
    if n == 0:
        raise AnalysisError('get_or_compile: no non-raising path')
    rr.require_floor(1)
    return rr

# ---------------------------------------------------------------------------
# thorough tier: the differential over every sequence of every bundled Table D (the property's own program family)
def _td_build(ids, seqs, units, depth=0):
    """Descriptor objects for a member id list (FM-94 replication ownership; sequences expanded recursively from `seqs`)."""
    if depth > 30:
        raise AnalysisError('bundled Table D nests deeper than 30 levels')
    pos = [0]

    def one():
        i = ids[pos[0]]
        pos[0] += 1
        if i >= 300000:
            key = '%06d' % i
            if key not in seqs:
                return Obj('UndefinedSequenceDescriptor', {'id': i})
            return Obj('SequenceDescriptor', {'id': i, 'name': 'seq', 'members': _td_build([int(m) for m in seqs[key][1]], seqs, units, depth + 1)})
        if i >= 200000:
            return operator(i // 1000, i % 1000)
        if i >= 100000:
            x = i // 1000 % 100
            if i % 1000 == 0:
                f = ids[pos[0]]
                pos[0] += 1
                factor = element(f, unit=units.get(f, 'NUMERIC'))
                members = [one() for _ in range(x) if pos[0] < len(ids)]
                return Obj('DelayedReplicationDescriptor', {'id': i, 'members': members, 'factor': factor})
            members = [one() for _ in range(x) if pos[0] < len(ids)]
            return Obj('FixedReplicationDescriptor', {'id': i, 'members': members})
        if i not in units:
            return Obj('UndefinedElementDescriptor', {'id': i})
        return element(i, unit=units[i])
    out = []
    while pos[0] < len(ids):
        out.append(one())
    return out


def _td_key(members):
    out = []
    for m in members:
        f = m.fields
        if 'members' in f:
            fac = f.get('factor')
            out.append((m.cls, f['id'], (fac.fields['id'], fac.fields['unit']) if isinstance(fac, Obj) else None, _td_key(f['members'])))
        else:
            out.append((m.cls, f['id'], f.get('unit')))
    return tuple(out)


def _td_crosses_scope(members, pending=0):
    """True when a 221YYY count runs into a replication, or an operator is opened inside a replication and not closed there
    (the domain exclusion of the property: operators opened and closed within one replication scope)."""
    count = pending
    for m in members:
        f = m.fields
        if m.cls == 'OperatorDescriptor' and f['id'] // 1000 == 221:
            count = f['id'] % 1000
            continue
        if m.cls in ('FixedReplicationDescriptor', 'DelayedReplicationDescriptor'):
            if count > 0:
                return True
            if _td_crosses_scope(f['members']) or _td_open_ops(f['members']):
                return True
        elif m.cls == 'SequenceDescriptor':
            if _td_crosses_scope(f['members'], count):
                return True
            count = max(0, count - _td_count(f['members']))
            continue
        if count > 0:
            count -= 1
    return False


def _td_count(members):
    n = 0
    for m in members:
        if m.cls == 'SequenceDescriptor':
            n += _td_count(m.fields['members'])
        else:
            n += 1
    return n


def _td_flat(members):
    for m in members:
        if m.cls == 'SequenceDescriptor':
            for x in _td_flat(m.fields['members']):
                yield x
        else:
            yield m


def _td_open_ops(members):
    """Operators of a replication body that are still in force when the body ends."""
    open_ = {}
    for m in _td_flat(members):
        if m.cls != 'OperatorDescriptor':
            continue
        code, y = m.fields['id'] // 1000, m.fields['id'] % 1000
        if code in (201, 202, 203, 204, 207, 208):
            if code == 204:
                open_[204] = open_.get(204, 0) + (1 if y else -1)
            elif code == 203:
                if y == 0:
                    open_.pop(203, None)
                elif y != 255:
                    open_[203] = 1
            else:
                open_[code] = 1 if y else 0
    return any(v for v in open_.values())


def _td_worker(job):
    root, name, ids, seqs, units = job
    from sa.model import Repo
    repo = _REPOS.get(root)
    if repo is None:
        repo = _REPOS[root] = Repo(root)
    members = _td_build(ids, seqs, units)
    rr = RuleResult('C08.R8', '')
    import sys
    sys.setrecursionlimit(20000)
    saved = (TraceInterp.MAX_DEPTH, TraceInterp.MAX_STEPS, TraceInterp.UNROLL_CAP)
    # real sequences nest deeper and are far longer than the curated family (statement lists of several hundred entries)
    TraceInterp.MAX_DEPTH, TraceInterp.MAX_STEPS, TraceInterp.UNROLL_CAP = 120, 100000000, 4000
    try:
        ok, detail = compare(repo, name, members, rr)
    except AnalysisError as ex:
        return name, None, str(ex)
    finally:
        TraceInterp.MAX_DEPTH, TraceInterp.MAX_STEPS, TraceInterp.UNROLL_CAP = saved
    return name, ok, detail


_REPOS = {}


def rule_r8(repo):
    """Thorough tier: compile / replay differential with every distinct sequence of every bundled Table D as the template."""
    import glob
    import json
    import multiprocessing
    import os
    rr = RuleResult('C08.R8', 'compile / replay differential over every sequence of every bundled Table D')
    base = os.path.join(repo.root, 'pybufrkit', 'tables')
    if not os.path.isdir(base):
        rr.note('no tables directory under %s: rule not applicable to this copy' % repo.root)
        return rr
    jobs = {}
    n_tables = n_seq = n_excluded = 0
    for f in sorted(glob.glob(os.path.join(base, '*', '*', '*', 'TableD.json'))):
        with open(f) as fh:
            seqs = json.load(fh)
        bf = os.path.join(os.path.dirname(f), 'TableB.json')
        units = {}
        parts = f.split(os.sep)
        if parts[-3] != '0_0':
            # local tables extend a master version: take the newest bundled master tables underneath
            masters = sorted(glob.glob(os.path.join(base, parts[-4], '0_0', '*')), key=lambda p: int(os.path.basename(p)))
            with open(os.path.join(masters[-1], 'TableB.json')) as fh:
                units.update((int(k), v[1]) for k, v in json.load(fh).items())
            with open(os.path.join(masters[-1], 'TableD.json')) as fh:
                seqs = dict(json.load(fh), **seqs)
        if os.path.exists(bf):
            with open(bf) as fh:
                units.update((int(k), v[1]) for k, v in json.load(fh).items())
        n_tables += 1
        label = '/'.join(parts[-4:-1])
        for sid in sorted(seqs):
            n_seq += 1
            ids = [int(m) for m in seqs[sid][1]]
            try:
                members = _td_build(ids, seqs, units)
            except IndexError:
                continue
            key = _td_key(members)
            if key in jobs:
                continue
            if _td_crosses_scope(members) or any(m.cls.startswith('Undefined') for m in _all_descs(members)):
                n_excluded += 1
                jobs[key] = None
                continue
            used = _used_seqs(ids, seqs)
            jobs[key] = (repo.root, '%s of %s' % (sid, label), ids, dict((k, seqs[k]) for k in used), dict((i, units[i]) for i in _used_ids(members) if i in units))
    work = [j for j in jobs.values() if j is not None]
    if len(work) < 300:
        raise AnalysisError('only %d distinct bundled Table D sequences found under %s' % (len(work), base))
    with multiprocessing.Pool(16) as pool:
        results = pool.map(_td_worker, work, chunksize=4)
    n_ok = 0
    errs = []
    for name, ok, detail in results:
        if ok is None:
            errs.append('%s: %s' % (name, detail))
        elif ok:
            n_ok += 1
        else:
            rr.fail('differential:bundled:%s' % name.split(' ')[0], 'pybufrkit/templatecompiler.py', 'Table D sequence %s: %s' % (name, detail), witness={'sequence': name})
    if errs:
        raise AnalysisError('bundled Table D differential: %d sequences could not be evaluated, first: %s' % (len(errs), errs[0]))
    rr.instance('%d Table D files, %d sequences, %d distinct structures compared (%d outside the domain: operator scope crosses a replication, or undefined member)' % (
        n_tables, n_seq, len(work), n_excluded))
    rr.extra = {'tables': n_tables, 'sequences': n_seq, 'distinct_compared': len(work), 'agree': n_ok, 'excluded': n_excluded}
    rr.require_floor(1)
    return rr


def _dk(d):
    """label-relevant identity of a descriptor object of the concrete fold"""
    if isinstance(d, Obj):
        f = d.fields
        return (d.cls, f.get('id'), f.get('nbits') if d.cls in ('AssociatedDescriptor', 'SkippedLocalDescriptor', 'MarkerDescriptor') else None,
                f.get('marker_id'), repr(f.get('refval')) if d.cls == 'MarkerDescriptor' else None)
    return repr(d)


def _outcome(r):
    return 'returns' if r.ok else 'raises ' + r.exc.cls


def _first_idx(a, b):
    for i in range(max(len(a), len(b))):
        if i >= len(a) or i >= len(b) or a[i] != b[i]:
            return i
    return None


def rule_r9(repo):
    """Concrete compile / replay differential (rules/pipeline.py): every template of the end-to-end family, and a family of templates
    whose *data* are inconsistent with the template (more marker operators / quality values than the bitmap has zero bits, a bitmap
    longer than the elements before it, a recall without a bitmap), is (a) walked by Decoder.process_members with a scripted reader,
    (b) compiled by TemplateCompiler.process_members, the recorded statements being run by process_statements with a Decoder on a
    fresh state and the same script.  Same fields asked for, same descriptors, values and links - or the same error.  The same for
    the encoder, and for compressed data whose subsets carry different bitmaps."""
    from sa.rules import pipeline as P
    rr = RuleResult('C08.R9', 'compiled and plain walk, folded concretely: same fields, labels, values, links - or the same error (decoder, encoder, compressed)')
    fi = repo.func('templatecompiler', 'process_statements')
    T, B, Q, OP, FIX, DEL, E, F = P.T, P.B, P.Q, P.OP, P.FIX, P.DEL, P.E, P.F31001
    sig = lambda: E(8023, 'FIRST ORDER STATISTICS', 'CODE TABLE', 6)
    family = dict(P.templates())
    # data that do not fit the template: the plain walk fails, and the compiled walk has to fail alike
    family['more first-order statistics than zero bits'] = (
        [T(), T(12103), OP(224000), OP(236000), FIX(2, B()), sig(), DEL(F(), OP(224255))], [2801, 2750, 0, 1, 4, 2, 2802, 2803])
    family['more first-order statistics than zero bits, then more data'] = (
        [T(), T(12103), OP(224000), OP(236000), FIX(2, B()), sig(), DEL(F(), OP(224255), T(12103)), T()], [2801, 2750, 0, 1, 4, 2, 2802, 2750, 2803, 2751, 2804])
    family['substituted value with a bitmap of ones only'] = ([T(), OP(223000), FIX(1, B()), OP(223255), T(12103)], [2801, 1, 2790, 2750])
    family['more quality values than zero bits'] = ([T(), T(12103), OP(222000), FIX(2, B()), DEL(F(), Q()), T()], [2801, 2750, 0, 1, 2, 70, 80, 2802])
    family['bitmap longer than the elements before it'] = ([T(), OP(222000), FIX(3, B()), Q()], [2801, 0, 0, 0, 70])
    family['recall (237000) without a bitmap defined for reuse'] = ([T(), OP(224000), OP(237000), sig(), OP(224255)], [2801, 4, 2802])
    family['marker operator without any bitmap'] = ([T(), OP(224255)], [2801, 2802])
    n_err = 0
    for name in sorted(family):
        members, script = family[name]
        rr.instance('decoder: %s' % name)
        r1, st1, rd1 = P.decode(repo, members, script)
        c, stmts = P.compile_template(repo, members)
        if not c.ok:
            if r1.ok or r1.exc.cls != c.exc.cls:
                rr.fail('concrete:%s:compile' % name, fi.where, '%s: the plain walk %s, compiling the template %s' % (name, _outcome(r1), _outcome(c)), witness={'template': name})
            continue
        st2, rd2 = P.plain_state(repo), P.ScriptReader(script, True)
        r2 = P.replay(repo, stmts, st2, rd2)
        if not r1.ok:
            n_err += 1
        if r1.ok != r2.ok or (not r1.ok and r1.exc.cls != r2.exc.cls):
            rr.fail('concrete:%s:outcome' % name, fi.where, '%s: the plain walk %s after %d fields, the compiled template %s after %d fields (decoded so far: %r / %r) - '
                    'the same data must give the same result or the same error' % (name, _outcome(r1), rd1.k, _outcome(r2), rd2.k,
                                                                                 st1.fields['decoded_values_all_subsets'][0][-4:], st2.fields['decoded_values_all_subsets'][0][-4:]),
                    witness={'template': name})
            continue
        if not r1.ok:
            continue
        for what, a, b in (('fields read', rd1.log, rd2.log),
                           ('descriptors', [_dk(d) for d in st1.fields['decoded_descriptors_all_subsets'][0]], [_dk(d) for d in st2.fields['decoded_descriptors_all_subsets'][0]]),
                           ('values', st1.fields['decoded_values_all_subsets'][0], st2.fields['decoded_values_all_subsets'][0]),
                           ('links', st1.fields['bitmap_links_all_subsets'][0], st2.fields['bitmap_links_all_subsets'][0])):
            if a != b:
                k = _first_idx(list(a.items()) if isinstance(a, dict) else a, list(b.items()) if isinstance(b, dict) else b)
                rr.fail('concrete:%s:%s' % (name, what), fi.where, '%s: %s differ at position %s: plain %r, compiled %r' % (
                    name, what, k, (list(a.items()) if isinstance(a, dict) else a)[k:k + 2] if k is not None else a, (list(b.items()) if isinstance(b, dict) else b)[k:k + 2] if k is not None else b),
                    witness={'template': name})
                break
        # the same compiled statements run a second time (the next message with this template): nothing of the first run may be left
        # in them - same result again
        st3, rd3 = P.plain_state(repo), P.ScriptReader(script, True)
        r3 = P.replay(repo, stmts, st3, rd3)
        if r3.ok != r2.ok or (r3.ok and (rd3.log != rd2.log or st3.fields['decoded_values_all_subsets'] != st2.fields['decoded_values_all_subsets'] or
                                         [_dk(d) for d in st3.fields['decoded_descriptors_all_subsets'][0]] != [_dk(d) for d in st2.fields['decoded_descriptors_all_subsets'][0]] or
                                         st3.fields['bitmap_links_all_subsets'] != st2.fields['bitmap_links_all_subsets'])):
            k = _first_idx(rd2.log, rd3.log)
            rr.fail('concrete:%s:second-run' % name, fi.where, '%s: running the same compiled template a second time %s and asks for other fields than the first run (first '
                    'difference at field %s: %r / %r; values %r / %r): a compiled template must not be used up by being run' % (
                        name, _outcome(r3), k, rd2.log[k:k + 1] if k is not None else None, rd3.log[k:k + 1] if k is not None else None,
                        st2.fields['decoded_values_all_subsets'][0][-4:], st3.fields['decoded_values_all_subsets'][0][-4:]), witness={'template': name})
        # the compiled template written out as JSON and loaded back, then run: indistinguishable from the plain walk (the class of the
        # A / S pseudo descriptors, which the JSON form does not carry, is the recorded finding C08.R4:json:pseudo-descriptor-class and
        # is not compared again here)
        rl, lstmts = P.save_and_load(repo, members)
        rr.instance('save / load: %s' % name)
        if lstmts is None:
            rr.fail('concrete:%s:json-load' % name, fi.where, '%s: the compiled template written out as JSON cannot be loaded back (%s)' % (name, _outcome(rl)), witness={'template': name})
        else:
            st4, rd4 = P.plain_state(repo), P.ScriptReader(script, True)
            r4 = P.replay(repo, lstmts, st4, rd4)
            jk = lambda d: (d.fields.get('id'), d.fields.get('marker_id'), d.fields.get('nbits') if d.cls == 'MarkerDescriptor' else None) if isinstance(d, Obj) else repr(d)
            if not r4.ok:
                rr.fail('concrete:%s:json' % name, fi.where, '%s: the plain walk returns, the compiled template that went through JSON %s after %d fields' % (name, _outcome(r4), rd4.k),
                        witness={'template': name})
            else:
                for what, a, b in (('fields read', rd1.log, rd4.log),
                                   ('descriptors', [jk(d) for d in st1.fields['decoded_descriptors_all_subsets'][0]], [jk(d) for d in st4.fields['decoded_descriptors_all_subsets'][0]]),
                                   ('values', st1.fields['decoded_values_all_subsets'][0], st4.fields['decoded_values_all_subsets'][0]),
                                   ('links', sorted(st1.fields['bitmap_links_all_subsets'][0].items()), sorted(st4.fields['bitmap_links_all_subsets'][0].items()))):
                    if a != b:
                        k = _first_idx(a, b)
                        rr.fail('concrete:%s:json' % name, fi.where, '%s: after a save / load through JSON the compiled template gives other %s than the plain walk (position %s: '
                                '%r / %r)' % (name, what, k, a[k:k + 2] if k is not None else a, b[k:k + 2] if k is not None else b), witness={'template': name})
                        break
        # a run that fails half way (the data end early) must leave the compiled statements as they were: the next run gives the result
        # of the first
        if len(script) > 3:
            st5, rd5 = P.plain_state(repo), P.ScriptReader(script[:len(script) // 2], True)
            P.replay(repo, stmts, st5, rd5)        # (the scripted reader runs dry: the interrupted run)
            st6, rd6 = P.plain_state(repo), P.ScriptReader(script, True)
            r6 = P.replay(repo, stmts, st6, rd6)
            if r6.ok != r2.ok or (r6.ok and (rd6.log != rd2.log or st6.fields['decoded_values_all_subsets'] != st2.fields['decoded_values_all_subsets'])):
                k = _first_idx(rd2.log, rd6.log)
                rr.fail('concrete:%s:second-run-after-failure' % name, fi.where, '%s: after a run of the same compiled template that broke off half way, the next run %s and '
                        'differs from a first run (field %s: %r / %r; values %r / %r): an interrupted run must not leave anything in the compiled template' % (
                            name, _outcome(r6), k, rd2.log[k:k + 1] if k is not None else None, rd6.log[k:k + 1] if k is not None else None,
                            st2.fields['decoded_values_all_subsets'][0][-4:], st6.fields['decoded_values_all_subsets'][0][-4:]), witness={'template': name})
        # encoder: the decoded values written back by the plain walk and by the compiled template
        vals = st1.fields['decoded_values_all_subsets'][0]
        e1, _, w1 = P.encode(repo, members, vals)
        from sa.rules.walk import fold_init
        sts = fold_init(repo, False, 1, values=[list(vals)])
        est = ([x for x in sts if all(type(v) is list for v in x.fields.get('decoded_values_all_subsets', [None]))] or sts)[0]
        w2 = P.ScriptWriter()
        e2 = P.replay(repo, stmts, est, w2, coder='Encoder')
        rr.instance('encoder: %s' % name)
        if len(vals) > 2:
            # ... and with fewer values than the template needs: the same error from both
            short = list(vals[:-1])
            f1, _, _w = P.encode(repo, members, short)
            sts_ = fold_init(repo, False, 1, values=[list(short)])
            est_ = ([x for x in sts_ if all(type(v) is list for v in x.fields.get('decoded_values_all_subsets', [None]))] or sts_)[0]
            f2 = P.replay(repo, stmts, est_, P.ScriptWriter(), coder='Encoder')
            if f1.ok != f2.ok or (not f1.ok and f1.exc.cls != f2.exc.cls):
                rr.fail('concrete:%s:encoder-short' % name, fi.where, '%s, one value too few: the plain encoder %s, the compiled template %s - the same input must give the same '
                        'error' % (name, _outcome(f1), _outcome(f2)), witness={'template': name})
        if e1.ok != e2.ok or (not e1.ok and e1.exc.cls != e2.exc.cls) or (e1.ok and w1.log != w2.log):
            k = _first_idx(w1.log, w2.log)
            rr.fail('concrete:%s:encoder' % name, fi.where, '%s: the plain encoder %s and writes %d fields, the compiled template %s and writes %d fields; first difference at '
                    'field %s: %r / %r' % (name, _outcome(e1), len(w1.log), _outcome(e2), len(w2.log), k, w1.log[k:k + 1] if k is not None else None,
                                           w2.log[k:k + 1] if k is not None else None), witness={'template': name})
    if n_err < 5:
        raise AnalysisError('C08.R9: only %d of the inconsistent-data templates make the plain walk fail (expected >= 5): the family no longer exercises the error clause' % n_err)
    # compressed data whose subsets carry different bitmaps (and equal ones): plain and compiled decoders on the fields the plain encoder wrote
    comp = {
        'compressed, equal bitmaps': ([T(), T(12103), OP(222000), FIX(2, B()), Q()], [[2801, 2750, 0, 0, 1, 70], [2802, 2751, 0, 0, 1, 80]]),
        'compressed, bitmaps differ between the subsets': ([T(), T(12103), OP(222000), FIX(2, B()), Q()], [[2801, 2750, 0, 0, 1, 70], [2802, 2751, 0, 1, 0, 80]]),
        'compressed, bitmap for reuse differs between the subsets': (
            [T(), T(12103), OP(224000), OP(236000), FIX(2, B()), sig(), OP(224255)], [[2801, 2750, 0, 0, 0, 1, 4, 2802], [2802, 2751, 0, 0, 1, 0, 4, 2803]]),
    }
    for name in sorted(comp):
        members, subsets = comp[name]
        rr.instance(name)
        e1, d1, st1, rd1 = P.code_compressed(repo, members, subsets)
        c, stmts = P.compile_template(repo, members)
        if e1 is None or not c.ok:
            raise AnalysisError('C08.R9 %s: %s' % (name, 'template does not compile' if not c.ok else 'no encoder result'))
        n = len(subsets)

        def cstate(values=None):
            sts = fold_init(repo, True, n, values=values)
            return ([x for x in sts if isinstance(x.fields.get('decoded_values_all_subsets'), list) and all(type(v) is list for v in x.fields['decoded_values_all_subsets'])] or sts)[0]
        from sa.rules.walk import fold_init
        w2 = P.ScriptWriter()
        e2 = P.replay(repo, stmts, cstate([list(v) for v in subsets]), w2, coder='Encoder')
        if e1.ok != e2.ok or (not e1.ok and e1.exc.cls != e2.exc.cls):
            rr.fail('concrete:%s:encoder' % name, fi.where, '%s: the plain encoder %s, the compiled template %s' % (name, _outcome(e1), _outcome(e2)), witness={'template': name})
            continue
        if not e1.ok:
            continue
        st2 = cstate()
        rd2 = P.FieldReader(rd1.log)
        d2 = P.replay(repo, stmts, st2, rd2)
        if d1.ok != d2.ok or (not d1.ok and d1.exc.cls != d2.exc.cls):
            rr.fail('concrete:%s:outcome' % name, fi.where, '%s: the plain decoder %s, the compiled template %s on the same fields' % (name, _outcome(d1), _outcome(d2)),
                    witness={'template': name})
        elif d1.ok and (st1.fields['decoded_values_all_subsets'] != st2.fields['decoded_values_all_subsets'] or
                        st1.fields['bitmap_links_all_subsets'] != st2.fields['bitmap_links_all_subsets']):
            rr.fail('concrete:%s:values' % name, fi.where, '%s: plain %r links %r, compiled %r links %r' % (
                name, st1.fields['decoded_values_all_subsets'], st1.fields['bitmap_links_all_subsets'], st2.fields['decoded_values_all_subsets'],
                st2.fields['bitmap_links_all_subsets']), witness={'template': name})
    rr.extra = {'templates': len(family), 'failing_data_templates': n_err}
    rr.require_floor(90)
    return rr


def _all_descs(members):
    for m in members:
        yield m
        if 'members' in m.fields:
            fac = m.fields.get('factor')
            if isinstance(fac, Obj):
                yield fac
            for x in _all_descs(m.fields['members']):
                yield x


def _used_ids(members):
    return set(m.fields['id'] for m in _all_descs(members))


def _used_seqs(ids, seqs, acc=None):
    acc = set() if acc is None else acc
    for i in ids:
        k = '%06d' % i
        if i >= 300000 and k in seqs and k not in acc:
            acc.add(k)
            _used_seqs([int(m) for m in seqs[k][1]], seqs, acc)
    return acc


def run(repo, check):
    check.run_rule(rule_r1, repo)
    check.run_rule(rule_r2, repo)
    check.run_rule(rule_r4, repo)
    check.run_rule(rule_r5, repo)
    check.run_rule(rule_r6, repo, check.tier)
    check.run_rule(rule_r9, repo)
    if check.tier == 'thorough':
        check.run_rule(rule_r8, repo)
    # R2 is an over-approximation ("a state method the walk calls and the compiler state does not override runs at compile time only"):
    # a method that only moves compile-time bookkeeping (the bitmap-definition machine, whose effect the compiler records as 031031
    # reset / increment statements) is harmless.  Its findings are reported unless both differentials - the abstract one over the
    # whole template family (R6) and the concrete one (R9) - ran and found plain and compiled walks in agreement.
    by_id = dict((r.rule, r) for r in check.results)
    r2_, r6_, r9_ = by_id.get('C08.R2'), by_id.get('C08.R6'), by_id.get('C08.R9')
    from sa.report import load_known
    known_ids = set(k['ident'] for k in load_known().get('known', []) if k.get('property') == 'C08')
    new6 = [f for f in (r6_.findings if r6_ is not None else []) if f.ident not in known_ids]
    new9 = [f for f in (r9_.findings if r9_ is not None else []) if f.ident not in known_ids]
    if r2_ is not None and r6_ is not None and r9_ is not None and not new6 and not new9:
        sus = [f for f in r2_.findings if f.key.endswith(':missing')]
        if sus:
            r2_.findings = [f for f in r2_.findings if f not in sus]
            for f in sus:
                r2_.notes.append('not reported: %s is not overridden by the compiler state, but the plain and the compiled walk agree on the whole family (R6, R9)' % f.key)
            r2_.instance('%d state method(s) without an override in the compiler state: plain and compiled walks agree on the whole family' % len(sus))
    from sa.rules import c14
    from sa.rules.common import share
    share(check, repo, c14.rule_r2, 'C08.R7', 'the flattened descriptor list that keys the compiled-template cache is the original list (shared with C14.R2)')
    check.assumptions = ['the differential compares abstract emission traces (primitive, descriptor, resolved width/scale/reference, links, bitmap '
                         'bookkeeping) over a finite family of templates: curated templates plus all ordered pairs (thorough: triples) of member symbols',
                         'equality of results on real data follows only together with C01/C02 (what each primitive does with its arguments)']
