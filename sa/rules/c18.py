"""
C18  Script preprocessing substitutes exactly the embedded queries.

The loop body of script.process_embedded_query_expr is evaluated by PathEval for every
state x character class x look-ahead (5 x 8 x 9 = 360 cases); the extracted transducer table is
compared entry by entry with the reference transducer of DESIGN appendix A.2.
Level: model checking of the extracted model.

R1 transducer table            R2 variable naming (same trimmed expression -> same name, counter)
R3 one indicator character     R4 nest-level relations        R5 pragma < argument precedence
"""
from __future__ import print_function

import ast

from sa.model import AnalysisError, norm
from sa.patheval import Interp, Native, Obj, Sym, Top, Raise, UnknownMethod, Frame
from sa.report import RuleResult


class Inp(Native):
    """The input string seen from the current position: current character and one look-ahead."""

    def __init__(self, cur, nxt):
        self.cur, self.nxt = cur, nxt

    def __repr__(self):
        return 'Inp'


class Rec(Native):
    def __init__(self, name):
        self.name = name

    def __repr__(self):
        return self.name

    def call_method(self, name, args, kwargs, interp, frame, node):
        interp.event(self.name + '.' + name, args[0] if args else None)
        return None


class ScriptInterp(Interp):
    def builtin(self, name, args, kwargs, node, frame):
        if name == 'len' and args and isinstance(args[0], Inp):
            return 1 + (1 if args[0].nxt is not None else 0)
        return Interp.builtin(self, name, args, kwargs, node, frame)

    def on_subscript(self, base, idx, node, frame):
        if isinstance(base, Inp):
            if idx == 0:
                return base.cur
            if idx == 1:
                if base.nxt is None:
                    raise Raise('IndexError', node, self.where(node, frame))
                return base.nxt
            raise AnalysisError('process_embedded_query_expr looks further than one character ahead (index %r)' % (idx,))
        if isinstance(base, Rec):
            return Sym('lookup', Sym(base.name), idx if isinstance(idx, Sym) else Sym(repr(idx)))
        return self.NOT_HANDLED

    def on_store_subscript(self, base, idx, value, node, frame):
        if isinstance(base, Rec):
            self.event(base.name + '[]=', idx, value)
            return True
        return False

    def cmp(self, op, l, r, frame=None):
        if isinstance(op, (ast.In, ast.NotIn)) and isinstance(r, Rec):
            return None
        return Interp.cmp(self, op, l, r, frame)

    def on_call(self, text, callee, args, kwargs, node, frame):
        if isinstance(callee, UnknownMethod):
            if callee.name == 'join' and isinstance(callee.recv, str) and args and isinstance(args[0], Rec):
                return Sym('join', callee.recv if callee.recv else Sym('""'), Sym(args[0].name))
            if isinstance(callee.recv, Sym) and callee.name in ('strip', 'lstrip', 'rstrip'):
                return Sym(callee.name, callee.recv)
        return self.NOT_HANDLED


class Model(object):
    def __init__(self, repo):
        self.repo = repo
        self.fi = repo.func('script', 'process_embedded_query_expr')
        loops = [s for s in self.fi.node.body if isinstance(s, ast.While)]
        if len(loops) != 1:
            raise AnalysisError('process_embedded_query_expr: expected one while loop')
        loop = loops[0]
        if norm(loop.test) != 'idx_char < len(input_string)' or norm(loop.body[0]) != 'c = input_string[idx_char]' or norm(loop.body[-1]) != 'idx_char += 1':
            raise AnalysisError('process_embedded_query_expr: the driver idiom `while idx_char < len(input_string): c = input_string[idx_char]; ...; '
                                'idx_char += 1` is no longer recognisable')
        self.body = loop.body[1:-1]
        for n in ast.walk(ast.Module(body=self.body, type_ignores=[])):
            if isinstance(n, (ast.Break, ast.Continue)):
                raise AnalysisError('process_embedded_query_expr: break/continue inside the scan loop')
        # prologue / epilogue
        i = self.fi.node.body.index(loop)
        self.pre, self.post = self.fi.node.body[:i], self.fi.node.body[i + 1:]
        self.states = {}
        for k in ('STATE_IDLE', 'STATE_EMBEDDED_QUERY', 'STATE_SINGLE_QUOTE', 'STATE_DOUBLE_QUOTE', 'STATE_COMMENT'):
            v = repo.const('script', k)
            if not isinstance(v, str):
                raise AnalysisError('script.%s is not a string constant' % k)
            self.states[k] = v
        if len(set(self.states.values())) != 5:
            raise AnalysisError('script state constants are not distinct: %r' % self.states)
        self.it = ScriptInterp(repo, None)

    def step(self, state, c, nxt):
        def frame():
            f = Frame(self.fi, self.fi.module, None, 0)
            f.locals.update({'state': state, 'c': c, 'input_string': Inp(c, nxt), 'idx_char': 0, 'idx_var': 7,
                             'keep': Rec('keep'), 'query_expr': Rec('query_expr'), 'substitutions': Rec('substitutions')})
            return f
        return self.it.run_paths(self.body, frame, 'script:body')


CLASSES = [('sq', "'"), ('dq', '"'), ('$', '$'), ('{', '{'), ('}', '}'), ('#', '#'), ('nl', '\n'), ('other', 'x')]


def reference(S, state, c, nxt):
    """(next state, characters consumed, action)  -- DESIGN appendix A.2"""
    IDLE, EMB, SQ, DQ, COM = S['STATE_IDLE'], S['STATE_EMBEDDED_QUERY'], S['STATE_SINGLE_QUOTE'], S['STATE_DOUBLE_QUOTE'], S['STATE_COMMENT']
    if state == EMB:
        if c == '}':
            return IDLE, 1, 'emit-variable'
        return EMB, 1, 'buffer'
    if state == IDLE:
        if c == "'":
            return SQ, 1, 'keep'
        if c == '"':
            return DQ, 1, 'keep'
        if c == '$' and nxt == '{':
            return EMB, 2, 'nothing'
        if c == '#':
            return COM, 1, 'keep'
        return IDLE, 1, 'keep'
    if state == SQ:
        return (IDLE if c == "'" else SQ), 1, 'keep'
    if state == DQ:
        return (IDLE if c == '"' else DQ), 1, 'keep'
    if state == COM:
        return (IDLE if c == '\n' else COM), 1, 'keep'
    raise AnalysisError('reference transducer: unknown state %r' % state)


def rule_r1(repo):
    rr = RuleResult('C18.R1', 'scan transducer: 5 states x 8 character classes x 9 look-aheads against the reference table')
    m = Model(repo)
    names = dict((v, k[6:]) for k, v in m.states.items())
    n = 0
    samples = []
    for sk, sv in sorted(m.states.items()):
        for cn, cv in CLASSES:
            for nn, nv in CLASSES + [('EOF', None)]:
                res = m.step(sv, cv, nv)
                n += 1
                want = reference(m.states, sv, cv, nv)
                outs = set()
                for r in res:
                    if not r.ok:
                        outs.add(('raise ' + r.exc.cls,))
                        continue
                    loc = r.locals
                    keeps = [e[1] for e in r.events if e[0] == 'keep.append']
                    bufs = [e[1] for e in r.events if e[0] == 'query_expr.append']
                    if keeps == [cv] and not bufs:
                        act = 'keep'
                    elif bufs == [cv] and not keeps:
                        act = 'buffer'
                    elif not keeps and not bufs:
                        act = 'nothing'
                    elif len(keeps) == 1 and not bufs and keeps[0] != cv:
                        act = 'emit-variable'
                    else:
                        act = 'keep=%r buffer=%r' % (keeps, bufs)
                    consumed = loc.get('idx_char')
                    outs.add((loc.get('state'), (consumed + 1) if isinstance(consumed, int) else consumed, act))
                if len(samples) < 12 and n % 30 == 1:
                    samples.append({'state': names[sv], 'char': cv, 'lookahead': nv, 'result': sorted(map(repr, outs))})
                if outs != {want}:
                    def fmt(o):
                        if len(o) == 1:
                            return o[0]
                        return 'state %s, %s character(s) consumed, %s' % (names.get(o[0], repr(o[0])), o[1], o[2])
                    rr.fail('transducer:%s:%s' % (names[sv], cn), m.fi.where,
                            'in state %s on %r (next %r): %s; reference: %s' % (names[sv], cv, nv, ' | '.join(fmt(o) for o in sorted(outs, key=repr)), fmt(want)),
                            witness={'state': names[sv], 'char': cv, 'lookahead': nv})
            rr.instance('state %s on %s x 9 look-aheads' % (names[sv], cn))
    # prologue: starts idle with empty buffers; epilogue returns the joined output and the substitutions
    pre = ' ; '.join(norm(s) for s in m.pre)
    rr.instance('prologue / epilogue')
    it = ScriptInterp(repo, None)

    def frame0():
        f = Frame(m.fi, m.fi.module, None, 0)
        f.locals['input_string'] = Inp('x', None)
        return f
    res = it.run_paths(m.pre, frame0, 'script:prologue')
    for r in res:
        loc = r.locals
        if not r.ok or loc.get('state') != m.states['STATE_IDLE'] or loc.get('keep') != [] or loc.get('query_expr') != [] \
                or loc.get('substitutions') != {} or loc.get('idx_char') != 0 or loc.get('idx_var') != 0:
            rr.fail('transducer:prologue', m.fi.where, 'the scan does not start idle at position 0 with empty output / buffer / substitutions: %s' % pre)
    post = [norm(s) for s in m.post]
    if post != ["return (''.join(keep), substitutions)"]:
        rr.fail('transducer:epilogue', m.fi.where, 'the function ends with %s; expected the joined output and the substitutions' % post)
    rr.extra = {'cases': n, 'samples': samples}
    rr.require_floor(40)
    return rr


def reference_scan(S, text):
    """The reference transducer of A.2 run over a whole string: (output, {trimmed expression: variable}, ended inside ${...)."""
    state, out, buf, subs, i = S['STATE_IDLE'], [], [], {}, 0
    order = []
    while i < len(text):
        c = text[i]
        nxt = text[i + 1] if i + 1 < len(text) else None
        state2, consumed, act = reference(S, state, c, nxt)
        if act == 'keep':
            out.append(c)
        elif act == 'buffer':
            buf.append(c)
        elif act == 'emit-variable':
            key = ''.join(buf).strip()
            buf = []
            if key not in subs:
                subs[key] = 'PBK_%d' % len(order)
                order.append(key)
            out.append(subs[key])
        state = state2
        i += consumed
    return ''.join(out), subs, state == S['STATE_EMBEDDED_QUERY']


class WholeInterp(Interp):
    MAX_STEPS = 200000

    def on_while(self, node, frame):
        return self.unroll_while(node, frame, 80)

    def on_call(self, text, callee, args, kwargs, node, frame):
        if text in ('OrderedDict', 'collections.OrderedDict') and not args:
            return {}
        return self.NOT_HANDLED


def rule_r1_strings(repo, tier, rule_id='C18.R1s'):
    """The whole function folded on every string up to a length over one representative per character class, compared with the
    reference transducer run over the same string.  Does not depend on how the scan loop is written."""
    import itertools
    rr = RuleResult(rule_id, 'scan folded on every string up to length %d over the 9 character classes, against the reference transducer' % (5 if tier == 'thorough' else 4))
    fi = repo.func('script', 'process_embedded_query_expr')
    S = {}
    for k in ('STATE_IDLE', 'STATE_EMBEDDED_QUERY', 'STATE_SINGLE_QUOTE', 'STATE_DOUBLE_QUOTE', 'STATE_COMMENT'):
        S[k] = repo.const('script', k)
    alphabet = ["'", '"', '$', '{', '}', '#', '\n', 'x', ' ']
    L = 5 if tier == 'thorough' else 4
    extra = ['${ a }+${a}-${ b}', "x = '${q}' # ${c}\n${ q }", '${a}${a}${b}${a}', '"#"${%length}#${x}\n${x}', "${'}'}", '$${a}', '${a}$', 'a$b{c}', "'\n${a}'${a}"]
    n = 0
    it = WholeInterp(repo, None)
    for text in itertools.chain((''.join(t) for k in range(0, L + 1) for t in itertools.product(alphabet, repeat=k)), extra):
        want_out, want_subs, unterminated = reference_scan(S, text)
        if unterminated:
            continue            # an expression that is never closed is outside the property
        n += 1
        res = it.run_function(fi, lambda: {'input_string': text})
        if len(res) != 1:
            raise AnalysisError('process_embedded_query_expr(%r) forks into %d paths on a concrete string' % (text, len(res)))
        r = res[0]
        if not r.ok:
            rr.fail('scan:raises', fi.where, 'preprocessing %r raises %s' % (text, r.exc.cls), witness={'script': text})
            continue
        v = r.value
        if not (isinstance(v, tuple) and len(v) == 2 and isinstance(v[0], str) and isinstance(v[1], dict)):
            raise AnalysisError('process_embedded_query_expr(%r) does not fold to (text, substitutions): %r' % (text, v))
        if v[0] != want_out:
            rr.fail('scan:output', fi.where, 'preprocessing %r gives %r; the documented scan gives %r (only ${...} outside quotes and comments is replaced, '
                    'every other character is kept)' % (text, v[0], want_out), witness={'script': text})
        elif dict(v[1]) != want_subs:
            rr.fail('scan:substitutions', fi.where, 'preprocessing %r binds %r; expected %r (one name per whitespace-trimmed expression, numbered in order of '
                    'first appearance)' % (text, dict(v[1]), want_subs), witness={'script': text})
    rr.instance('%d strings (all of length <= %d over %d classes that do not end inside ${...}, plus %d longer scripts)' % (n, L, len(alphabet), len(extra)))
    rr.instance('alphabet %r' % (alphabet,))
    rr.extra = {'strings_folded': n}
    rr.require_floor(2)
    return rr


def rule_r2(repo):
    rr = RuleResult('C18.R2', 'variable naming: one name per trimmed expression, fresh names numbered consecutively')
    m = Model(repo)
    res = m.step(m.states['STATE_EMBEDDED_QUERY'], '}', 'x')
    seen_new = seen_old = False
    for r in res:
        if not r.ok:
            rr.fail('naming:raise', m.fi.where, 'closing an embedded expression raises %s' % r.exc.cls)
            continue
        keeps = [e[1] for e in r.events if e[0] == 'keep.append']
        stores = [e for e in r.events if e[0] == 'substitutions[]=']
        loc = r.locals
        key_expected = 'strip(join("",query_expr))'
        if stores:
            seen_new = True
            k, v = stores[0][1], stores[0][2]
            rr.instance('new expression: stored %r under %r, emitted %r, counter %r' % (v, k, keeps, loc.get('idx_var')))
            if repr(k) != key_expected:
                rr.fail('naming:key', m.fi.where, 'the substitution is keyed by %r; expected the whitespace-trimmed buffered expression' % (k,))
            if v != 'PBK_7' or keeps != ['PBK_7']:
                rr.fail('naming:new', m.fi.where, 'with the counter at 7 a new expression stores %r and emits %r (expected PBK_7 for both)' % (v, keeps))
            if loc.get('idx_var') != 8:
                rr.fail('naming:counter', m.fi.where, 'the variable counter goes from 7 to %r after a new expression (expected 8)' % (loc.get('idx_var'),))
        else:
            seen_old = True
            rr.instance('seen expression: emitted %r, counter %r' % (keeps, loc.get('idx_var')))
            if len(keeps) != 1 or repr(keeps[0]) != 'lookup(substitutions,%s)' % key_expected:
                rr.fail('naming:seen', m.fi.where, 'a repeated expression emits %r; expected the name stored for the trimmed expression' % (keeps,))
            if loc.get('idx_var') != 7:
                rr.fail('naming:counter-seen', m.fi.where, 'the counter moves to %r for a repeated expression' % (loc.get('idx_var'),))
        if loc.get('query_expr') != []:
            rr.fail('naming:buffer-reset', m.fi.where, 'the expression buffer is not emptied after the closing brace (left %r)' % (loc.get('query_expr'),))
    if not (seen_new and seen_old):
        rr.fail('naming:cases', m.fi.where, 'the closing brace does not distinguish new from already seen expressions')
    rr.require_floor(2)
    return rr


def rule_r3(repo):
    rr = RuleResult('C18.R3', 'metadata-only detection and the query dispatcher test the same indicator character')
    ind = repo.const('mdquery', 'METADATA_QUERY_INDICATOR_CHAR')
    rr.instance('METADATA_QUERY_INDICATOR_CHAR == %r' % (ind,))
    if ind != '%':
        rr.fail('indicator:constant', 'pybufrkit/mdquery.py', 'the metadata indicator is %r, documented %%' % (ind,))
    init = repo.own_method('ScriptRunner', '__init__')
    # (which test __init__ applies is decided by folding it below, not by looking for a startswith call)
    # metadata_only starts True and is cleared by any non-metadata expression
    it = Interp(repo, 'ScriptRunner')

    class I(Interp):
        def on_call(self2, text, callee, args, kwargs, node, frame):
            if text == 'process_embedded_query_expr':
                return (Sym('CODE'), self2.subs)
            if text in ('self.process_pragma', 'compile', 'BufrMessageQuerent'):
                return Top(text)
            return self2.NOT_HANDLED
    for subs, want in (({}, True), ({'%length': 'PBK_0'}, True), ({'%length': 'PBK_0', '/001001': 'PBK_1'}, False), ({'001001': 'PBK_0'}, False),
                       ({'%1.year': 'PBK_0', '%n_subsets': 'PBK_1'}, True), ({'/001001': 'PBK_0', '%length': 'PBK_1'}, False),
                       ({'%a': 'PBK_0', '001001': 'PBK_1', '%b': 'PBK_2'}, False)):
        i2 = I(repo, 'ScriptRunner')
        i2.subs = dict(subs)
        res = i2.run_function(init, lambda: {'self': Obj('ScriptRunner', {}), 'input_string': Sym('SRC'), 'data_values_nest_level': None, 'mode': 'exec'},
                              self_class='ScriptRunner')
        rr.instance('metadata_only for expressions %s -> %s' % (sorted(subs), want))
        for r in res:
            got = r.locals['self'].fields.get('metadata_only') if r.ok else r.describe()
            if got is not want:
                rr.fail('indicator:metadata_only', init.where, 'for expressions %s metadata_only is %r (expected %r: only metadata exactly when every '
                        'expression starts with %%)' % (sorted(subs), got, want))
    q = repo.own_method('BufrMessageQuerent', 'query')
    rr.instance('BufrMessageQuerent.query dispatches on the indicator')
    # metadata expression -> metadata querent, anything else -> data querent: folded with the two querents scripted (how the branch is
    # written - if/else, a conditional expression choosing the querent - does not matter)
    from sa.patheval import Stub
    for expr, want in (('%length', 'metadata'), ('  %1.year', 'metadata'), ('/001001', 'data'), ('001001', 'data'), ('@[0]/001001', 'data'), ('/001001%', 'data')):
        i4 = Interp(repo, 'BufrMessageQuerent')
        calls = []

        def mkq(kind):
            def query(interp, a, kw, node, frame):
                calls.append((kind, a[1] if len(a) > 1 else kw.get('query_expr', kw.get('metadata_expr', kw.get('path_expr')))))
                return Sym('RESULT-' + kind)
            return Stub(kind + ' querent', {'query': query})

        def mk():
            del calls[:]
            return {'self': Obj('BufrMessageQuerent', {'metadata_querent': mkq('metadata'), 'data_querent': mkq('data')}), 'bufr_message': Sym('MSG'), 'query_expr': expr}
        res = i4.run_function(q, mk, self_class='BufrMessageQuerent')
        rr.instance('query(%r) -> %s querent' % (expr, want))
        if expr.startswith(' '):
            continue     # leading blanks: the property does not say; recorded as an instance only
        for r in res:
            if not r.ok or [c[0] for c in calls] != [want] or calls[0][1] != expr or repr(r.value) != 'RESULT-' + want:
                rr.fail('indicator:dispatch', q.where, 'query(%r) dispatches to %s and returns %s (expected the %s querent, called once with the expression, '
                        'its result returned)' % (expr, calls or r.describe(), r.value if r.ok else r.describe(), want))
    rr.require_floor(10)
    return rr


def rule_r4(repo):
    """flatten_data_values folded on concrete query results (a scripted result object answering all_values(flat=...)): how the
    concatenation is written (reduce with a lambda, operator.add, a loop, a helper) does not matter."""
    from sa.patheval import Stub
    rr = RuleResult('C18.R4', 'nesting levels: level 1 is the concatenation of level 2, level 0 its first element or None, level 4 unflattened')
    fi = repo.own_method('ScriptRunner', 'flatten_data_values')
    L = dict((k, repo.const('script', 'DATA_VALUES_NEST_LEVEL_%d' % k)) for k in (0, 1, 2, 4))
    if L != {0: 0, 1: 1, 2: 2, 4: 4}:
        rr.fail('nest:constants', 'pybufrkit/script.py', 'nest level constants are %r' % L)
    shapes = [
        ('two subsets', [[1, 2], [3]], [[[1], [2]], [[3]]]),
        ('one subset, one value', [[7]], [[[7]]]),
        ('no subset selected', [], []),
        ('first subset empty', [[], [5, 6]], [[], [[5, 6]]]),
        ('all subsets empty', [[], []], [[], []]),
        ('missing first', [[None, 4]], [[[None], [4]]]),
        ('zero first', [[0, 4]], [[[0], [4]]]),
        ('only value is 0.0', [[0.0]], [[[0.0]]]),
        ('empty string first', [['', 1]], [[[''], [1]]]),
        ('False first', [[False, True]], [[[False], [True]]]),
    ]
    for name, lvl2, lvl4 in shapes:
        flat1 = [x for sub in lvl2 for x in sub]
        want = {0: flat1[0] if flat1 else None, 1: flat1, 2: lvl2, 4: lvl4}
        for lvl in (0, 1, 2, 4):
            it = Interp(repo, 'ScriptRunner')
            asked = []

            def all_values(interp, a, kw, node, frame):
                flat = kw.get('flat', a[0] if a else False)
                asked.append(flat)
                import copy
                return copy.deepcopy(lvl2 if flat is True else lvl4)
            qr = Stub('query result', {'all_values': all_values})
            res = it.run_function(fi, lambda: {'self': Obj('ScriptRunner', {'pragma': {'data_values_nest_level': lvl}}), 'qr': qr}, self_class='ScriptRunner')
            rr.instance('%s, level %d -> %r' % (name, lvl, want[lvl]))
            for r in res:
                got = r.value if r.ok else r.describe()
                if len(res) != 1 or not r.ok or got != want[lvl] or (lvl == 0 and type(got) is not type(want[0])):
                    rr.fail('nest:level%d' % lvl, fi.where, 'nest level %d on %s (per-subset values %r) yields %r; documented: %r' % (lvl, name, lvl2, got, want[lvl]),
                            witness={'level': lvl, 'per_subset': lvl2})
    rr.require_floor(4)
    return rr


def rule_r5(repo):
    rr = RuleResult('C18.R5', 'the nest level given as argument overrides the pragma, the pragma overrides the default')
    init = repo.own_method('ScriptRunner', '__init__')

    class I(Interp):
        """The constructor folded on a concrete script: the pragma lines are read by the repository's own process_pragma (however the
        constructor and that method divide the work between them)."""
        pragma_level = None

        def on_call(self2, text, callee, args, kwargs, node, frame):
            if text == 'process_embedded_query_expr':
                return (self2.script(), {})
            if text == 'ast.literal_eval' or (isinstance(callee, UnknownMethod) and callee.name == 'literal_eval'):
                a = args[0]
                if isinstance(a, str):
                    try:
                        return ast.literal_eval(a)
                    except Exception:
                        raise Raise('ValueError', node, self2.where(node, frame))
                return Top('literal')
            if text in ('compile', 'BufrMessageQuerent'):
                return Top(text)
            return self2.NOT_HANDLED

        def script(self2):
            return ('#$ data_values_nest_level = %d\nx = 1\n' % self2.pragma_level) if self2.pragma_level is not None else 'x = 1\n'

        def on_while(self2, node, frame):
            return self2.unroll_while(node, frame, 80)

    def level_of(o):
        p = o.fields.get('pragma')
        if not isinstance(p, dict) or 'data_values_nest_level' not in p:
            raise AnalysisError('ScriptRunner keeps its nest level in %r, not in self.pragma[\'data_values_nest_level\']: the rule cannot read it' % (p,))
        return p['data_values_nest_level']
    # (0 is a legal level: it must win as argument and as pragma, and must not be mistaken for "not given")
    for arg, prag, want in ((None, None, 1), (None, 2, 2), (4, 2, 4), (0, None, 0), (0, 4, 0), (2, 0, 2), (None, 0, 0), (None, 4, 4), (None, 1, 1), (1, 0, 1), (0, 0, 0)):
        it = I(repo, 'ScriptRunner')
        it.pragma_level = prag
        res = it.run_function(init, lambda: {'self': Obj('ScriptRunner', {}), 'input_string': it.script(), 'data_values_nest_level': arg, 'mode': 'exec'},
                              self_class='ScriptRunner')
        rr.instance('argument %r, pragma %r -> level %r' % (arg, prag, want))
        for r in res:
            got = level_of(r.locals['self']) if r.ok else r.describe()
            if got != want:
                rr.fail('pragma:precedence', init.where, 'argument %r with pragma %r gives level %r (expected %r)' % (arg, prag, got, want),
                        witness={'argument': arg, 'pragma': prag})
    # two runners created one after the other in one interpreter (module- and class-level objects are shared, as at run time): what the
    # first one was given must not become the default of the second, nor may the second change the first
    it = I(repo, 'ScriptRunner')
    made = []
    for arg, prag in ((4, None), (None, None), (None, 2), (None, None)):
        it.pragma_level = prag
        res = it.run_function(init, lambda: {'self': Obj('ScriptRunner', {}), 'input_string': it.script(), 'data_values_nest_level': arg, 'mode': 'exec'},
                              self_class='ScriptRunner')
        oks = [r for r in res if r.ok]
        if len(oks) != 1:
            raise AnalysisError('ScriptRunner.__init__ does not fold to one path (%s)' % [r.describe() for r in res])
        made.append((arg, prag, oks[0].locals['self']))
    rr.instance('four runners in one process: levels stay per runner')
    want_levels = [4, 1, 2, 1]
    got_levels = [level_of(o) for _, _, o in made]
    if got_levels != want_levels:
        rr.fail('pragma:shared-between-runners', init.where, 'runners created with (argument, pragma) = %s end up with levels %s (expected %s): the level of one runner '
                'leaks into another through a shared object' % ([(a, p) for a, p, _ in made], got_levels, want_levels))
    # pragma lines: only leading `#$` lines count, unknown keys are ignored (the whole constructor folded on concrete scripts, so that
    # it does not matter whether process_pragma writes the setting itself or hands it back to the constructor)
    pp = repo.own_method('ScriptRunner', 'process_pragma')

    class P(I):
        code = ''

        def script(self2):
            return self2.code
    for code, want in (('#$ data_values_nest_level = 2\nx = 1', 2), ('x = 1\n#$ data_values_nest_level = 2', 1), ('#$ data_values_nest_level=4\n#$ other = 3\n', 4),
                       ('#$ unknown = 5\nprint(1)', 1), ('', 1), ('# plain comment\n#$ data_values_nest_level = 0', 1),
                       ('#$ data_values_nest_level = 0\n#$ data_values_nest_level = 4\ny = 2', 4), ('#$ other = 3, data_values_nest_level = 2\n', 2)):
        it = P(repo, 'ScriptRunner')
        it.code = code
        res = it.run_function(init, lambda: {'self': Obj('ScriptRunner', {}), 'input_string': code, 'data_values_nest_level': None, 'mode': 'exec'}, self_class='ScriptRunner')
        rr.instance('script %r -> level %r' % (code, want))
        for r in res:
            got = level_of(r.locals['self']) if r.ok else r.describe()
            p_ = r.locals['self'].fields.get('pragma') if r.ok else {}
            extra = set(p_) - {'data_values_nest_level'} if isinstance(p_, dict) else set()
            if got != want or extra:
                rr.fail('pragma:parsing', pp.where, 'script %r sets the level to %r%s (expected %r; only leading #$ lines count, unknown keys are ignored)' % (
                    code, got, ' and adds keys %s' % sorted(extra) if extra else '', want))
    # command line: an absent -n must reach ScriptRunner as None, otherwise a pragma in the script can never take effect
    main = repo.func('__init__', 'main')
    opt = None
    for n in ast.walk(main.node):
        if isinstance(n, ast.Call) and isinstance(n.func, ast.Attribute) and n.func.attr == 'add_argument' and \
                any(isinstance(a, ast.Constant) and a.value == '--data-values-nest-level' for a in n.args):
            opt = n
    rr.instance('command line option --data-values-nest-level has no default')
    if opt is None:
        raise AnalysisError('main(): option --data-values-nest-level not found')
    for kw in opt.keywords:
        if kw.arg == 'default' and not (isinstance(kw.value, ast.Constant) and kw.value.value is None):
            rr.fail('main:nest-level-default', '%s:%d' % (main.module.relpath, opt.lineno), 'the option --data-values-nest-level defaults to %s: ScriptRunner then always '
                    'receives a level and a `#$ data_values_nest_level = N` pragma in the script is silently ignored' % norm(kw.value))
    cs = repo.func('commands', 'command_script')

    class C(Interp):
        def on_call(self2, text, callee, args, kwargs, node, frame):
            if text == 'ScriptRunner':
                self2.event('runner', kwargs.get('data_values_nest_level', args[1] if len(args) > 1 else 'ABSENT'))
                return Obj('ScriptRunnerStub', {'metadata_only': True})
            if text in ('Decoder', 'open', 'sys.stdin.read', 'ins.read', 'script_runner.run', 'decoder.process'):
                return Top(text)
            return self2.NOT_HANDLED
    for lvl in (None, 0, 2, 4):
        it = C(repo, None)
        ns = Obj('Namespace', {'from_file': False, 'input': 'print(1)', 'data_values_nest_level': lvl, 'filenames': [], 'definitions_directory': None,
                               'tables_root_directory': None, 'compiled_template_cache_max': None, 'ignore_value_expectation': False})
        res = it.run_function(cs, lambda: {'ns': ns})
        rr.instance('command_script hands nest level %r to ScriptRunner' % (lvl,))
        for r in res:
            got = [e[1] for e in r.events if e[0] == 'runner']
            if not r.ok or got != [lvl]:
                rr.fail('commands.command_script:nest-level', cs.where, 'with -n %r ScriptRunner receives %s' % (lvl, got or r.describe()))
    rr.require_floor(14)
    return rr


def rule_r6(repo):
    rr = RuleResult('C18.R6', 'QueryResult: level 2 (flat per subset) is the flattening of level 4, both in the order the subsets were selected')
    qc = 'QueryResult'
    from sa.rules.c16 import QueryInterp
    results = {5: [[1, [2]], 3], 3: [[4]], 1: []}

    def call(meth, **kw):
        fi = repo.own_method(qc, meth)
        it = QueryInterp(repo, qc)
        loc = {'self': Obj(qc, {'results': dict(results), 'path_expr': 'x'})}
        loc.update(kw)
        for p in fi.params[1:]:
            if p not in loc:
                di = fi.params.index(p) - (len(fi.params) - len(fi.defaults))
                loc[p] = ast.literal_eval(fi.defaults[di]) if di >= 0 else None
        res = it.run_function(fi, lambda: dict(loc), self_class=qc)
        if len(res) != 1 or not res[0].ok:
            raise AnalysisError('QueryResult.%s could not be folded: %s' % (meth, [r.describe() for r in res]))
        return fi, res[0].value
    fi, idx = call('subset_indices')
    rr.instance('subset_indices() keeps selection order')
    if idx != [5, 3, 1]:
        rr.fail('QueryResult.subset_indices', fi.where, 'subsets selected in the order [5, 3, 1] are reported as %r: levels 0-2 (which iterate subset_indices) and level 4 '
                '(which iterates the results) would disagree for a selector such as @[::-1]' % (idx,))
    fi4, l4 = call('all_values', flat=False)
    fi2, l2 = call('all_values', flat=True)
    rr.instance('all_values(flat=True) == per-subset flattening of all_values()')

    def fl(v):
        out = []
        for x in v:
            out += fl(x) if isinstance(x, list) else [x]
        return out
    if l4 != [[[1, [2]], 3], [[4]], []] or l2 != [fl(v) for v in l4]:
        rr.fail('QueryResult.all_values', fi2.where, 'level 4 is %r and level 2 is %r; level 2 must be the per-subset flattening of level 4, subset by subset' % (l4, l2))
    rr.require_floor(2)
    return rr


def rule_r7(repo, rule='C18.R7'):
    """ScriptRunner.run folded with the querent scripted: every run queries every embedded expression on the message it is given and
    runs the code with exactly those names (plus message and file name) as its *global* namespace."""
    from sa.patheval import Stub
    rr = RuleResult(rule, 'running a script binds the variable names to fresh query results, the message and the file name, as the global namespace of the code')
    init = repo.own_method('ScriptRunner', '__init__')
    run_fi = repo.own_method('ScriptRunner', 'run')
    subs = {'%length': 'PBK_0', '/001001': 'PBK_1'}
    for mode in ('exec', 'eval'):
        queries = []
        runs = []

        class I(Interp):
            def on_call(self2, text, callee, args, kwargs, node, frame):
                if text == 'process_embedded_query_expr':
                    return ('PBK_0 + len(PBK_1)', dict(subs))
                if text == 'compile':
                    return Sym('CODEOBJ')
                if text == 'BufrMessageQuerent':
                    def query(interp, a, kw, node, frame):
                        queries.append((a[0] if a else None, a[1] if len(a) > 1 else None))
                        return Sym('RESULT:%s:%d' % (a[1] if len(a) > 1 else '?', len(queries)))
                    return Stub('querent', {'query': query})
                if text in ('exec', 'eval') and not isinstance(callee, Stub):
                    return self2.executed(text, args, kwargs)
                return self2.NOT_HANDLED

            def executed(self2, name, args, kwargs):
                glob = args[1] if len(args) > 1 else kwargs.get('globals')
                runs.append((name, list(args), dict(kwargs), dict(glob) if isinstance(glob, dict) else None))
                if isinstance(glob, dict) and name == 'exec':
                    glob['assigned_in_run_%d' % self2.run_no] = self2.run_no        # what the script itself binds
                return Sym('EVALUATED') if name == 'eval' else None

            def builtin(self2, name, args, kwargs, node, frame):
                if name in ('exec', 'eval'):
                    return self2.executed(name, args, kwargs)
                if name == 'isinstance' and len(args) == 2 and isinstance(args[0], Sym):
                    return False          # a scripted result is not a QueryResult: handed through unflattened
                return Interp.builtin(self2, name, args, kwargs, node, frame)
        it = I(repo, 'ScriptRunner')
        res = it.run_function(init, lambda: {'self': Obj('ScriptRunner', {}), 'input_string': Sym('SRC'), 'data_values_nest_level': None, 'mode': mode}, self_class='ScriptRunner')
        oks = [r for r in res if r.ok]
        if len(oks) != 1:
            raise AnalysisError('ScriptRunner.__init__ (mode %s) does not fold to one path: %s' % (mode, [r.describe() for r in res]))
        runner = oks[0].locals['self']
        msgs = [Obj('BufrMessage', {'filename': 'a.bufr', '__id__': 'A'}), Obj('BufrMessage', {'filename': 'b.bufr', '__id__': 'B'})]
        history = [msgs[0], msgs[0], msgs[1], msgs[0]]
        handed_out = []
        for k, msg in enumerate(history):
            del queries[:]
            del runs[:]
            it.run_no = k + 1
            res = it.run_function(run_fi, lambda: {'self': runner, 'bufr_message': msg}, self_class='ScriptRunner')
            rr.instance('%s mode, run %d of the history A A B A' % (mode, k + 1))
            key = 'run:%s' % mode
            if len(res) != 1 or not res[0].ok:
                rr.fail(key + ':outcome', run_fi.where, 'run() on a scripted message gives %s' % [r.describe() for r in res])
                continue
            asked = sorted((m.fields.get('__id__') if isinstance(m, Obj) else repr(m), e) for m, e in queries)
            want_asked = sorted((msg.fields['__id__'], e) for e in subs)
            if asked != want_asked:
                rr.fail(key + ':queries', run_fi.where, 'run %d (message %s, history A A B A) evaluates the queries %s; expected every embedded expression once on the message '
                        'of this run: %s (results carried over from an earlier run are not the results of this message, and may have been changed by the '
                        'script)' % (k + 1, msg.fields['__id__'], asked, want_asked), witness={'run': k + 1, 'mode': mode})
                continue
            if len(runs) != 1 or runs[0][0] != mode:
                rr.fail(key + ':executed', run_fi.where, 'run() in %s mode executes %s' % (mode, [(r[0], len(r[1])) for r in runs]))
                continue
            name, a, kw, seen = runs[0]
            glob = a[1] if len(a) > 1 else kw.get('globals')
            loc = a[2] if len(a) > 2 else kw.get('locals')
            if repr(a[0]) != 'CODEOBJ' or not isinstance(glob, dict):
                rr.fail(key + ':namespace', run_fi.where, '%s is called with %s; expected the compiled code and the dict of variables as its global namespace' % (name, [repr(x)[:60] for x in a]))
                continue
            if loc is not None and loc is not glob:
                rr.fail(key + ':namespace', run_fi.where, '%s gets a separate local namespace: names bound only there are invisible inside generator expressions, '
                        'comprehensions and lambdas of the script / filter expression (NameError)' % name)
            if mode == 'exec' and any(glob is g for g, _ in handed_out):       # exec mode returns the namespace to the caller
                rr.fail(key + ':namespace-reused', run_fi.where, 'run %d executes the code in the very dict an earlier run used (and, in exec mode, returned): the names the script '
                        'bound for an earlier message are still bound for this one, and what the earlier run returned is rewritten' % (k + 1), witness={'run': k + 1, 'mode': mode})
                continue
            handed_out.append((glob, dict(glob)))
            names = dict((k2, v) for k2, v in seen.items() if k2 != '__builtins__')
            got = dict((k2, (v.fields.get('__id__') if isinstance(v, Obj) else (repr(v).split(':')[1] if isinstance(v, Sym) and repr(v).startswith('RESULT:') else v))) for k2, v in names.items())
            want = {'PBK_0': '%length', 'PBK_1': '/001001', 'PBK_BUFR_MESSAGE': msg.fields['__id__'], 'PBK_FILENAME': msg.fields['filename']}
            if got != want:
                rr.fail(key + ':bindings', run_fi.where, 'run %d binds %s; expected %s' % (k + 1, got, want), witness={'run': k + 1, 'mode': mode})
        for n, (g, snap) in enumerate(handed_out if mode == 'exec' else []):
            if set(g) != set(snap) or any(g[x] is not snap[x] for x in snap):
                rr.fail('run:%s:earlier-namespace-rewritten' % mode, run_fi.where, 'the namespace of run %d no longer shows what that run bound once later runs have happened' % (n + 1))
    rr.require_floor(8)
    return rr


def run(repo, check):
    r1s = rule_r1_strings(repo, check.tier)
    try:
        r1 = rule_r1(repo)
        check.add(r1)
        check.add(r1s)
        check.run_rule(rule_r2, repo)
        table = True
    except AnalysisError as e:
        # the scan loop is written in a form the table extraction does not read: the bounded fold over whole strings decides alone
        # (its verdict is for every string up to the bound, not for every string)
        r1s.rule = 'C18.R1'
        for f in r1s.findings:
            f.rule = 'C18.R1'
        r1s.note('table extraction not applicable on this tree (%s); decided by the bounded whole-string fold' % e)
        check.add(r1s)
        r1 = r1s
        r1.extra = dict(r1.extra, cases=r1.extra['strings_folded'], samples=[{'note': 'bounded whole-string fold', 'strings': r1.extra['strings_folded']}])
        table = False
    check.run_rule(rule_r3, repo)
    check.run_rule(rule_r4, repo)
    check.run_rule(rule_r5, repo)
    check.run_rule(rule_r7, repo)
    check.run_rule(rule_r6, repo)
    check.coverage_extra = {
        'states': 5, 'transitions': r1.extra['cases'], 'traces_validated_against_impl': 0, 'samples': r1.extra['samples'] or [{'note': 'none'}],
        'model': ('transducer table of process_embedded_query_expr extracted from its syntax tree on this run: 5 states x 8 character classes x 9 '
                  'look-aheads, compared entry by entry with the reference transducer (DESIGN appendix A.2); plus the whole function folded on every '
                  'string up to a bound') if table else 'whole function folded on every string up to a bound against the reference transducer (the loop is not in the form the table extraction reads)',
    }
    check.assumptions = ['escape-free string literals (the scanner has no escape handling and the property excludes escapes)',
                         'query results themselves (C16) and the exec/eval of the script are runtime facts and are not decided']
