"""
C16  Data queries return exactly the values the path designates (structural part).

DataQuerent.query (the repository's code, with the repository's path parser) is folded by PathEval on
small concrete wired node trees; the result is compared with a reference evaluation of the same path over
the *nested JSON rendering* of the same tree (itself produced by folding NestedJsonRenderer, whose
faithfulness is C09.R5).  The reference implements only what the property states: child (/) and
attribute (.) steps with Python slices, one envelope per replication and one list per repetition,
document order; bare IDs of ordinary elements return every value with that ID in flat order; `@`
selects subsets; compressed data share one tree.

R1 child / attribute paths with slices over a tree with sequences, fixed and delayed (incl. zero-count and
   nested) replications, factors, associated / quality / marker attributes
R2 bare IDs = all values carrying the ID in the flat data          R3 subset selectors, compressed = uncompressed
R4 valueless targets and missing containers are reported with QueryError, never another exception
"""
from __future__ import print_function

from sa.model import AnalysisError
from sa.patheval import Interp, Obj, Sym, Top, Raise
from sa.report import RuleResult
from sa.rules.c09 import TextInterp, _elem


class QueryInterp(TextInterp):
    MAX_DEPTH = 80
    LIST_CAP = 400

    def on_call(self, text, callee, args, kwargs, node, frame):
        if text == 'OrderedDict':
            return {}
        if text.startswith('log.'):
            return None
        return TextInterp.on_call(self, text, callee, args, kwargs, node, frame)

    def on_load_attr(self, base, attr, node, frame):
        if isinstance(base, Obj) and base.cls == 'DataQuerent' and attr == 'path_parser':
            # the parser as its constructor leaves it (one per query: what a parser keeps between two parses is decided by C15.R1)
            p = Interp.construct(self, 'NodePathParser', [], {}, node, frame)
            p.fields.setdefault('bare_id_matches_all', True)
            return p
        return TextInterp.on_load_attr(self, base, attr, node, frame)

    def construct(self, cname, args, kwargs, node, frame):
        if cname == 'PathComponent':
            vals = dict(zip(['separator', 'id', 'slice'], args))
            vals.update((k, v) for k, v in kwargs.items() if k in ('separator', 'id', 'slice'))
            return Obj('PathComponent', vals)
        return TextInterp.construct(self, cname, args, kwargs, node, frame)


def V(descs, vals, d, v, cls='ValueDataNode', **extra):
    descs.append(d)
    vals.append(v)
    f = {'descriptor': d, 'index': len(vals) - 1}
    f.update(extra)
    return Obj(cls, f)


def build_tree(variant=0, q_owner='t2'):
    """Wired nodes + flat descriptors/values of one subset.  `variant` changes values (and the delayed count); `q_owner` chooses the
    element the bit-mapped quality value belongs to (same descriptors, other bitmap)."""
    descs, vals = [], []
    k = variant
    nodes = []
    nodes.append(V(descs, vals, _elem(1001, 'WMO BLOCK NUMBER'), 10 + k))
    i1 = V(descs, vals, _elem(4001, 'YEAR'), 2020 + k)
    i2 = V(descs, vals, _elem(4002, 'MONTH'), 2)
    i3 = V(descs, vals, _elem(4002, 'MONTH'), 3)
    nodes.append(Obj('SequenceNode', {'descriptor': Obj('SequenceDescriptor', {'id': 340011, 'name': 'DATE', 'members': []}), 'members': [i1, i2, i3]}))
    nodes.append(Obj('NoValueDataNode', {'descriptor': Obj('OperatorDescriptor', {'id': 204004})}))
    # associated field + owner
    descs.append(Obj('AssociatedDescriptor', {'id': 12101, 'nbits': 4, 'unit': 'ASSOCIATED'}))
    vals.append(3)
    assoc = Obj('AssociatedFieldNode', {'descriptor': descs[-1], 'index': len(vals) - 1})
    t1 = V(descs, vals, _elem(12101, 'TEMPERATURE'), 271.5 + k, attributes=[assoc])
    nodes.append(t1)
    # delayed replication, 2 (or 0 for variant 2) repetitions of [007004, 012101]
    n_rep = 0 if variant == 2 else 2
    fnode = V(descs, vals, _elem(31001, 'DELAYED DESCRIPTOR REPLICATION FACTOR'), n_rep)
    members = []
    for r in range(n_rep):
        members.append(V(descs, vals, _elem(7004, 'PRESSURE'), 850 - 350 * r))
        members.append(V(descs, vals, _elem(12101, 'TEMPERATURE'), 280.0 - 20 * r + k))
    rd = Obj('DelayedReplicationDescriptor', {'id': 102000, 'members': [_elem(7004, 'PRESSURE'), _elem(12101, 'TEMPERATURE')], 'factor': _elem(31001, 'F')})
    nodes.append(Obj('DelayedReplicationNode', {'descriptor': rd, 'factor': fnode, 'members': members}))
    # fixed replication of a nested fixed replication: 102002 [ 020003, 101002 [ 020004 ] ]
    outer = []
    for r in range(2):
        outer.append(V(descs, vals, _elem(20003, 'PRESENT WEATHER', 'CODE TABLE'), 1 + r))
        inner = [V(descs, vals, _elem(20004, 'PAST WEATHER', 'CODE TABLE'), 10 * (r + 1) + j) for j in range(2)]
        ind = Obj('FixedReplicationDescriptor', {'id': 101002, 'members': [_elem(20004, 'PAST WEATHER', 'CODE TABLE')]})
        outer.append(Obj('FixedReplicationNode', {'descriptor': ind, 'members': inner}))
    od = Obj('FixedReplicationDescriptor', {'id': 102002, 'members': [_elem(20003, 'PRESENT WEATHER', 'CODE TABLE'), Obj('FixedReplicationDescriptor', {'id': 101002, 'members': []})]})
    nodes.append(Obj('FixedReplicationNode', {'descriptor': od, 'members': outer}))
    # a second root temperature carrying a quality attribute; the quality value also sits in place
    t2 = V(descs, vals, _elem(12101, 'TEMPERATURE'), 300.0 + k)
    nodes.append(t2)
    q = V(descs, vals, _elem(33007, 'PER CENT CONFIDENCE', 'CODE TABLE'), 70 + k, cls='QualityInfoNode')
    if q_owner == 't2':
        t2.fields['attributes'] = [q]
    else:
        t1.fields['attributes'].append(q)
    nodes.append(q)
    mk = V(descs, vals, Obj('MarkerDescriptor', {'id': 12101, 'name': 'TEMPERATURE', 'unit': 'K', 'nbits': 12, 'scale': 1, 'refval': 0, 'marker_id': 224255}), 3.5,
           cls='FirstOrderStatsNode')
    (t1 if q_owner == 't2' else t2).fields.setdefault('attributes', []).append(mk)
    nodes.append(mk)
    return nodes, descs, vals


def build_marker_tree():
    """A replication whose repetitions carry different descriptors: `101002 224255` after a bitmap over 012101 and 012103 (each
    repetition holds the first-order statistic of another element)."""
    descs, vals = [], []
    nodes = []
    t1 = V(descs, vals, _elem(12101, 'TEMPERATURE'), 280.0)
    t3 = V(descs, vals, _elem(12103, 'DEW POINT'), 275.0)
    nodes += [t1, t3]
    nodes.append(V(descs, vals, _elem(8023, 'FIRST ORDER STATISTICS', 'CODE TABLE'), 4))
    marks = []
    for owner, did, name, v in ((t1, 12101, 'TEMPERATURE', 281.0), (t3, 12103, 'DEW POINT', 276.0)):
        mk = V(descs, vals, Obj('MarkerDescriptor', {'id': did, 'name': name, 'unit': 'K', 'nbits': 12, 'scale': 1, 'refval': 0, 'marker_id': 224255}), v,
               cls='FirstOrderStatsNode')
        owner.fields['attributes'] = [mk]
        marks.append(mk)
    rd = Obj('FixedReplicationDescriptor', {'id': 101002, 'members': [Obj('OperatorDescriptor', {'id': 224255})]})
    nodes.append(Obj('FixedReplicationNode', {'descriptor': rd, 'members': marks}))
    nodes.append(V(descs, vals, _elem(20011, 'CLOUD AMOUNT', 'CODE TABLE'), 3))
    return nodes, descs, vals


MARKER_PATHS = ['/101002/F12101', '/101002/F12103', '/101002[0]/F12101', '/101002/F12103[0]', '/012103.F12103', '/012101.F12101', '/F12103', '/020011']


PATHS = [
    '/001001', '/012101', '/012101[0]', '/012101[1]', '/012101[2]', '/012101[-1]', '/012101[::-1]', '/012101[1:]', '/340011/004001', '/340011/004002',
    '/340011/004002[0]', '/340011/004002[-1]', '/340011/004002[::2]', '/102000/007004', '/102000/012101', '/102000/012101[0]', '/102000/007004[1]',
    '/102000.031001', '/012101.A12101', '/012101[0].A12101', '/012101[1].033007', '/012101.033007', '/012101[0].F12101', '/102002/020003',
    '/102002/101002/020004', '/102002/101002/020004[0]', '/102002/101002[0]/020004[1]', '/033007', '/F12101', '/999999', '/340011/999999',
    ' / 340011 / 004001 ', '/102002/020003[0]',
    # slices whose bounds are non-negative but whose step runs backwards, and bounds beyond the number of matches
    '/012101[:0:-1]', '/012101[2:0:-1]', '/012101[1:0:-1]', '/012101[:1]', '/012101[0:2]', '/012101[1:2]', '/012101[5:]', '/012101[:9]', '/012101[-2:]', '/012101[:-1]',
    # slices on attribute steps: a replication has one factor, a value may have several attributes
    '/102000.031001[0]', '/102000.031001[1]', '/102000.031001[1:]', '/102000.031001[-1]', '/102000.031001[:0]', '/102000.031001[-2]', '/102000.031001[::-1]', '/102000.031001[5:2]',
    '/012101.A12101[0]', '/012101[0].A12101[1]', '/012101[0].A12101[-1]', '/012101[0].A12101[1:]', '/012101[1].033007[0]', '/012101[1].033007[1]', '/012101[1].033007[-1]',
    '/012101[1].033007[::-1]', '/012101[1].033007[:0]', '/012101[0].F12101[-2]',
    '/102000/007004[1:0:-1]', '/102000/007004[:0:-1]', '/102000/012101[:1]', '/102002/101002/020004[:0:-1]', '/012101[::-1].A12101', '/012101[:1].A12101',
]
ERROR_PATHS = ['/340011', '/102000', '/001001/004001', '/001001.A01001', '/204004']
BARE_IDS = ['001001', '004002', '007004', '020004', '020003']


def render_json(repo, nodes, descs, vals):
    jn = repo.own_method('NestedJsonRenderer', '_render_template_data_nodes')
    it = TextInterp(repo, 'NestedJsonRenderer')
    res = it.run_function(jn, lambda: {'self': Obj('NestedJsonRenderer', {}), 'decoded_nodes': list(nodes), 'decoded_descriptors': list(descs),
                                       'decoded_values': list(vals)}, self_class='NestedJsonRenderer')
    if len(res) != 1 or not res[0].ok or not isinstance(res[0].value, list):
        raise AnalysisError('NestedJsonRenderer could not be folded on the query tree: %s' % [r.describe() for r in res])
    return res[0].value


class RefError(Exception):
    pass


def parse_ref(path):
    """Reference reading of a path made of / and . steps (the grammar itself is C15)."""
    import re
    p = path.replace(' ', '')
    sub = None
    m = re.match(r'^@\[([^\]]*)\]', p)
    if m:
        sub = _slice(m.group(1))
        p = p[m.end():]
    comps = []
    for sep, ident, sl in re.findall(r'([/.>])([^/.>\[]+)(?:\[([^\]]*)\])?', p):
        comps.append((sep, ident, _slice(sl) if sl != '' else slice(None)))
    return sub, comps


def _slice(text):
    if ':' in text:
        parts = [int(x) if x != '' else None for x in text.split(':')]
        return slice(*parts)
    k = int(text)
    if k >= 0:
        return k
    return slice(k, k + 1 if k != -1 else None)


def ref_select(cands, ident, sl):
    m = [n for n in cands if n.get('id') == ident]
    if isinstance(sl, int):
        return [m[sl]] if sl < len(m) else []
    # the slice selects among the matches; the selected ones stay in document order (property: "kept in document order")
    pos = sorted(list(range(len(m)))[sl])
    return [m[i] for i in pos]


def ref_proceed(n, rest):
    if not rest:
        if 'value' not in n:
            raise RefError('valueless')
        return [n['value']]
    sep, ident, sl = rest[0]
    if sep == '/':
        if 'members' not in n:
            raise RefError('no members')
        if n['id'].startswith('1'):
            env = []
            for rep in n['members']:
                vals = []
                for x in ref_select(rep, ident, sl):
                    vals += ref_proceed(x, rest[1:])
                if vals:
                    env.append(vals)
            return [env] if env else []
        out = []
        for x in ref_select(n['members'], ident, sl):
            out += ref_proceed(x, rest[1:])
        return out
    if sep == '.':
        if 'factor' not in n and 'attributes' not in n:
            raise RefError('no attributes')
        cands = ([n['factor']] if 'factor' in n else []) + n.get('attributes', [])
        out = []
        for x in ref_select(cands, ident, sl):
            out += ref_proceed(x, rest[1:])
        return out
    raise RefError('unsupported separator')


def ref_query(tree_json, comps):
    root = {'id': 'TEMPLATE', 'members': tree_json}
    return ref_proceed(root, comps)


def flatten(v):
    out = []
    for x in v:
        if isinstance(x, list):
            out += flatten(x)
        else:
            out.append(x)
    return out


def run_query(repo, message, path):
    fi = repo.own_method('DataQuerent', 'query')
    it = QueryInterp(repo, 'DataQuerent')
    res = it.run_function(fi, lambda: {'self': Obj('DataQuerent', {}), 'bufr_message': message, 'path_expr': path}, self_class='DataQuerent')
    if len(res) != 1:
        raise AnalysisError('DataQuerent.query(%r) forks into %d paths on a concrete tree' % (path, len(res)))
    return fi, res[0]


def make_message(subsets, compressed):
    """subsets: list of (nodes, descs, vals).  Compressed data share the tree of subset 0."""
    td = Obj('TemplateData', {
        'n_subsets': len(subsets), 'is_compressed': compressed,
        'decoded_nodes_all_subsets': [s[0] for s in subsets] if not compressed else [subsets[0][0]] * len(subsets),
        'decoded_descriptors_all_subsets': [s[1] for s in subsets],
        'decoded_values_all_subsets': [s[2] for s in subsets],
    })
    return Obj('BufrMessage', {'n_subsets': Obj('P', {'value': len(subsets)}), 'is_compressed': Obj('P', {'value': compressed}),
                               'template_data': Obj('P', {'value': td})})


def result_values(r):
    qr = r.value
    if not (isinstance(qr, Obj) and isinstance(qr.fields.get('results'), dict)):
        return None
    return qr.fields['results']


def rule_r1(repo):
    rr = RuleResult('C16.R1', 'child / attribute paths with slices: DataQuerent.query equals the evaluation over the nested JSON rendering')
    for variant, label in ((0, 'populated tree'), (2, 'tree whose delayed replication is repeated zero times')):
        tree = build_tree(variant)
        js = render_json(repo, *tree)
        msg = make_message([tree], False)
        for path in PATHS:
            sub, comps = parse_ref(path)
            try:
                want = ref_query(js, comps)
            except RefError as e:
                if variant == 0:
                    raise AnalysisError('reference evaluation of %r failed: %s' % (path, e))
                continue
            fi, r = run_query(repo, msg, path)
            rr.instance('%s on the %s -> %r' % (path, label, want))
            if not r.ok:
                rr.fail('DataQuerent.query:raises', fi.where, 'query %r on the %s raises %s; the nested rendering gives %r' % (path, label, r.exc.cls, want),
                        witness={'path': path, 'tree': label})
                continue
            got = result_values(r)
            if got is None or list(got.keys()) != [0] or got[0] != want:
                rr.fail('DataQuerent.query:value', fi.where, 'query %r on the %s returns %r; evaluating the path over the nested JSON rendering gives %r (one envelope per '
                        'replication, one list per repetition, matches in document order)' % (path, label, got, {0: want}), witness={'path': path, 'tree': label})
    # a replication whose repetitions differ (marker operators): each repetition is matched on its own
    tree = build_marker_tree()
    js = render_json(repo, *tree)
    msg = make_message([tree], False)
    for path in MARKER_PATHS:
        sub, comps = parse_ref(path)
        try:
            want = ref_query(js, comps)
        except RefError as e:
            raise AnalysisError('reference evaluation of %r failed: %s' % (path, e))
        fi, r = run_query(repo, msg, path)
        rr.instance('%s on a replication of marker values -> %r' % (path, want))
        got = result_values(r) if r.ok else None
        if not r.ok or got is None or got != {0: want}:
            rr.fail('DataQuerent.query:differing-repetitions', fi.where, 'query %r on `012101 012103 ... 101002 224255` (the two repetitions hold F12101 and F12103) %s; evaluating '
                    'the path over the nested JSON rendering gives %r: a child step below a replication must be matched in every repetition, not on the first one only' % (
                        path, 'raises ' + r.exc.cls if not r.ok else 'returns %r' % (got,), {0: want}), witness={'path': path})
    rr.require_floor(50)
    return rr

def rule_pipeline_queries(repo, rule='C16.R8'):
    """Queries over trees that the repository's own decoder walk and wire() produce (rules/pipeline.py), not over hand-built ones:
    for every template of the family, the bare ID of each ordinary element, the child path to each top-level member and the attribute
    path to each linked value are evaluated by DataQuerent.query and compared with the reference evaluation over the nested JSON
    rendering of the same tree."""
    from sa.rules import pipeline as P
    rr = RuleResult(rule, 'queries on trees wired from the decoder walk (end-to-end fold): bare IDs, child paths and attribute paths equal the evaluation over the nested JSON rendering')
    n = 0
    for name in sorted(P.templates()):
        o = P.run_template(repo, name)
        if not o.decode.ok or not getattr(o, 'wire', None) or not o.wire.ok:
            continue        # reported by C09.R13
        tree = (o.nodes, o.descs, o.vals)
        js = render_json(repo, *tree)
        msg = make_message([tree], False)
        labels = []
        for e in js:
            if isinstance(e, dict) and isinstance(e.get('id'), str) and e['id'] not in labels:
                labels.append(e['id'])
        paths = ['/' + l for l in labels]
        # attribute paths for top-level owners
        for e in js:
            if isinstance(e, dict) and 'value' in e:
                for a in e.get('attributes') or []:
                    p = '/%s.%s' % (e['id'], a['id'])
                    if p not in paths:
                        paths.append(p)
        # one level below replications and sequences
        for e in js:
            if isinstance(e, dict) and isinstance(e.get('members'), list):
                inner = []
                for m in e['members']:
                    for x in (m if isinstance(m, list) else [m]):
                        if isinstance(x, dict) and isinstance(x.get('id'), str) and x['id'] not in inner:
                            inner.append(x['id'])
                for l in inner:
                    p = '/%s/%s' % (e['id'], l)
                    if p not in paths:
                        paths.append(p)
        key = 'pipeline-query:%s' % name.split(' (')[0].replace(' ', '-').replace(',', '')
        for path in paths:
            sub, comps = parse_ref(path)
            try:
                want = ('ok', ref_query(js, comps))
            except RefError:
                want = ('error', None)
            fi, r = run_query(repo, msg, path)
            n += 1
            if want[0] == 'error':
                if r.ok or not (repo.has_cls(r.exc.cls) and repo.is_subclass(r.exc.cls, 'PyBufrKitError')):
                    rr.fail(key, fi.where, 'template "%s": %r designates no value in the hierarchical view but gives %s' % (name, path, result_values(r) if r.ok else r.exc.cls),
                            witness={'template': name, 'path': path})
                continue
            got = result_values(r) if r.ok else None
            if not r.ok or got != {0: want[1]}:
                rr.fail(key, fi.where, 'template "%s": query %r %s; evaluating the path over the nested JSON rendering of the wired tree gives %r' % (
                    name, path, 'raises ' + r.exc.cls if not r.ok else 'returns %r' % (got,), {0: want[1]}), witness={'template': name, 'path': path})
        rr.instance('template "%s": %d paths' % (name, len(paths)))
    rr.extra = {'paths': n}
    rr.require_floor(15)
    return rr


def _full_worker(job):
    """One chunk of paths (worker process): returns [(kind, path, detail)] for disagreements."""
    root, paths = job
    from sa.model import Repo
    repo = Repo(root)
    tree = build_tree(0)
    js = render_json(repo, *tree)
    msg = make_message([tree], False)
    out = []
    for path in paths:
        sub, comps = parse_ref(path)
        try:
            want = ('ok', ref_query(js, comps))
        except RefError:
            want = ('error', None)
        fi, r = run_query(repo, msg, path)
        if want[0] == 'error':
            if r.ok or not (repo.has_cls(r.exc.cls) and repo.is_subclass(r.exc.cls, 'PyBufrKitError')):
                out.append(('error', path, 'designates no value (valueless target or a step into a leaf) but gives %s' % (result_values(r) if r.ok else r.exc.cls)))
            continue
        if not r.ok:
            out.append(('raises', path, 'raises %s; the nested rendering gives %r' % (r.exc.cls, want[1])))
            continue
        got = result_values(r)
        if got != {0: want[1]}:
            out.append(('value', path, 'returns %r; the nested rendering gives %r' % (got, {0: want[1]})))
    return out


def rule_r1_full(repo):
    """Thorough tier: every path of one or two steps, and three-step paths through the containers, over the ids of the tree with a
    slice from a fixed set (16 worker processes)."""
    rr = RuleResult('C16.R1t', 'all paths of up to three steps over the tree ids x slice shapes, against the reference evaluation')
    import itertools
    import multiprocessing
    ids = ['001001', '340011', '012101', '102000', '102002', '101002', '004002', '007004', '020003', '020004', '031001', 'A12101', '033007', 'F12101']
    containers = ['340011', '012101', '102000', '102002', '101002']
    slices = ['', '[0]', '[1]', '[-1]', '[::2]', '[1:]', '[:1]', '[1:0:-1]', '[:0:-1]']
    paths = []
    for a in ids:
        for sa_ in slices:
            paths.append('/' + a + sa_)
    n1 = len(paths)
    for a, b in itertools.product(ids, repeat=2):
        for sep in '/.':
            for sa_, sb in itertools.product(slices, repeat=2):
                paths.append('/' + a + sa_ + sep + b + sb)
    n2 = len(paths) - n1
    for a in containers:
        for b in containers + ['007004', '020004', 'A12101']:
            for c in ids:
                for s1, s2 in itertools.product('/.', repeat=2):
                    for sa_ in slices[:3]:
                        for sc in slices[:4]:
                            paths.append('/' + a + sa_ + s1 + b + s2 + c + sc)
    n3 = len(paths) - n1 - n2
    chunk = 400
    jobs = [(repo.root, paths[i:i + chunk]) for i in range(0, len(paths), chunk)]
    with multiprocessing.Pool(16) as pool:
        res = pool.map(_full_worker, jobs)
    fi = repo.own_method('DataQuerent', 'query')
    for lst in res:
        for kind, path, detail in lst:
            rr.fail('DataQuerent.query:full:%s' % kind, fi.where, 'query %r %s' % (path, detail), witness={'path': path})
    rr.instance('%d one-step paths' % n1)
    rr.instance('%d two-step paths' % n2)
    rr.instance('%d three-step paths through the containers' % n3)
    rr.extra = {'paths_folded': len(paths)}
    rr.require_floor(3)
    return rr


def rule_r2(repo):
    rr = RuleResult('C16.R2', 'a bare ID returns every value carrying that ID in the flat data, in order')
    tree = build_tree(0)
    nodes, descs, vals = tree
    msg = make_message([tree], False)
    it = TextInterp(repo, None)
    for ident in BARE_IDS:
        want = [v for d, v in zip(descs, vals) if d.cls == 'ElementDescriptor' and '%06d' % d.fields['id'] == ident]
        fi, r = run_query(repo, msg, ident)
        rr.instance('bare id %s -> %r' % (ident, want))
        if not r.ok:
            rr.fail('DataQuerent.query:bare-id:raises', fi.where, 'query %r raises %s' % (ident, r.exc.cls), witness={'path': ident})
            continue
        got = result_values(r)
        flat = flatten(got[0]) if got and 0 in got else None
        if flat != want:
            rr.fail('DataQuerent.query:bare-id', fi.where, 'bare id %r returns %r (flattened %r); the flat data carry %r under that id' % (ident, got, flat, want),
                    witness={'path': ident})
    rr.require_floor(5)
    return rr


def rule_r3(repo):
    rr = RuleResult('C16.R3', 'subset selectors; compressed and uncompressed data give the same result')
    subsets = [build_tree(0), build_tree(1), build_tree(3)]
    js = [render_json(repo, *s) for s in subsets]
    zero = build_tree(2)
    cases = [('@[0]/001001', [0]), ('@[1]/001001', [1]), ('@[-1]/001001', [2]), ('@[::2]/340011/004001', [0, 2]), ('@[1:]/102000/012101[0]', [1, 2]),
             ('/102000/007004', [0, 1, 2]), ('@[2]/012101[-1]', [2]), ('@[5]/001001', None), ('@[::-1]/001001', [2, 1, 0]), ('@[2:0:-1]/340011/004001', [2, 1]),
             # paths that select no node: every selected subset is still in the result, with nothing in it
             ('/340011/004001[7]', [0, 1, 2]), ('@[1:]/001001[3:]', [1, 2]), ('@[::-1]/340011/004001[5:9]', [2, 1, 0])]
    for compressed in (False, True):
        msg = make_message(subsets, compressed)
        for path, want_idx in cases:
            sub, comps = parse_ref(path)
            fi, r = run_query(repo, msg, path)
            rr.instance('%s (%s) -> subsets %s' % (path, 'compressed' if compressed else 'uncompressed', want_idx))
            if want_idx is None:
                # an out-of-range single index: any library-style refusal or an empty result is acceptable, silent wrong data is not
                if r.ok and result_values(r):
                    rr.fail('DataQuerent.query:subset-out-of-range', fi.where, 'subset selector beyond the data returns %r' % (result_values(r),))
                continue
            if not r.ok:
                rr.fail('DataQuerent.query:subset:raises', fi.where, 'query %r raises %s' % (path, r.exc.cls), witness={'path': path, 'compressed': compressed})
                continue
            got = result_values(r)
            if compressed:
                # one shared tree (that of subset 0), values looked up per subset
                want = dict((i, ref_query(render_json(repo, subsets[0][0], subsets[i][1], subsets[i][2]), comps)) for i in want_idx)
            else:
                want = dict((i, ref_query(js[i], comps)) for i in want_idx)
            if got != want or list(got) != list(want_idx):
                rr.fail('DataQuerent.query:subset', fi.where, 'query %r on %s data returns %r; expected %r' % (path, 'compressed' if compressed else 'uncompressed', got, want),
                        witness={'path': path, 'compressed': compressed})
    # subsets with the same descriptors whose bitmaps designate different owners: every subset is evaluated on its own tree
    mixed = [build_tree(0), build_tree(1, q_owner='t1'), build_tree(3)]
    jm = [render_json(repo, *t) for t in mixed]
    msg = make_message(mixed, False)
    for path in ('/012101.033007', '/012101[0].033007', '/012101[-1].033007', '@[1]/012101[0].033007', '@[::-1]/012101.033007'):
        sub, comps = parse_ref(path)
        idx = list(range(3))[sub] if isinstance(sub, slice) else ([sub] if sub is not None else [0, 1, 2])
        fi, r = run_query(repo, msg, path)
        rr.instance('%s on subsets whose quality value has different owners' % path)
        want = dict((i, ref_query(jm[i], comps)) for i in idx)
        got = result_values(r) if r.ok else None
        if got != want:
            rr.fail('DataQuerent.query:per-subset-tree', fi.where, 'query %r on three uncompressed subsets with equal descriptors but different attribute owners returns %s; '
                    'evaluating the path over each subset\'s own nested rendering gives %r' % (path, got if r.ok else 'raises ' + r.exc.cls, want), witness={'path': path})
    # zero-count delayed replication: querying a child gives an empty list - for every selected subset, compressed or not
    for n_sub, compressed in ((1, False), (2, False), (2, True), (3, True)):
        msg = make_message([zero] * n_sub, compressed)
        for path in ('/102000/007004', '/102000/012101[0]') + (('@[1:]/102000/007004',) if n_sub > 1 else ()):
            fi, r = run_query(repo, msg, path)
            rr.instance('%s on a zero-count replication, %d %s subset(s) -> []' % (path, n_sub, 'compressed' if compressed else 'uncompressed'))
            got = result_values(r) if r.ok else None
            want = dict((i, []) for i in (range(1, n_sub) if path.startswith('@[1:]') else range(n_sub)))
            if not r.ok or got != want:
                rr.fail('DataQuerent.query:zero-count', fi.where, 'query %r on %d %s subset(s) whose delayed replication has zero repetitions gives %s (expected %r: an empty '
                        'list for each selected subset)' % (path, n_sub, 'compressed' if compressed else 'uncompressed', got if r.ok else r.exc.cls, want),
                        witness={'path': path, 'compressed': compressed, 'subsets': n_sub})
    rr.require_floor(16)
    return rr


def rule_r4(repo):
    rr = RuleResult('C16.R4', 'a path that ends on a valueless node or steps into a node without members / attributes is reported with QueryError')
    tree = build_tree(0)
    msg = make_message([tree], False)
    for path in ERROR_PATHS:
        fi, r = run_query(repo, msg, path)
        rr.instance('%s -> QueryError' % path)
        if r.ok:
            rr.fail('DataQuerent.query:no-error', fi.where, 'query %r returns %r instead of reporting that the path designates no value' % (path, result_values(r)))
        elif not (repo.has_cls(r.exc.cls) and repo.is_subclass(r.exc.cls, 'PyBufrKitError')):
            rr.fail('DataQuerent.query:foreign-error', fi.where, 'query %r raises %s, not a library error' % (path, r.exc.cls), witness={'path': path})
    rr.require_floor(5)
    return rr


def run(repo, check):
    check.run_rule(rule_r1, repo)
    if check.tier == 'thorough':
        check.run_rule(rule_r1_full, repo)
    check.run_rule(rule_r2, repo)
    check.run_rule(rule_r3, repo)
    check.run_rule(rule_r4, repo)
    from sa.rules import c08
    from sa.rules.common import share
    share(check, repo, c08.rule_r5, 'C16.R5', 'data decoded through a compiled template come from the template compiled for this descriptor list and table version (shared with C08.R5)')
    from sa.rules import c09 as _c09
    from sa.rules.common import share as _sh
    # (the constructs recorded as known findings of C09.R1 - 204YYY in force at a marker / 203 / 206 / class 33 - are findings of C09, not repeated here)
    from sa.report import load_known
    known_c09 = set(k['ident'].split(':', 1)[1] for k in load_known().get('known', []) if k.get('ident', '').startswith('C09.R1:'))
    _sh(check, repo, _c09.rule_r1, 'C16.R6', 'the tree that is queried holds every flat value once: coder / wirer lockstep (shared with C09.R1)', args=('C16.R6',),
        keep=lambda f: f.key not in known_c09)
    check.run_rule(rule_pipeline_queries, repo)
    from sa.rules import c13 as _c13
    from sa.rules.common import share as _share
    _share(check, repo, _c13.rule_r3, 'C16.R7', 'a query does not depend on the queries made before it: parser and querent keep nothing between calls (shared with C13.R3)',
           keep=lambda f: any(k in f.key for k in ('NodePathParser', 'DataQuerent', 'QueryResult')))
    check.assumptions = ['the reference evaluates only / and . steps with slices over the nested JSON rendering (faithfulness of that rendering: C09.R5); the descendant '
                         'separator is covered only through bare IDs of ordinary elements, as the property states',
                         'results on real messages additionally depend on the wiring (C07, C09); the fold uses hand-built wired trees']
