"""
C10  Subsetting keeps exactly the selected subsets and nothing else changes (structural part).

BufrMessage.subset is folded by PathEval over a family of index collections (any order, repeats,
single, full, out of range by one) on an abstract 5-subset message.

R1 rows kept == rows of the distinct selected indices in ascending order; n_subsets == their number
R2 purity: nothing reachable from the message is written
R3 bounds: an index outside 0..n-1 is refused with PyBufrKitError
R4 every other parameter passes through unchanged; the section structure is preserved
R5 the re-encoder processes the data in the mode the (unchanged) compression flag declares (= C05.R8)
"""
from __future__ import print_function

import itertools

from sa.model import AnalysisError, norm
from sa.patheval import Interp, Obj, Sym, Top
from sa.report import RuleResult
from sa.rules.c04 import SectionModel, SecInterp, param

N = 5


class SubsetInterp(SecInterp):
    def on_store_attr(self, base, attr, value, node, frame):
        if isinstance(base, Obj) and base.cls in ('BufrMessage', 'SectionParameter', 'TemplateDataStub'):
            self.event('mutation', base.cls, attr)
        return False

    def on_call(self, text, callee, args, kwargs, node, frame):
        from sa.patheval import UnknownMethod
        if isinstance(callee, UnknownMethod) and callee.name in ('append', 'extend', 'insert', 'pop', 'remove', 'clear', 'sort', 'reverse') and \
                isinstance(callee.recv, list) and getattr(self, 'frozen_ids', None) and id(callee.recv) in self.frozen_ids:
            self.event('mutation', 'list', callee.name)
        return SecInterp.on_call(self, text, callee, args, kwargs, node, frame)


def make_message(it):
    rows = [Sym('ROW%d' % i) for i in range(N)]
    td = Obj('TemplateDataStub', {'decoded_values_all_subsets': rows})
    s0 = SectionModel([param('start_signature', 32, 'bytes', value=Sym('SIG')), param('length', 24, value=Sym('LEN')), param('edition', 8, value=Sym('ED'))], {'index': 0})
    s3 = SectionModel([param('section_length', 24, value=Sym('SL3')), param('n_subsets', 16, value=N), param('is_observation', 1, 'bool', value=Sym('OBS')),
                       param('is_compressed', 1, 'bool', value=Sym('COMP')), param('unexpanded_descriptors', 0, 'unexpanded_descriptors', value=Sym('DESCS'))], {'index': 3})
    s4 = SectionModel([param('section_length', 24, value=Sym('SL4')), param('template_data', 0, 'template_data', value=td)], {'index': 4})
    s5 = SectionModel([param('stop_signature', 32, 'bytes', value=Sym('STOP'))], {'index': 5})
    secs = [s0, s3, s4, s5]
    it.frozen_ids = set([id(rows), id(secs)])
    return Obj('BufrMessage', {'sections': secs, 'n_subsets': s3.params[1], 'is_compressed': s3.params[3]}), rows


def expected(indices):
    d = sorted(set(indices))
    return d


def rule_fold(repo, tier='quick'):
    rr = RuleResult('C10.R1', 'subset(): rows kept, subset count, pass-through, purity and bounds folded over index collections')
    fi = repo.own_method('BufrMessage', 'subset')
    good = [[0], [4], [2], [0, 1, 2, 3, 4], [4, 0], [3, 1, 2], [0, 0], [2, 2, 2], [0, 0, 2], [4, 1, 4, 1], [1, 3], (2, 4), [3, 3, 0],
            # as many entries as the message has subsets, but not all of them (repeats), and more entries than subsets
            [0, 0, 2, 3, 4], [1, 1, 1, 1, 1], [4, 3, 2, 1, 0], [0, 1, 2, 3, 4, 0], [2, 2, 2, 2, 2, 2, 2]]
    bad = [[5], [0, 5], [-1], [-1, 2], [7, 7], [4, 5], [-2, -1]]
    if tier == 'thorough':
        # every collection over 0..4 of length 1..4 (with repeats, any order), and every collection of length <= 3 over -1..5 that leaves the range
        good = [list(c) for k in (1, 2, 3, 4, 5) for c in itertools.product(range(N), repeat=k)] + [[0, 1, 2, 3, 4, 0], [2, 2, 2, 2, 2, 2, 2]]
        bad = [list(c) for k in (1, 2, 3) for c in itertools.product(range(-1, N + 1), repeat=k) if min(c) < 0 or max(c) >= N]
    for idxs in good + bad:
        it = SubsetInterp(repo, 'BufrMessage')
        box = {}

        def mk():
            msg, rows = make_message(it)
            box['msg'] = msg
            return {'self': msg, 'subset_indices': list(idxs) if isinstance(idxs, list) else tuple(idxs)}
        res = it.run_function(fi, mk, self_class='BufrMessage')
        if len(good) + len(bad) < 100:
            rr.instance('subset(%r)' % (idxs,))
        if len(res) != 1:
            rr.fail('BufrMessage.subset:paths', fi.where, 'subset(%r) forks into %d paths on concrete input' % (idxs, len(res)))
            continue
        r = res[0]
        if idxs in bad:
            if r.ok or not (repo.has_cls(r.exc.cls) and repo.is_subclass(r.exc.cls, 'PyBufrKitError')):
                rr.fail('BufrMessage.subset:bounds', fi.where, 'subset(%r) on a %d-subset message gives %s; an index outside 0..%d must be refused with PyBufrKitError' % (
                    idxs, N, r.describe(), N - 1), witness={'indices': list(idxs)})
            continue
        if not r.ok:
            rr.fail('BufrMessage.subset:raises', fi.where, 'subset(%r) raises %s' % (idxs, r.exc.cls), witness={'indices': list(idxs)})
            continue
        data = r.value
        want_rows = ['ROW%d' % i for i in expected(idxs)]
        ok_shape = isinstance(data, list) and len(data) == 4 and all(isinstance(x, list) for x in data)
        if not ok_shape:
            rr.fail('BufrMessage.subset:shape', fi.where, 'subset(%r) returns %r; expected one value list per section' % (idxs, data))
            continue
        got_rows = [repr(x) for x in data[2][1]] if isinstance(data[2][1], list) else repr(data[2][1])
        if got_rows != want_rows:
            rr.fail('BufrMessage.subset:rows', fi.where, 'subset(%r) keeps rows %s; expected %s (each distinct selected subset once, in ascending index order)' % (
                idxs, got_rows, want_rows), witness={'indices': list(idxs)})
        if data[1][1] != len(want_rows):
            rr.fail('BufrMessage.subset:count', fi.where, 'subset(%r) declares n_subsets = %r for %d kept rows' % (idxs, data[1][1], len(want_rows)),
                    witness={'indices': list(idxs)})
        passthrough = [repr(x) for x in data[0]] + [repr(data[1][0])] + [repr(x) for x in data[1][2:]] + [repr(data[2][0])] + [repr(x) for x in data[3]]
        want_pt = ['SIG', 'LEN', 'ED', 'SL3', 'OBS', 'COMP', 'DESCS', 'SL4', 'STOP']
        if passthrough != want_pt:
            rr.fail('BufrMessage.subset:pass-through', fi.where, 'subset(%r) changes other parameters: %s (expected %s unchanged)' % (idxs, passthrough, want_pt))
        muts = [e[1:] for e in r.events if e[0] == 'mutation']
        if muts:
            rr.fail('BufrMessage.subset:purity', fi.where, 'subset(%r) modifies the source message: %s' % (idxs, muts))
        # source rows untouched
        src = box['msg'].fields['sections'][2].params[1].fields['value'].fields['decoded_values_all_subsets']
        if [repr(x) for x in src] != ['ROW%d' % i for i in range(N)] or box['msg'].fields['sections'][1].params[1].fields['value'] != N:
            rr.fail('BufrMessage.subset:purity', fi.where, 'subset(%r) leaves the source message changed' % (idxs,))
    if len(good) + len(bad) >= 100:
        rr.instance('%d index collections inside the range, %d leaving it' % (len(good), len(bad)))
        rr.instance('exhaustive over 0..%d up to length 4' % (N - 1))
    rr.require_floor(2)
    return rr


def rule_cli(repo):
    rr = RuleResult('C10.R2', 'command_subset decodes, subsets, re-encodes and writes the bytes unmodified')
    fi = repo.func('commands', 'command_subset')

    from sa.patheval import Stub

    class I(Interp):
        # the collaborators are scripted objects: which variables hold them, and whether intermediate results are named, does not matter
        def on_call(self, text, callee, args, kwargs, node, frame):
            it = self
            if text in ('Decoder', 'Encoder'):
                # constructor arguments by parameter name (positional ones through the signature of __init__)
                params = it.repo.own_method(text, '__init__').params[1:]
                cfg = dict(zip(params, args))
                cfg.update(kwargs)
                it.event('new', text, dict((k, repr(v)) for k, v in cfg.items()))
            if text == 'Decoder':
                def process(interp, a, kw, node, frame):
                    it.event('decode', repr(a[0]) if a else None, dict((k, repr(v)) for k, v in kw.items()))

                    def subset(interp, a2, kw2, node, frame):
                        it.event('subset', a2[0] if a2 else kw2.get('subset_indices'))
                        return Sym('DATA')
                    return Stub('decoded message', {'subset': subset})
                return Stub('decoder', {'process': process})
            if text == 'Encoder':
                def process(interp, a, kw, node, frame):
                    it.event('encode', repr(a[0]) if a else None)
                    return Stub('encoded message', attrs={'serialized_bytes': Sym('BYTES_OUT')})
                return Stub('encoder', {'process': process})
            if text == 'open':
                def read(interp, a, kw, node, frame):
                    return Sym('BYTES_IN')

                def write(interp, a, kw, node, frame):
                    it.event('write', repr(a[0]) if a else None)
                    return None
                return Stub('file', {'read': read, 'write': write})
            return self.NOT_HANDLED
    for text_idx, want in (('0', [0]), ('3,1', [3, 1]), ('0, 0,2', [0, 0, 2]), (' 4 ', [4])):
        it = I(repo, None)
        ns = Obj('Namespace', {'subset_indices': text_idx, 'filename': 'in', 'output_filename': 'out', 'definitions_directory': Sym('DEFINITIONS_DIR'),
                               'tables_root_directory': Sym('TABLES_ROOT_DIR'), 'compiled_template_cache_max': Sym('CACHE_MAX'), 'ignore_value_expectation': False})
        res = it.run_function(fi, lambda: {'ns': ns})
        rr.instance('command_subset with indices %r' % text_idx)
        for r in res:
            sub = [e[1] for e in r.events if e[0] == 'subset']
            enc = [e[1] for e in r.events if e[0] == 'encode']
            wr = [e[1] for e in r.events if e[0] == 'write']
            if not r.ok or sub != [want] or enc != ['DATA'] or wr != ['BYTES_OUT']:
                rr.fail('commands.command_subset', fi.where, 'indices %r: subset%s, encode%s, write%s (%s); expected subset(%s) -> encode(result) -> write(serialized_bytes)' % (
                    text_idx, sub, enc, wr, r.describe(), want))
            # the message is re-encoded with the tables and section layouts it was decoded with
            new = dict((e[1], e[2]) for e in r.events if e[0] == 'new')
            for key, given in (('tables_root_dir', 'TABLES_ROOT_DIR'), ('definitions_dir', 'DEFINITIONS_DIR')):
                for cls in ('Decoder', 'Encoder'):
                    if r.ok and cls in new and new[cls].get(key) != given:
                        rr.fail('commands.command_subset:%s:%s' % (cls, key), fi.where, 'the %s of the subset command is created with %s=%s; the command line gives %s, and '
                                'decoder and encoder must use the same tables and section layouts or the selected subsets are re-encoded with other widths' % (
                                    cls, key, new[cls].get(key), given))
    rr.require_floor(4)
    return rr


def run(repo, check):
    from sa.rules import c05
    check.run_rule(rule_fold, repo, check.tier)
    check.run_rule(rule_cli, repo)
    check.run_rule(c05.rule_state_mode, repo, 'C10.R5')
    r6 = check.call(c05.rule_r7, repo)
    r6.rule = 'C10.R6'
    r6.title = 'a reduced column that became all-equal / all-missing reads back as the same bytes (shared with C05.R7)'
    for f in r6.findings:
        f.rule = 'C10.R6'
    check.add(r6)
    from sa.rules import c01, c02
    from sa.rules.common import share
    share(check, repo, c02.rule_r1, 'C10.R7', 'encoding the reduced message: what the encoder writes is what the decoder reads (shared with C02.R1)', args=(check.tier,))
    share(check, repo, c02.rule_r2, 'C10.R8', 'encoding the reduced message: round before int (shared with C02.R2)')
    share(check, repo, c02.rule_r3, 'C10.R9', 'encoding the reduced message: missing = all ones of the width written (shared with C02.R3)')
    check.run_rule(rule_overrides, repo)
    share(check, repo, c01.rule_r7, 'C10.R10', 'missing detection when the reduced message is read back (shared with C01.R7)')
    from sa.rules import columns
    share(check, repo, columns.rule_columns, 'C10.R12', 'encoding the reduced message and reading it back: column round trip (shared with C05.R12)', args=(check.tier, 'C10.R12'))
    from sa.rules import c13 as _c13, c07 as _c07
    share(check, repo, _c13.rule_r3, 'C10.R13', 'the encoder that writes the reduced message keeps nothing from the messages it wrote before (shared with C13.R3)')
    share(check, repo, _c07.rule_r6, 'C10.R14', 'bitmaps of the selected subsets are taken from the subset being written (shared with C07.R6)')
    check.assumptions = ['the values of a decoded message are the rows of decoded_values_all_subsets (C01/C03); re-compression of the reduced columns is C05',
                         'validity of the re-encoded bytes for a particular message is a runtime fact']


def rule_overrides(repo, rule='C10.R11'):
    """Folds Encoder.__init__ twice in one interpreter: an encoder created with a master-table override, then a plain one.  The plain
    encoder must override nothing, or the identification section of every message it encodes (a subset, say) is rewritten."""
    from sa.patheval import Interp, Obj, Top
    rr = RuleResult(rule, 'an encoder created without options overrides no section parameter, whatever encoders were created before it (fold of Encoder.__init__)')
    init = repo.own_method('Encoder', '__init__')

    class EI(Interp):
        def on_call(self2, text, callee, args, kwargs, node, frame):
            if text.startswith('super(') or text in ('SectionConfigurer', 'CompiledTemplateManager', 'TemplateCompiler'):
                return None if text.startswith('super(') else Obj(text, {})
            return self2.NOT_HANDLED
    it = EI(repo, 'Encoder')

    import ast
    defaults = dict(zip(init.params[len(init.params) - len(init.defaults):], [ast.literal_eval(d) for d in init.defaults]))

    def make(**kw):
        res = it.run_function(init, lambda: dict(dict(defaults, self=Obj('Encoder', {})), **kw), self_class='Encoder')
        ok = [r for r in res if r.ok]
        if not ok:
            raise AnalysisError('Encoder.__init__ could not be folded: %s' % [r.describe() for r in res][:2])
        return [r.locals['self'] for r in ok]
    first = make(master_table_version=31, master_table_number=9)
    for e in first:
        ov = it.load_attr(e, 'overrides', init.node, None)
        rr.instance('Encoder(master_table_version=31, master_table_number=9).overrides = %r' % (ov,))
        if ov != {'master_table_number': 9, 'master_table_version': 31}:
            rr.fail('Encoder.__init__:overrides-requested', init.where, 'an encoder created with master_table_version=31, master_table_number=9 overrides %r' % (ov,))
    for e in make():
        ov = it.load_attr(e, 'overrides', init.node, None)
        rr.instance('Encoder() created afterwards: overrides = %r' % (ov,))
        if ov != {}:
            rr.fail('Encoder.__init__:overrides-default', init.where,
                    'an encoder created without options, after one created with master-table overrides, overrides %r: the identification section of what it '
                    'encodes (e.g. a subset of a message) is rewritten' % (ov,))
    rr.require_floor(2)
    return rr
