"""Rules of one property run under the rule id of another (seventh round).

Every entry is there because an independently seeded change to the repository broke property P and was reported only by the check of
a neighbouring property Q: the rule of Q decides a clause that is a necessary condition of P as well (the reason is given with the
entry), so it is run - restricted, where only part of it concerns P - under a rule id of P.  The rule functions are those of the
module named; nothing is decided here."""
from __future__ import print_function


def _not_encoder(f):
    return not f.key.endswith(':encoder')


def _encoder(f):
    return f.key.endswith(':encoder') or ':encoder' in f.key


TABLE = {
    'C01': [
        ('c08', 'rule_r9', (), 'C01.R15', 'a decoder that compiles its templates returns the fields, labels, values and links of the plain walk - or the same error '
                                          '(concrete compile / replay fold, shared with C08.R9)', _not_encoder),
        ('c08', 'rule_r5', (), 'C01.R16', 'a decoder that compiles its templates never takes the compiled form of another template or of other tables: the cache key holds both '
                                          'inputs of the compilation, whole (shared with C08.R5)', None),
        ('c06', 'rule_alias', ('C01.R17',), 'C01.R17', 'every subset has its own list of values, whatever the logging level (shared with C05.R3)', None),
        ('c09', 'rule_r1', ('C01.R18',), 'C01.R18', 'the walk emits one flat entry per member it processes: 221YYY counts the members FM-94 counts (coder / wirer lockstep, shared '
                                                     'with C09.R1)', lambda f: '221' in f.key or '221' in f.message),
    ],
    'C02': [
        ('c01', 'rule_r4', ('TIER',), 'C02.R18', 'the operator -> register table the encoder walks with (width, scale, reference, string length changes apply to the elements '
                                                 'FM-94 names and to nothing else; shared with C01.R4)', None),
        ('c07', 'rule_r5', (), 'C02.R19', 'the bitmap-definition machine of the walk the encoder shares with the decoder (which bitmap 237000 recalls; shared with C07.R5)', None),
        ('c08', 'rule_r9', (), 'C02.R20', 'an encoder that compiles its templates writes the fields of the plain walk - or fails alike (concrete fold, shared with C08.R9)', _encoder),
    ],
    'C03': [
        ('c08', 'rule_r9', (), 'C03.R14', 'the round trip is the same with compiled templates on either side (concrete compile / replay fold, shared with C08.R9)', None),
        ('c01', 'rule_r7', (), 'C03.R15', 'missing reads back as missing: all ones of a field wider than one bit, for every element class (shared with C01.R7)', None),
        ('c04', 'rule_r1', (), 'C03.R16', 'every message is written into its own bit stream and framed by its own lengths: nothing of a refused message is left in front of the '
                                          'next one (back-patch / framing fold, shared with C04.R1)', None),
        ('c05', 'rule_state_mode', ('C03.R17',), 'C03.R17', 'the data section is written in the layout the header declares, also for a single subset (shared with C05.R8)', None),
    ],
    'C18': [
        ('c17', 'rule_r2', (), 'C18.R8', 'a metadata expression of a script is looked up in the message it is run on, section by section, whatever was looked up before (shared '
                                         'with C17.R2)', None),
    ],
    'C05': [
        ('c02', 'rule_r2', (), 'C05.R14', 'what the compressed writer stores is the scaled integer of each value, minimum and differences taken from those (shared with C02.R2)', None),
    ],
    'C06': [
        ('c16', 'rule_r3', (), 'C06.R10', 'the values a query obtains for subset k come from the hierarchy of subset k (shared with C16.R3)',
         lambda f: 'per-subset-tree' in f.key or f.key.endswith(':subset')),
    ],
    'C08': [
        ('c05', 'rule_state_mode', ('C08.R10',), 'C08.R10', 'the per-subset set-up of the coder state is the same whether the walk that follows is the plain or the compiled one '
                                                             '(shared with C05.R8)', None),
    ],
    'C10': [
        ('c08', 'rule_r9', (), 'C10.R15', 'encoding the extract with compiled templates writes the fields of the plain walk (concrete fold, shared with C08.R9)', _encoder),
        ('c04', 'rule_r1', (), 'C10.R16', 'the lengths declared by the source are replaced by those of the extract (back-patch fold, shared with C04.R1)', None),
        ('c19', 'rule_r1', ('TIER',), 'C10.R17', 'what the encoder writes for the extract is read back by the reader of the same type and width - sign-magnitude reference values '
                                                 'included (shared with C19.R1)', None),
    ],
    'C11': [
        ('c13', 'rule_r1', (), 'C11.R10', 'a scan registers table definitions only by adding to them: nothing but the owner methods empties the process-wide table state another '
                                          'scan relies on (shared with C13.R1)', None),
    ],
    'C12': [
        ('c19', 'rule_r1', ('TIER',), 'C12.R15', 'every type of section parameter is read with a sized format (generic dispatcher = typed method), so that a short read is the '
                                                 'library error (shared with C19.R1)', lambda f: 'dispatch' in f.key or 'bool' in f.key),
    ],
    'C13': [
        ('c08', 'rule_r9', (), 'C13.R11', 'a compiled template gives the same result every time it is run (second run of the same statements; shared with C08.R9)',
         lambda f: 'second-run' in f.key),
    ],
    'C14': [
        ('c08', 'rule_r5', (), 'C14.R13', 'a template built from a descriptor list under one set of tables is not replaced by the compiled form of another (cache key, shared '
                                          'with C08.R5)', None),
    ],
    'C16': [
        ('c07', 'rule_r4', (), 'C16.R9', 'the attribute a path step designates carries the meaning of its own operator block (shared with C07.R4)', None),
        ('c09', 'rule_attributes_shown', ('C16.R10',), 'C16.R10', 'the nested JSON rendering - the reference the query is defined against - shows every attribute under its owner '
                                                                  '(shared with C09.R10)', None),
        ('c06', 'rule_r3', ('C16.R11',), 'C16.R11', 'the tree a path is evaluated over is wired from the subset\'s own records (shared with C06.R3)', None),
        ('c08', 'rule_r9', (), 'C16.R12', 'the data a query runs over are the same with and without template compilation (shared with C08.R9)', _not_encoder),
    ],
    'C17': [
        ('c04', 'rule_r4', (), 'C17.R8', 'a metadata-only decode never wires, whatever the caller asks for (Decoder.process scripted; shared with C04.R4)', None),
    ],
}


def extra(repo, check, prop):
    import importlib
    from sa.rules.common import share
    for mod, fn, args, new_id, title, keep in TABLE.get(prop, ()):
        m = importlib.import_module('sa.rules.' + mod)
        a = tuple(check.tier if x == 'TIER' else x for x in args)
        share(check, repo, getattr(m, fn), new_id, title, keep=keep, args=a)
