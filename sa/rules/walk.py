"""
Evaluation of the generic template walk (Coder.process_members / _element / _operator /
_marker ...) over concrete and abstract descriptors.  The abstract primitives
(process_numeric, process_codeflag, ...) are not inlined: every call to one is recorded
as an *emission* with the abstract values of its arguments.
"""
from __future__ import print_function

import ast

from sa.model import AnalysisError, norm
from sa.patheval import (Interp, Native, Obj, Sym, Top, Raise, UnknownMethod, FuncRef, ClassRef, Frame)

EMIT = ('process_numeric', 'process_string', 'process_codeflag', 'process_new_refval',
        'process_numeric_of_new_refval', 'process_constant')
QUERY = ('define_bitmap', 'get_value_for_delayed_replication_factor')

REGISTERS = ('nbits_offset', 'scale_offset', 'nbits_of_new_refval', 'new_refvals', 'nbits_of_associated',
             'nbits_of_skipped_local_descriptor', 'bsr_modifier', 'new_nbytes', 'data_not_present_count',
             'status_qa_info_follows', 'bitmap', 'bitmapped_descriptors', 'bitmap_definition_state',
             'most_recent_bitmap_is_for_reuse', 'n_031031', 'next_bitmapped_descriptor', 'back_reference_boundary',
             'back_referenced_descriptors')


class DescList(Native):
    """state.decoded_descriptors: its length is the number of emissions so far (each primitive
    appends exactly one descriptor -- rule C01.R3/C02.R5)."""

    def __init__(self, interp):
        self.interp = interp

    def __repr__(self):
        return 'DescList'

    def length(self):
        return len([e for e in self.interp.path.events if e[0] == 'emit'])


class NextBitmapped(Native):
    """state.next_bitmapped_descriptor: calling it yields (index, descriptor) of the next zero bit."""

    def __init__(self, descriptor):
        self.descriptor = descriptor
        self.n = 0

    def __repr__(self):
        return 'NextBitmapped'


class LinkDict(Native):
    def __repr__(self):
        return 'LinkDict'


class WalkInterp(Interp):
    MAX_PATHS = 4000

    def __init__(self, repo, coder='Decoder'):
        Interp.__init__(self, repo, coder)
        self.coder = coder

    # the abstract primitives are emissions
    def on_call(self, text, callee, args, kwargs, node, frame):
        if text.startswith('log.'):
            return None
        if isinstance(callee, FuncRef) and callee.fi.cls is not None:
            nm = callee.fi.name
            owner = callee.fi.cls.name
            if owner == 'TemplateCompiler':
                return self.NOT_HANDLED      # the compiler's recording methods are analysed, not abstracted
            if nm in EMIT and self.repo.is_subclass(owner, 'Coder'):
                # args: state, bit_operator, descriptor, ...
                self.event('emit', nm, list(args[2:]), self.where(node, frame))
                return None
            if nm in QUERY and self.repo.is_subclass(owner, 'Coder'):
                self.event('query', nm, list(args[1:]), self.where(node, frame))
                if nm == 'get_value_for_delayed_replication_factor':
                    return Top('factor')
                return Top('bitmap')
        if text == 'BSRModifier':
            if args:
                return Obj('BSRModifier', dict(zip(('nbits_increment', 'scale_increment', 'refval_factor'), args)))
            return Obj('BSRModifier', dict(kwargs))
        if isinstance(callee, Native) and isinstance(callee, NextBitmapped):
            callee.n += 1
            self.event('next_bitmapped', callee.n)
            return (Sym('BIDX%d' % callee.n), callee.descriptor)
        if isinstance(callee, UnknownMethod) and callee.name == 'format':
            return Top('str')
        return self.NOT_HANDLED

    def ev_callee(self, f, frame):
        v = Interp.ev_callee(self, f, frame)
        return v

    def apply(self, text, callee, args, kwargs, node, frame):
        if isinstance(callee, NextBitmapped):
            callee.n += 1
            self.event('next_bitmapped', callee.n)
            return (Sym('BIDX%d' % callee.n), callee.descriptor)
        return Interp.apply(self, text, callee, args, kwargs, node, frame)

    def builtin(self, name, args, kwargs, node, frame):
        if name == 'len' and args and isinstance(args[0], DescList):
            return args[0].length()
        if name == 'sum' and args and isinstance(args[0], list) and all(isinstance(x, int) for x in args[0]):
            return sum(args[0])
        return Interp.builtin(self, name, args, kwargs, node, frame)

    def on_store_subscript(self, base, idx, value, node, frame):
        if isinstance(base, LinkDict):
            self.event('link', idx, value, self.where(node, frame))
            return True
        return False

    def on_store_attr(self, base, attr, value, node, frame):
        if isinstance(base, Obj) and base.cls in ('CoderState', 'CompilerState'):
            self.event('store', attr, value, self.where(node, frame))
        return False

    def on_for(self, node, itervalue, frame):
        # `for _ in range(<factor>)`: one iteration stands for all
        return None


def fold_init(repo, is_compressed=False, n_subsets=1, values=None, interp=None):
    """CoderState.__init__ folded by PathEval; returns the state objects of all non-raising paths (the logging-level test forks).
    With `interp` given, module-level objects are the ones that interpreter has already created (one process)."""
    init = repo.own_method('CoderState', '__init__')
    it = interp or WalkInterp(repo, 'Decoder')
    res = it.run_function(init, lambda: {'self': Obj('CoderState', {}), 'is_compressed': is_compressed, 'n_subsets': n_subsets,
                                         'decoded_values_all_subsets': values}, self_class='CoderState')
    out = [r.locals['self'] for r in res if r.ok]
    if not out:
        raise AnalysisError('CoderState.__init__ could not be folded: %s' % [r.describe() for r in res])
    return out


def initial_state(repo, interp, cls='CoderState', is_compressed=False):
    """Register file of a fresh state: CoderState.__init__ folded (first non-raising path)."""
    it0 = WalkInterp(repo, 'Decoder')
    st = fold_init(repo, is_compressed, 1, interp=it0)[0]
    fields = dict((k, v) for k, v in st.fields.items() if k in REGISTERS or k in ('idx_value', 'idx_subset', 'is_compressed', 'n_subsets'))
    for r in REGISTERS:
        if r not in fields:
            # a register whose initial value is a class-level default (read through the instance, as the walk does)
            v = it0.load_attr(st, r, None, None)
            if not (isinstance(v, Top) and v.kind == 'attr:' + r):
                fields[r] = v
    missing = [r for r in REGISTERS if r not in fields]
    if missing:
        raise AnalysisError('CoderState.__init__ no longer initialises register(s) %s' % ', '.join(missing))
    # fresh copies of containers so that runs do not share objects
    for k, v in list(fields.items()):
        if isinstance(v, list):
            fields[k] = list(v)
        elif isinstance(v, dict):
            fields[k] = dict(v)
        elif isinstance(v, Obj):
            fields[k] = Obj(v.cls, dict(v.fields))
    return fields


def make_state(repo, interp, overrides=None, cls='CoderState', is_compressed=False):
    f = initial_state(repo, interp, cls, is_compressed)
    f['decoded_descriptors'] = DescList(interp)
    f['bitmap_links'] = LinkDict()
    f['decoded_values'] = Top('values')
    if overrides:
        f.update(overrides)
    return Obj(cls, f)


def element(id_, unit='K', cls='ElementDescriptor', **kw):
    f = {'id': id_, 'name': 'ELEMENT %06d' % id_, 'unit': unit, 'scale': Sym('D.scale'), 'refval': Sym('D.refval'),
         'nbits': Sym('D.nbits'), 'crex_unit': 'C', 'crex_scale': 0, 'crex_nchars': 0}
    f.update(kw)
    return Obj(cls, f)


def operator(code, operand):
    return Obj('OperatorDescriptor', {'id': code * 1000 + operand})


def snapshot(state):
    """Comparable copy of the register file."""
    out = {}
    for k in REGISTERS:
        v = state.fields.get(k)
        if isinstance(v, Obj):
            out[k] = (v.cls, tuple(sorted((a, repr(b)) for a, b in v.fields.items())))
        elif isinstance(v, list):
            out[k] = ('list', tuple(repr(x) for x in v))
        elif isinstance(v, dict):
            out[k] = ('dict', tuple(sorted((repr(a), repr(b)) for a, b in v.items())))
        else:
            out[k] = repr(v)
    return out
