"""
C09  All four output formats carry the same data and convert back to it (structural part).

R1 coder / wirer lockstep: flat entries emitted == flat indices consumed, per member and operator state
R2 node / renderer exhaustiveness and the nested-JSON key contract
R3 text contracts: column 81, reader prefixes, line shapes the nested-text reader must classify
R4 CLI: the four (json, attributed) combinations map to the four converters
"""
from __future__ import print_function

import ast
import re

from sa.model import AnalysisError, norm, effects
from sa.patheval import Interp, Obj, Sym, Top
from sa.report import RuleResult
from sa.rules.lockstep import (run_coder, run_wirer, outcome_set, outcome_set_links, link_positions, NODE_CLASSES)
from sa.rules.walk import element, operator, NextBitmapped

OPERATOR_CODES = (201, 202, 203, 204, 205, 206, 207, 208, 221, 222, 223, 224, 225, 232, 235, 236, 237, 241, 242, 243)


def lockstep_cases(repo):
    """[(case name, key, members, coder state overrides, wirer overrides)]"""
    qa_w = repo.const('coder', 'QA_INFO_WAITING')
    qa_p = repo.const('coder', 'QA_INFO_PROCESSING')
    cases = []
    nb = lambda: NextBitmapped(element(12101))
    for assoc in (False, True):
        al = [4] if assoc else []
        tag = ' under 204' if assoc else ''
        for code in OPERATOR_CODES:
            for operand in (0, 5, 255):
                if code in (222, 223, 224, 225, 232, 235, 236, 237) and operand == 5:
                    continue
                so = {'nbits_of_associated': list(al), 'next_bitmapped_descriptor': nb()}
                if code == 237:
                    # a bitmap has been defined for reuse (236000) over one element: 237000 without one is refused, rightly
                    so.update({'bitmap': [0], 'back_referenced_descriptors': [(0, element(12101))], 'bitmapped_descriptors': [(0, element(12101))],
                               'most_recent_bitmap_is_for_reuse': True})
                if code == 204 and operand == 0 and not assoc:
                    so['nbits_of_associated'] = [4]
                wo = {'nbits_associated_list': list(so['nbits_of_associated'])}
                if code in (222, 223, 224, 225, 232) and operand == 255:
                    key = 'marker%s' % tag
                else:
                    key = 'operator %d%s' % (code, tag)
                cases.append(('operator %06d%s' % (code * 1000 + operand, tag), key, [operator(code, operand)], so, wo))
        for X in (1, 12, 31, 33):
            did = X * 1000 + 1
            for dnp in (0, 2):
                for qa in (None, 'waiting', 'processing'):
                    so = {'nbits_of_associated': list(al), 'data_not_present_count': dnp, 'next_bitmapped_descriptor': nb()}
                    wo = {'nbits_associated_list': list(al), 'data_not_present_count': dnp}
                    if qa:
                        so['status_qa_info_follows'] = qa_w if qa == 'waiting' else qa_p
                        wo['waiting_for_qa_info_meaning'] = True
                    cases.append(('element class %02d%s%s%s' % (X, tag, ' under 221' if dnp else '', ' after 222000 (%s)' % qa if qa else ''),
                                  'element%s%s%s' % (tag, ' under 221' if dnp else '', ' class 33 after 222000' if (qa and X == 33) else ''),
                                  [element(did)], so, wo))
        # strings and code tables
        for unit in ('CCITT IA5', 'CODE TABLE', 'FLAG TABLE'):
            cases.append(('%s element%s' % (unit, tag), 'element%s' % tag, [element(1015, unit=unit)],
                          {'nbits_of_associated': list(al)}, {'nbits_associated_list': list(al)}))
        # 203YYY: elements define new reference values
        cases.append(('element while 203YYY defines reference values%s' % tag, '203 definition%s' % tag, [element(12101)],
                      {'nbits_of_associated': list(al), 'nbits_of_new_refval': 12}, {'nbits_associated_list': list(al)}))
        # 206YYY: the next (local) descriptor is skipped
        cases.append(('defined local element after 206YYY%s' % tag, '206 skip%s' % tag, [element(12192)],
                      {'nbits_of_associated': list(al), 'nbits_of_skipped_local_descriptor': 9}, {'nbits_associated_list': list(al)}))
        cases.append(('undefined local element after 206YYY%s' % tag, '206 skip undefined%s' % tag, [Obj('UndefinedElementDescriptor', {'id': 12192})],
                      {'nbits_of_associated': list(al), 'nbits_of_skipped_local_descriptor': 9}, {'nbits_associated_list': list(al)}))
        # structure
        el = element(12101)
        cases.append(('fixed replication of two%s' % tag, 'fixed replication%s' % tag,
                      [Obj('FixedReplicationDescriptor', {'id': 101002, 'members': [el]})], {'nbits_of_associated': list(al)}, {'nbits_associated_list': list(al)}))
        cases.append(('delayed replication%s' % tag, 'delayed replication%s' % tag,
                      [Obj('DelayedReplicationDescriptor', {'id': 101000, 'members': [el], 'factor': element(31001)})],
                      {'nbits_of_associated': list(al)}, {'nbits_associated_list': list(al)}))
        cases.append(('sequence of two%s' % tag, 'sequence%s' % tag,
                      [Obj('SequenceDescriptor', {'id': 301001, 'name': 's', 'members': [el, element(1002)]})],
                      {'nbits_of_associated': list(al)}, {'nbits_associated_list': list(al)}))
        # a 221YYY span that runs across non-element members: both sides must count the same members towards YYY
        for dnp in (1, 2, 3):
            spans = [
                ('sequence then element', [Obj('SequenceDescriptor', {'id': 301001, 'name': 's', 'members': [element(12101), element(12102)]}), element(12103)]),
                ('operator then elements', [operator(201, 130), element(12101), element(12102), operator(201, 0)]),
                ('fixed replication then element', [Obj('FixedReplicationDescriptor', {'id': 101002, 'members': [element(12101)]}), element(12103)]),
                ('delayed replication then element', [Obj('DelayedReplicationDescriptor', {'id': 101000, 'members': [element(12101)], 'factor': element(31001)}), element(12103)]),
                ('class 1 element, element, element', [element(1001), element(12101), element(12102)]),
            ]
            for sname, members in spans:
                cases.append(('%s with %d left of a 221YYY span%s' % (sname, dnp, tag), 'span under 221%s' % tag, members,
                              {'nbits_of_associated': list(al), 'data_not_present_count': dnp},
                              {'nbits_associated_list': list(al), 'data_not_present_count': dnp}))
    # operator scopes that nest or run across structure: both sides must keep the same stack of associated-field widths, the same
    # skip / definition registers, over a whole member list
    E, O = element, operator
    multi = [
        ('nested 204: inner scope closed first', 'nested 204', [O(204, 2), E(31021), O(204, 3), E(31021), E(12001), O(204, 0), E(12001), O(204, 0), E(12001)]),
        ('nested 204 around a fixed replication', 'nested 204', [O(204, 2), E(31021), O(204, 3), E(31021),
                                                                  Obj('FixedReplicationDescriptor', {'id': 101002, 'members': [E(12001)]}), O(204, 0), E(12002), O(204, 0), E(12003)]),
        ('204 closed, then plain elements', '204 scope', [O(204, 4), E(31021), E(12001), O(204, 0), E(12002), E(1001)]),
        ('204 with class 31 and class 33 elements inside', '204 scope', [O(204, 4), E(31021), E(31001), E(33007), E(12001), O(204, 0)]),
        ('206 then 204', '206/204 order', [O(206, 9), E(12192), O(204, 4), E(31021), E(12001), O(204, 0), E(12001)]),
        ('203 definition then use then cancel', '203 scope', [O(203, 12), E(12101), O(203, 255), E(12101), O(203, 0), E(12101)]),
        ('221 count spent, then further elements', '221 scope', [O(221, 2), E(12101), E(12102), E(12103), E(1001)]),
        ('201/202/207/208 scopes around elements', 'width scopes', [O(201, 130), E(12101), O(201, 0), O(202, 129), E(12101), O(202, 0), O(207, 2), E(12101), O(207, 0),
                                                                    O(208, 3), E(1015, unit='CCITT IA5'), O(208, 0), E(12101)]),
        ('205 character insertion between elements', '205', [E(12101), O(205, 4), E(12102)]),
    ]
    for name, key, members in multi:
        cases.append((name, key, members, {'nbits_of_associated': []}, {'nbits_associated_list': []}))
    # a run of class 33 values after 222000 ends at the first other element; a class 33 element met later is an ordinary element
    cases.append(('class 33 run after 222000, other element, class 33 again', 'class 33 after the run', [E(33007), E(33007), E(12101), E(33007), E(12102)],
                  {'nbits_of_associated': [], 'status_qa_info_follows': qa_w, 'next_bitmapped_descriptor': nb()}, {'nbits_associated_list': [], 'waiting_for_qa_info_meaning': True}))
    return cases


def rule_r1(repo, rule='C09.R1'):
    rr = RuleResult(rule, 'coder / wirer lockstep: the template walk emits exactly as many flat entries as wire_members consumes')
    cfi = wfi = None
    n = 0
    for name, key, members, so, wo in lockstep_cases(repo):
        cfi, c = run_coder(repo, members, so)
        # the wirer is given the links the coder stored (per distinct set of linked positions among the coder's paths)
        w = []
        for keys in sorted(set(link_positions(r) for r in c if r.ok)) or [()]:
            wfi, wk = run_wirer(repo, members, wo, link_keys=keys)
            w += wk
        if name == 'operator 222255':
            # 222255 is not an FM-94 operator (quality values are class 33 elements): only the entry counts are compared
            cs, ws = outcome_set(c, ('emit',)), outcome_set(w, ('consume',))
        else:
            cs, ws = outcome_set_links(c, ('emit',), 'link'), outcome_set_links(w, ('consume',), 'linkread')
        n += 1
        rr.instance('%s: coder %s, wirer %s' % (name, sorted(cs), sorted(ws)))
        if cs != ws:
            def fmt(s):
                return ' | '.join(x if x.startswith('raise') else ('%d entries %s%s' % (x.split(' links@')[0].count('x'), '[' + x.split(' links@')[0] + ']' if '(' in x else '',
                                                                                          (' with links at flat positions ' + x.split(' links@')[1]) if ' links@' in x else '')).strip()
                                  for x in sorted(s)) or 'nothing'
            rr.fail('lockstep:%s' % key, wfi.where, '%s: the coder emits %s, the wirer consumes %s; the hierarchical view and the nested renderings would be '
                    'shifted against the flat data' % (name, fmt(cs), fmt(ws)), witness={'case': name})
    rr.extra['cases'] = n
    rr.require_floor(150)
    return rr


def rule_registered(repo, rule='C09.R7'):
    """Over the lockstep cases: every value node the wiring puts into the tree is registered under its flat index, so a bitmap
    link (or the 222000 quality branch) that designates that entry finds its owner."""
    rr = RuleResult(rule, 'every value node placed in the tree is addressable through its flat index (index_to_node), in every wiring regime')
    wfi = repo.method('TemplateData', 'wire_members')

    def value_nodes(nodes, out):
        for n in nodes:
            if not isinstance(n, Obj):
                continue
            if repo.has_cls(n.cls) and repo.is_subclass(n.cls, 'ValueDataNode'):
                out.append(n)
            ms = n.fields.get('members')
            if isinstance(ms, list):
                value_nodes(ms, out)
            f = n.fields.get('factor')
            if isinstance(f, Obj):
                value_nodes([f], out)
        return out

    seen = 0
    for name, key, members, so, wo in lockstep_cases(repo):
        _, w = run_wirer(repo, members, wo)
        for r in w:
            if not r.ok:
                continue
            me = r.locals['self']
            reg = me.fields.get('index_to_node')
            nodes = value_nodes(me.fields.get('decoded_nodes') or [], [])
            if not isinstance(reg, dict):
                raise AnalysisError('index_to_node is not a dict after wiring (%r)' % (reg,))
            for n in nodes:
                seen += 1
                idx = n.fields.get('index')
                if not isinstance(idx, int):
                    continue
                if reg.get(idx) is not n:
                    rr.fail('index_to_node:%s' % key, wfi.where,
                            '%s: the %s for flat entry %r is put into the tree but not registered in index_to_node: a bitmap link or quality '
                            'value that designates this entry raises KeyError (or lands on another node) when the message is wired' % (name, n.cls, idx),
                            witness={'case': name})
        rr.instance('%s' % name)
    rr.extra['value_nodes_checked'] = seen
    if seen < 60:
        raise AnalysisError('only %d value nodes seen in the wiring cases' % seen)
    rr.require_floor(150)
    return rr


# ---------------------------------------------------------------------------
def classes_constructed(fn_node, names):
    out = set()
    for n in ast.walk(fn_node):
        if isinstance(n, ast.Call) and isinstance(n.func, ast.Name) and n.func.id in names:
            out.add(n.func.id)
    return out


def rule_r2(repo):
    rr = RuleResult('C09.R2', 'every node class the wiring creates is rendered by both nested renderers; nested-JSON keys match their reader')
    td = repo.module('templatedata')
    node_classes = [c for c in td.classes if repo.is_subclass(c, 'DataNode')]
    created = set()
    for fi in td.classes['TemplateData'].methods.values():
        created |= classes_constructed(fi.node, node_classes)
    rr.extra['node_classes_created'] = sorted(created)
    novalue = set(c for c in created if repo.is_subclass(c, 'NoValueDataNode'))
    value = created - novalue
    for rname in ('NestedJsonRenderer', 'NestedTextRenderer'):
        fi = repo.own_method(rname, '_render_template_data_nodes')
        tested = set()
        for n in ast.walk(fi.node):
            if isinstance(n, ast.Call) and isinstance(n.func, ast.Name) and n.func.id == 'isinstance' and len(n.args) == 2:
                t = n.args[1]
                for x in (t.elts if isinstance(t, ast.Tuple) else [t]):
                    if isinstance(x, ast.Name):
                        tested.add(x.id)
        # the dispatch: NoValueDataNode branch with Sequence / Fixed / Delayed sub-branches, else value node
        for c in sorted(novalue):
            rr.instance('%s handles %s' % (rname, c))
            if c != 'NoValueDataNode' and c not in tested:
                rr.fail('%s:%s' % (rname, c), fi.where, '%s._render_template_data_nodes has no branch for %s nodes: their members would not be rendered' % (rname, c))
        if 'NoValueDataNode' not in tested:
            rr.fail('%s:NoValueDataNode' % rname, fi.where, '%s does not separate value-less nodes from value nodes' % rname)
        for c in sorted(value):
            rr.instance('%s renders %s through the value-node branch' % (rname, c))
            if not repo.is_subclass(c, 'ValueDataNode'):
                rr.fail('%s:%s' % (rname, c), fi.where, '%s is neither a NoValueDataNode nor a ValueDataNode' % c)
    # key contract of nested JSON
    writer_keys = set()
    jr = repo.cls('NestedJsonRenderer')
    for fi in jr.methods.values():
        for n in ast.walk(fi.node):
            if isinstance(n, ast.Dict):
                for k in n.keys:
                    if isinstance(k, ast.Constant) and isinstance(k.value, str):
                        writer_keys.add(k.value)
            if isinstance(n, ast.Subscript) and isinstance(n.ctx, ast.Store) and isinstance(n.slice, ast.Constant) and isinstance(n.slice.value, str):
                writer_keys.add(n.slice.value)
    reader = repo.func('utils', 'template_data_nested_json_to_flat_json')
    reader2 = repo.func('utils', 'nested_json_to_flat_json')
    reader_keys = set()
    # the readers and every module-level helper of utils they call, transitively (closures moved out of the function are still the reader)
    um = repo.module('utils')
    readers, work = [], [reader, reader2]
    while work:
        f = work.pop()
        if any(f is x for x in readers):
            continue
        readers.append(f)
        for n in ast.walk(f.node):
            if isinstance(n, ast.Name) and n.id in um.funcs and not any(um.funcs[n.id] is x for x in readers):
                work.append(um.funcs[n.id])
    for f in readers:
        for n in ast.walk(f.node):
            if isinstance(n, ast.Subscript) and isinstance(n.slice, ast.Constant) and isinstance(n.slice.value, str):
                reader_keys.add(n.slice.value)
            if isinstance(n, ast.Compare) and isinstance(n.left, ast.Constant) and isinstance(n.left.value, str) and isinstance(n.ops[0], (ast.In, ast.NotIn)):
                reader_keys.add(n.left.value)
            if isinstance(n, ast.Call) and isinstance(n.func, ast.Attribute) and n.func.attr == 'get' and n.args and isinstance(n.args[0], ast.Constant):
                reader_keys.add(n.args[0].value)
    rr.instance('nested JSON keys: writer %s, reader %s' % (sorted(writer_keys), sorted(reader_keys)))
    missing = reader_keys - writer_keys
    if missing:
        rr.fail('nested-json:keys', reader.where, 'the nested-JSON reader consults key(s) %s that NestedJsonRenderer never writes (it writes %s)' % (sorted(missing), sorted(writer_keys)))
    for k in ('value', 'members', 'factor', 'attributes', 'virtual', 'id', 'name'):
        if k not in reader_keys:
            rr.fail('nested-json:reader-key:%s' % k, reader.where, 'the nested-JSON reader no longer consults %r' % k)
    # (order of attribute / owner values and the treatment of virtual attributes are decided semantically by the fold in C09.R5)
    rr.require_floor(10)
    return rr


# ---------------------------------------------------------------------------
def _format_strings(fn_node):
    out = []
    for n in ast.walk(fn_node):
        if isinstance(n, ast.Call) and isinstance(n.func, ast.Attribute) and n.func.attr == 'format' and \
                isinstance(n.func.value, ast.Constant) and isinstance(n.func.value.value, str):
            out.append((n.func.value.value, n))
    return out


FIELD = re.compile(r'\{([^{}:!]*)(![rsa])?(?::([^{}]*))?\}')


def fixed_prefix_width(fmt, int_widths):
    """Width of everything before the last replacement field, given the widths of the integer fields
    (in order).  Returns None when a field before the last one has no fixed width."""
    fields = list(FIELD.finditer(fmt))
    if not fields:
        return None
    last = fields[-1]
    w = 0
    pos = 0
    ints = list(int_widths)
    for f in fields[:-1]:
        w += len(fmt[pos:f.start()])
        spec = f.group(3) or ''
        m = re.match(r'^(\d+)\.(\d+)$', spec)
        if m and m.group(1) == m.group(2):
            w += int(m.group(1))
        elif spec == '' and ints:
            w += ints.pop(0)
        else:
            return None
        pos = f.end()
    w += len(fmt[pos:last.start()])
    return w


def rule_r3(repo):
    rr = RuleResult('C09.R3', 'text contracts between the text renderers and utils.*_text_to_flat_json')
    fr = repo.own_method('FlatTextRenderer', '_render_template_data')
    # the value line formats, wherever in the class they are written (the method itself or a helper it was split into)
    fmts = []
    methods = repo.cls('FlatTextRenderer').methods
    closure, work = [], [fr]
    while work:
        mfi = work.pop()
        if any(mfi is x for x in closure):
            continue
        closure.append(mfi)
        for n in ast.walk(mfi.node):
            if isinstance(n, ast.Attribute) and isinstance(n.value, ast.Name) and n.value.id in ('self', 'cls', 'FlatTextRenderer') and n.attr in methods:
                work.append(methods[n.attr])
    for mfi in closure:
        fmts += [(f, n) for f, n in _format_strings(mfi.node) if '{!r}' in f and 'subset' not in f and ' = ' not in f]
    reader = repo.func('utils', 'subsets_flat_text_to_flat_json')
    cols = set()
    for n in ast.walk(reader.node):
        if isinstance(n, ast.Subscript) and isinstance(n.slice, ast.Slice) and norm(n.value) == 'line' and n.slice.lower is not None \
                and isinstance(n.slice.lower, ast.Constant):
            cols.add(n.slice.lower.value)
    if len(cols) != 1:
        raise AnalysisError('utils.subsets_flat_text_to_flat_json: value column not recognised (%s)' % sorted(cols))
    col = cols.pop()
    if len(fmts) < 2:
        # written in a form this syntactic rule does not read (f-strings, concatenation): the column contract itself is decided by
        # the render -> read-back fold (R5), which does not depend on how the line is formatted
        rr.note('flat text value lines are not plain str.format calls (%d found): column contract left to the fold of R5' % len(fmts))
        fmts = []
    for f, n in fmts:
        # integer fields are produced by fixed_width_repr_of_int(value, width)
        widths = []
        for a in n.args:
            if isinstance(a, ast.Call) and norm(a.func) == 'fixed_width_repr_of_int' and len(a.args) >= 2 and isinstance(a.args[1], ast.Constant):
                widths.append(a.args[1].value)
        w = fixed_prefix_width(f, widths)
        rr.instance('flat text line %r: value starts at column %s (reader slices at %d)' % (f, w, col))
        if w is None:
            rr.note('flat text line format %r: width before the value not readable syntactically; left to the fold of R5' % f)
            continue
        if w != col:
            rr.fail('flat-text:column:%s' % ('linked' if '->' in f else 'plain'), '%s:%d' % (fr.module.relpath, n.lineno),
                    'the value of a %s line starts at column %d but flat_text_to_flat_json reads line[%d:]' % ('linked' if '->' in f else 'plain', w, col))
    # fixed_width_repr_of_int really yields exactly `width` characters
    fw = repo.func('utils', 'fixed_width_repr_of_int')
    it = Interp(repo, None)
    for val, width, pad in ((1, 5, True), (12345, 5, True), (123456, 5, True), (7, 6, False), (1234567, 6, False)):
        res = it.run_function(fw, lambda: {'value': val, 'width': width, 'pad_left': pad})
        rr.instance('fixed_width_repr_of_int(%d, %d, pad_left=%s)' % (val, width, pad))
        for r in res:
            if not r.ok or not isinstance(r.value, str):
                raise AnalysisError('fixed_width_repr_of_int could not be folded: %s' % r.describe())
            if len(r.value) != width:
                rr.fail('utils.fixed_width_repr_of_int', fw.where, 'fixed_width_repr_of_int(%d, %d) is %r (%d characters)' % (val, width, r.value, len(r.value)))
    # reader prefixes are prefixes of what the writers emit
    hdr_sec = repo.const('utils', 'TEXT_SECTION_HEADER')
    hdr_sub = repo.const('utils', 'TEXT_SUBSET_HEADER')
    for rname in ('FlatTextRenderer', 'NestedTextRenderer'):
        sec = [f for f, n in _format_strings(repo.own_method(rname, '_render_bufr_message').node) if 'section' in f]
        sub = [f for f, n in _format_strings(repo.own_method(rname, '_render_template_data').node) if 'subset' in f]
        rr.instance('%s headers %s / %s' % (rname, sec, sub))
        if not sec or not all(f.startswith(hdr_sec) for f in sec):
            rr.fail('%s:section-header' % rname, repo.own_method(rname, '_render_bufr_message').where,
                    'section header lines %s do not start with %r, which the text readers use to find sections' % (sec, hdr_sec))
        if not sub or not all(f.startswith(hdr_sub) for f in sub):
            rr.fail('%s:subset-header' % rname, repo.own_method(rname, '_render_template_data').where,
                    'subset header lines %s do not start with %r' % (sub, hdr_sub))
        pl = [f for f, n in _format_strings(repo.own_method(rname, '_render_bufr_message').node) if ' = ' in f]
        if pl != ['{} = {!r}']:
            rr.fail('%s:parameter-line' % rname, repo.own_method(rname, '_render_bufr_message').where, "parameter lines are %s, the reader splits on ' = ' and literal_evals the value" % pl)
    # (the nested-text line kinds are decided semantically by the fold in C09.R5)
    rr.require_floor(8)
    return rr


def rule_r4(repo):
    rr = RuleResult('C09.R4', 'command_encode maps the four (json, attributed) combinations to the four converters')
    fi = repo.func('commands', 'command_encode')

    class CmdInterp(Interp):
        def on_call(self, text, callee, args, kwargs, node, frame):
            # (a converter is recognised by what the call resolves to, so that a table of formats works like an if / else ladder)
            from sa.patheval import FuncRef as _FR, UnknownMethod as _UM, ModRef as _MR
            conv = None
            if text in ('nested_json_to_flat_json', 'nested_text_to_flat_json', 'flat_text_to_flat_json', 'json.loads'):
                conv = text
            elif isinstance(callee, _FR) and callee.fi.module.name == 'utils' and callee.fi.name in ('nested_json_to_flat_json', 'nested_text_to_flat_json', 'flat_text_to_flat_json'):
                conv = callee.fi.name
            elif isinstance(callee, _UM) and isinstance(callee.recv, _MR) and callee.recv.name == 'json' and callee.name == 'loads':
                conv = 'json.loads'
            if conv is not None:
                self.event('convert', conv)
                return Sym('DATA:' + conv)
            if text == 'Encoder':
                it = self

                def process(interp, a, kw, node, frame):
                    it.event('encode', repr(a[0]) if a else None)
                    return Obj('BufrMessageStub', {'serialized_bytes': Sym('BYTES')})
                from sa.patheval import Stub
                return Stub('encoder', {'process': process})
            if text in ('open', 'sys.stdin.read', 'ins.read'):
                return Top(text)
            return self.NOT_HANDLED

        def on_with(self, node, frame):
            return self.NOT_HANDLED
    want = {(True, True): ['json.loads', 'nested_json_to_flat_json'], (True, False): ['json.loads'],
            (False, True): ['nested_text_to_flat_json'], (False, False): ['flat_text_to_flat_json']}
    for (js, attr), conv in sorted(want.items()):
        it = CmdInterp(repo, None)
        ns = Obj('Namespace', {'json': js, 'attributed': attr, 'filename': '-', 'output_filename': None, 'definitions_directory': None,
                               'tables_root_directory': None, 'compiled_template_cache_max': None, 'master_table_version': None,
                               'append': False, 'preamble': None})
        try:
            res = it.run_function(fi, lambda: {'ns': ns})
        except AnalysisError as e:
            raise AnalysisError('command_encode could not be folded: %s' % e)
        rr.instance('json=%s attributed=%s -> %s' % (js, attr, conv))
        for r in res:
            got = [e[1] for e in r.events if e[0] == 'convert']
            enc = [e[1] for e in r.events if e[0] == 'encode']
            if not r.ok or got != conv or enc != ['DATA:' + conv[-1]]:
                rr.fail('commands.command_encode:%s-%s' % ('json' if js else 'text', 'nested' if attr else 'flat'), fi.where,
                        'with json=%s attributed=%s the input goes through %s and %s is encoded (expected %s)' % (js, attr, got, enc, conv))
    rr.require_floor(4)
    return rr


def rule_r14(repo, rule='C09.R14'):
    """command_decode folded for the eight combinations of (multiple messages, attributed, json) with scripted collaborators: every
    message is rendered exactly once by the renderer that belongs to the requested format, and a message handed to a *nested*
    renderer has been wired - by the decoder, by the scanner or by the command itself (an unwired message renders as a hierarchy
    without data, which converts back to empty subsets)."""
    from sa.patheval import Stub, LazyIter
    rr = RuleResult(rule, 'the decode command renders every message once with the renderer of the requested format, nested formats from wired data')
    fi = repo.func('commands', 'command_decode')
    renderers = {'FlatTextRenderer': (False, False), 'FlatJsonRenderer': (True, False), 'NestedTextRenderer': (False, True), 'NestedJsonRenderer': (True, True)}

    class CmdInterp(Interp):
        def message(self, k, wired):
            it = self
            state = {'wired': bool(wired)}

            def wire(interp, a, kw, node, frame):
                state['wired'] = True
                return None
            m = Stub('message %d' % k, {'wire': wire})
            m.state = state
            return m

        def wire_option(self, kwargs, default=True):
            w = kwargs.get('wire_template_data', default)
            return w if isinstance(w, bool) else bool(self.truth(w))

        def on_call(self, text, callee, args, kwargs, node, frame):
            it = self
            from sa.patheval import ClassRef as _CR0
            if text == 'Decoder' or (isinstance(callee, _CR0) and callee.name == 'Decoder'):
                def process(interp, a, kw, node, frame):
                    it.event('decode', 'single')
                    return it.message(0, it.wire_option(kw))
                return Stub('decoder', {'process': process})
            if text == 'generate_bufr_message':
                it.event('decode', 'stream')
                return LazyIter([it.message(k, it.wire_option(kwargs)) for k in (0, 1)], lambda k: None, 'scanner')
            from sa.patheval import ClassRef as _CR
            rcls = text if text in renderers else (callee.name if isinstance(callee, _CR) and callee.name in renderers else None)
            if rcls is not None:
                # (a renderer class, however it is named at the call: directly, or taken from a table of formats)
                text = rcls

                def render(interp, a, kw, node, frame, cls=text):
                    m = a[0] if a else None
                    if isinstance(m, Stub) and hasattr(m, 'state'):
                        it.event('render', cls, m.label, m.state['wired'])
                    else:
                        it.event('render', cls, repr(m), None)
                    return Sym('RENDERED')
                return Stub(text, {'render': render})
            if text == 'open':
                return Stub('file', {'read': lambda interp, a, kw, node, frame: Sym('STREAM')})
            if text.startswith('json.') or text.startswith('log.') or text.startswith('sys.'):
                return Top('text')
            return self.NOT_HANDLED

        def builtin(self, name, args, kwargs, node, frame):
            if name == 'print':
                return None
            return Interp.builtin(self, name, args, kwargs, node, frame)
    for multiple in (False, True):
        for attributed in (False, True):
            for js in (False, True):
                ns = Obj('Namespace', {'filenames': ['f.bufr'], 'definitions_directory': None, 'tables_root_directory': None, 'compiled_template_cache_max': None,
                                       'continue_on_error': False, 'ignore_value_expectation': False, 'filter': None, 'attributed': attributed, 'json': js,
                                       'multiple_messages': multiple})
                it = CmdInterp(repo, None)
                res = it.run_function(fi, lambda: {'ns': ns})
                what = 'decode%s%s%s' % (' -m' if multiple else '', ' -a' if attributed else '', ' -j' if js else '')
                rr.instance(what)
                want_n = 2 if multiple else 1
                for r in res:
                    if not r.ok:
                        rr.fail('commands.command_decode:raises', fi.where, '%s ends in %s on a scripted stream of sound messages' % (what, r.describe()), witness={'command': what})
                        continue
                    rs = [e for e in r.events if e[0] == 'render']
                    if [e[2] for e in rs] != ['message %d' % k for k in range(want_n)]:
                        rr.fail('commands.command_decode:rendered-once', fi.where, '%s renders %s; expected each of the %d message(s) once, in order' % (what, [e[2] for e in rs], want_n),
                                witness={'command': what})
                        continue
                    for e in rs:
                        if renderers.get(e[1]) != (js, attributed):
                            rr.fail('commands.command_decode:format', fi.where, '%s renders with %s' % (what, e[1]), witness={'command': what})
                        elif attributed and e[3] is not True:
                            rr.fail('commands.command_decode:unwired', fi.where, '%s hands %s to %s before the message has been wired (the decode call asked for no wiring and the '
                                    'command does not wire it): the hierarchy is printed without its data, and converting that back gives empty subsets instead of the '
                                    'flat JSON' % (what, e[2], e[1]), witness={'command': what})
    rr.require_floor(8)
    return rr


class TextInterp(Interp):
    """Renderers and text readers on concrete node trees / lines (format() renders descriptors through their own __str__)."""
    LIST_CAP = 400
    MAX_DEPTH = 40

    def on_load_attr(self, base, attr, node, frame):
        from sa.patheval import ModRef
        if isinstance(base, ModRef) and base.name == 'six':
            if attr == 'PY2':
                return False
            if attr == 'PY3':
                return True
            if attr == 'binary_type':
                return ('builtin', 'bytes')
            if attr == 'text_type':
                return ('builtin', 'str')
        return self.NOT_HANDLED

    def on_while(self, node, frame):
        return self.unroll_while(node, frame, 400)

    def _str(self, v, node, frame):
        if isinstance(v, Obj) and self.repo.has_cls(v.cls):
            fi = self.repo.method(v.cls, '__str__', required=False)
            if fi is not None:
                return self.call_function(fi, [v], {}, node, frame)
        return v

    def on_call(self, text, callee, args, kwargs, node, frame):
        from sa.patheval import UnknownMethod, Raise
        if isinstance(callee, UnknownMethod) and callee.name == 'format' and isinstance(callee.recv, str):
            a = [self._str(x, node, frame) for x in args]
            kw = dict((k, self._str(x, node, frame)) for k, x in kwargs.items())
            try:
                return callee.recv.format(*a, **kw)
            except Exception:
                return Top('str')
        if text == 'str' and args and isinstance(args[0], Obj):
            return self._str(args[0], node, frame)
        if text == 'ast.literal_eval':
            import ast as _ast
            if isinstance(args[0], str):
                try:
                    return _ast.literal_eval(args[0])
                except ValueError:
                    raise Raise('ValueError', node, self.where(node, frame))
                except SyntaxError:
                    raise Raise('SyntaxError', node, self.where(node, frame))
            return Top('literal')
        return self.NOT_HANDLED


def _elem(i, name, unit='NUMERIC', nbits=8):
    return Obj('ElementDescriptor', {'id': i, 'name': name, 'unit': unit, 'nbits': nbits, 'scale': 0, 'refval': 0})


def text_tree():
    """A node tree covering every line kind of the nested text, with its flat descriptor / value lists."""
    descs, vals = [], []

    def add(d, v):
        descs.append(d)
        vals.append(v)
        return len(vals) - 1
    nodes = []
    nodes.append(Obj('ValueDataNode', {'descriptor': _elem(1015, 'STATION OR SITE NAME', 'CCITT IA5', 160), 'index': add(_elem(1015, 'STATION OR SITE NAME', 'CCITT IA5', 160), b"ST JOHN'S")}))
    nodes.append(Obj('ValueDataNode', {'descriptor': _elem(1019, 'LONG NAME', 'CCITT IA5', 80), 'index': add(_elem(1019, 'LONG NAME', 'CCITT IA5', 80), b'say "hi" b\'x')}))
    nodes.append(Obj('ValueDataNode', {'descriptor': _elem(1018, 'SHORT NAME', 'CCITT IA5', 40), 'index': add(_elem(1018, 'SHORT NAME', 'CCITT IA5', 40), b'a b ')}))
    nodes.append(Obj('ValueDataNode', {'descriptor': _elem(1011, 'CALL SIGN', 'CCITT IA5', 16), 'index': add(_elem(1011, 'CALL SIGN', 'CCITT IA5', 16), b'\xe9\xff')}))
    nodes.append(Obj('NoValueDataNode', {'descriptor': Obj('OperatorDescriptor', {'id': 201130})}))
    nodes.append(Obj('ValueDataNode', {'descriptor': _elem(12101, 'TEMPERATURE'), 'index': add(_elem(12101, 'TEMPERATURE'), 271.5)}))
    nodes.append(Obj('ValueDataNode', {'descriptor': _elem(12102, 'WET BULB'), 'index': add(_elem(12102, 'WET BULB'), None)}))
    nodes.append(Obj('ValueDataNode', {'descriptor': _elem(5001, 'LATITUDE'), 'index': add(_elem(5001, 'LATITUDE'), -33.5)}))
    nodes.append(Obj('ValueDataNode', {'descriptor': _elem(20003, 'PRESENT WEATHER', 'CODE TABLE'), 'index': add(_elem(20003, 'PRESENT WEATHER', 'CODE TABLE'), 0)}))
    # associated field + owner (flat order: associated first)
    ia = add(Obj('AssociatedDescriptor', {'id': 10004, 'nbits': 4, 'unit': 'ASSOCIATED'}), 3)
    io = add(_elem(10004, 'PRESSURE'), 1013)
    meaning = Obj('ValueDataNode', {'descriptor': _elem(31021, 'ASSOCIATED FIELD SIGNIFICANCE'), 'index': 99})
    assoc = Obj('AssociatedFieldNode', {'descriptor': descs[ia], 'index': ia, 'attributes': []})
    nodes.append(Obj('ValueDataNode', {'descriptor': descs[io], 'index': io, 'attributes': [assoc]}))
    # sequence with members
    i1 = add(_elem(4001, 'YEAR'), 2020)
    i2 = add(_elem(4002, 'MONTH'), 2)
    seq = Obj('SequenceNode', {'descriptor': Obj('SequenceDescriptor', {'id': 340011, 'name': 'DATE', 'members': []}),
                               'members': [Obj('ValueDataNode', {'descriptor': descs[i1], 'index': i1}), Obj('ValueDataNode', {'descriptor': descs[i2], 'index': i2})]})
    nodes.append(seq)
    # delayed replication with factor and two repetitions of one member
    fidx = add(_elem(31001, 'DELAYED DESCRIPTOR REPLICATION FACTOR'), 2)
    m1 = add(_elem(7004, 'PRESSURE LEVEL'), 850)
    m2 = add(_elem(7004, 'PRESSURE LEVEL'), 500)
    rd = Obj('DelayedReplicationDescriptor', {'id': 101000, 'members': [descs[m1]], 'factor': descs[fidx]})
    rep = Obj('DelayedReplicationNode', {'descriptor': rd, 'factor': Obj('ValueDataNode', {'descriptor': descs[fidx], 'index': fidx}),
                                         'members': [Obj('ValueDataNode', {'descriptor': descs[m1], 'index': m1}), Obj('ValueDataNode', {'descriptor': descs[m2], 'index': m2})]})
    nodes.append(rep)
    # bitmapped quality value shown under its owner (virtual) and in place
    q = add(_elem(33007, 'PER CENT CONFIDENCE', 'CODE TABLE'), 70)
    qnode = Obj('QualityInfoNode', {'descriptor': descs[q], 'index': q})
    nodes[5].fields['attributes'] = [qnode]
    nodes.append(qnode)
    # marker value
    mk = add(Obj('MarkerDescriptor', {'id': 12101, 'name': 'TEMPERATURE', 'unit': 'K', 'nbits': 12, 'scale': 1, 'refval': 0, 'marker_id': 224255}), 3.5)
    nodes.append(Obj('FirstOrderStatsNode', {'descriptor': descs[mk], 'index': mk}))
    return nodes, descs, vals

def _attr_tree(nodes, vals):
    """Reference: the (value, [attributes...]) structure the node tree prescribes, in document order."""
    out = []
    for n in nodes:
        f = n.fields
        if 'index' in f and f['index'] < len(vals):
            out.append(('value', vals[f['index']], _attr_tree(f.get('attributes') or [], vals)))
        if 'factor' in f and isinstance(f['factor'], Obj):
            out.extend(_attr_tree([f['factor']], vals))
        if isinstance(f.get('members'), list):
            out.extend(_attr_tree(f['members'], vals))
    return out


def _attr_tree_json(entries):
    out = []
    for e in entries:
        if isinstance(e, list):
            out.extend(_attr_tree_json(e))
            continue
        if not isinstance(e, dict):
            continue
        if 'value' in e:
            out.append(('value', e['value'], _attr_tree_json(e.get('attributes') or [])))
        if isinstance(e.get('factor'), dict):
            out.extend(_attr_tree_json([e['factor']]))
        if isinstance(e.get('members'), list):
            out.extend(_attr_tree_json(e['members']))
    return out


def _attr_tree_text(lines):
    """(value text, [attribute lines below it]) per value line of the nested text; an attribute line is marked by '->' and is one
    indentation level deeper than its owner."""
    out = []
    stack = []      # (indent, children list)
    for l in lines:
        body = l.lstrip(' .')
        if not body or body.startswith('#'):
            continue
        indent = len(l) - len(body)
        is_attr = body.startswith('-> ')
        if is_attr:
            body = body[3:]
        words = body.split(' ')
        if not is_attr and (len(words) < 2 or words[0][:1] in '123'):
            # a structural line: operator, replication or sequence header (F = 1, 2, 3)
            continue
        entry = (words[0], [])
        if is_attr:
            while stack and stack[-1][0] >= indent:
                stack.pop()
            if not stack:
                out.append(('orphan', words[0], []))
                continue
            stack[-1][1].append(entry)
            stack.append((indent, entry[1]))
        else:
            out.append(entry)
            stack = [(indent, entry[1])]
    return out


def rule_attributes_shown(repo, rule='C09.R10'):
    """The hierarchical views show every attribute the node tree attaches - associated field, bitmapped quality / statistics value -
    under its owner, whether the owner is a plain element or a replication factor: the nested JSON and nested text renderings are
    folded on trees that carry attributes on both kinds of owner and compared, node by node, with the tree."""
    rr = RuleResult(rule, 'hierarchical views: every attribute of the node tree is shown under its owner (element or replication factor)')
    nodes, descs, vals = text_tree()
    fd, md, qd = _elem(31001, 'DELAYED DESCRIPTOR REPLICATION FACTOR'), _elem(7004, 'PRESSURE'), _elem(33007, 'PER CENT CONFIDENCE', 'CODE TABLE')
    ad = Obj('AssociatedDescriptor', {'id': 31001, 'nbits': 4, 'unit': 'ASSOCIATED'})
    qn = Obj('QualityInfoNode', {'descriptor': qd, 'index': 3})
    an = Obj('AssociatedFieldNode', {'descriptor': ad, 'index': 0, 'attributes': []})
    frep = Obj('DelayedReplicationNode', {'descriptor': Obj('DelayedReplicationDescriptor', {'id': 101000, 'members': [md], 'factor': fd}),
                                          'factor': Obj('ValueDataNode', {'descriptor': fd, 'index': 1, 'attributes': [an, qn]}),
                                          'members': [Obj('ValueDataNode', {'descriptor': md, 'index': 2})]})
    trees = [('elements, sequence, replication', nodes, descs, vals),
             ('replication factor with associated field and quality value', [frep, qn], [ad, fd, md, qd], [2, 1, 850, 70])]
    jn = repo.own_method('NestedJsonRenderer', '_render_template_data_nodes')
    rn = repo.own_method('NestedTextRenderer', '_render_template_data_nodes')
    for name, ns, ds, vs in trees:
        want = _attr_tree(ns, vs)
        it = TextInterp(repo, 'NestedJsonRenderer')
        res = it.run_function(jn, lambda: {'self': Obj('NestedJsonRenderer', {}), 'decoded_nodes': list(ns), 'decoded_descriptors': list(ds),
                                           'decoded_values': list(vs)}, self_class='NestedJsonRenderer')
        if len(res) != 1 or not res[0].ok or not isinstance(res[0].value, list):
            raise AnalysisError('NestedJsonRenderer._render_template_data_nodes could not be folded on the tree "%s": %s' % (name, [r.describe() for r in res]))
        got = _attr_tree_json(res[0].value)
        rr.instance('nested JSON of the tree "%s": %d values with their attributes' % (name, len(want)))
        if got != want:
            d = [(a, b) for a, b in zip(got, want) if a != b][:2] or [(len(got), len(want))]
            rr.fail('nested-json:attributes:%s' % name.split(',')[0].replace(' ', '-'), jn.where, 'tree "%s": the nested JSON shows %s where the node tree has %s (value, '
                    'attributes below it): an attribute is missing from, or misplaced under, its owner' % (name, d[0][0], d[0][1]), witness={'tree': name})
        it = TextInterp(repo, 'NestedTextRenderer')
        res = it.run_function(rn, lambda: {'self': Obj('NestedTextRenderer', {}), 'decoded_nodes': list(ns), 'decoded_descriptors': list(ds),
                                           'decoded_values': list(vs), 'indent': ''}, self_class='NestedTextRenderer')
        if len(res) != 1 or not res[0].ok or not isinstance(res[0].value, list):
            raise AnalysisError('NestedTextRenderer._render_template_data_nodes could not be folded on the tree "%s"' % name)

        def ids(t):
            return [(len(a),) + tuple(ids(a)) for _, _, a in t] if t and len(t[0]) == 3 else [(len(a),) + tuple(ids(a)) for _, a in t]
        got_t = _attr_tree_text(res[0].value)
        rr.instance('nested text of the tree "%s"' % name)
        if any(e[0] == 'orphan' for e in got_t) or ids(got_t) != ids(want):
            rr.fail('nested-text:attributes:%s' % name.split(',')[0].replace(' ', '-'), rn.where, 'tree "%s": the attribute lines of the nested text are nested as %s; the node '
                    'tree attaches them as %s (per value: number of attributes, recursively)' % (name, ids(got_t), ids(want)), witness={'lines': res[0].value})
    rr.require_floor(4)
    return rr

def rule_per_subset_rendering(repo, rule='C09.R11'):
    """Every renderer shows subset k from the records of subset k: the rendering of a three-subset (uncompressed, differently shaped)
    data section is, piece by piece, the rendering of each subset on its own.  Folded for the four renderers on a scripted
    TemplateData whose `decoded_descriptors` / `decoded_nodes` / ... (the records of the subset wired last) differ from subset to
    subset, as they do after wiring."""
    rr = RuleResult(rule, 'renderers take the nodes, descriptors, links and values of subset k for subset k (three differently shaped subsets, four renderers)')
    shapes = [
        [(_elem(1001, 'BLOCK'), 1), (_elem(12101, 'TEMPERATURE'), 271.5)],
        [(_elem(1002, 'STATION'), 2), (_elem(12102, 'WET BULB'), 280.0), (_elem(10004, 'PRESSURE'), 1000), (_elem(33007, 'CONFIDENCE', 'CODE TABLE'), 70)],
        [(_elem(1003, 'REGION'), 3)],
    ]
    links = [{}, {3: 2}, {}]

    def subset(k):
        descs = [d for d, _ in shapes[k]]
        vals = [v for _, v in shapes[k]]
        nodes = [Obj('ValueDataNode', {'descriptor': d, 'index': i}) for i, d in enumerate(descs)]
        if links[k]:
            for a, o in links[k].items():
                q = Obj('QualityInfoNode', {'descriptor': descs[a], 'index': a})
                nodes[o].fields['attributes'] = [q]
                nodes[a] = q
        return nodes, descs, vals, dict(links[k])

    def td(ks):
        parts = [subset(k) for k in ks]
        f = {'n_subsets': len(ks), 'is_compressed': False,
             'decoded_nodes_all_subsets': [p[0] for p in parts], 'decoded_descriptors_all_subsets': [p[1] for p in parts],
             'decoded_values_all_subsets': [p[2] for p in parts], 'bitmap_links_all_subsets': [p[3] for p in parts]}
        # the "current subset" records are those of the subset wired last
        f.update({'decoded_nodes': parts[-1][0], 'decoded_descriptors': parts[-1][1], 'decoded_values': parts[-1][2], 'bitmap_links': parts[-1][3]})
        return Obj('TemplateDataStub', f)

    def pieces(out, n):
        if isinstance(out, str):
            got, cur = [], None
            for l in out.split('\n'):
                if l.startswith('######'):
                    cur = []
                    got.append(cur)
                elif cur is not None:
                    cur.append(l)
            return got
        return list(out) if isinstance(out, list) else None
    for renderer in ('FlatTextRenderer', 'NestedTextRenderer', 'FlatJsonRenderer', 'NestedJsonRenderer'):
        fi = repo.method(renderer, '_render_template_data')

        def render(ks):
            it = TextInterp(repo, renderer)
            res = it.run_function(fi, lambda: {'self': Obj(renderer, {}), 'template_data': td(ks)}, self_class=renderer)
            if len(res) != 1:
                raise AnalysisError('%s._render_template_data forks on concrete data' % renderer)
            return res[0]
        for order in ([0, 1, 2], [2, 0, 1]):
            whole = render(order)
            rr.instance('%s: subsets %s together and one by one' % (renderer, order))
            if not whole.ok:
                rr.fail('%s:per-subset' % renderer, fi.where, '%s fails with %s on three uncompressed subsets of different shapes (orders %s); each subset alone renders' % (
                    renderer, whole.exc.cls, order), witness={'order': order})
                continue
            got = pieces(whole.value, 3)
            for pos, k in enumerate(order):
                alone = render([k])
                if not alone.ok:
                    raise AnalysisError('%s._render_template_data fails on a single subset: %s' % (renderer, alone.describe()))
                want = pieces(alone.value, 1)
                if got is None or want is None or len(got) != 3 or len(want) != 1 or freeze_json(got[pos]) != freeze_json(want[0]):
                    rr.fail('%s:per-subset' % renderer, fi.where, '%s shows subset %d of [%s] as %s; rendered alone it is %s: records of another subset are used' % (
                        renderer, pos + 1, ', '.join('shape %d' % x for x in order), _short(got[pos] if got and len(got) > pos else got), _short(want[0] if want else want)),
                        witness={'order': order, 'position': pos})
                    break
    rr.require_floor(8)
    return rr


def freeze_json(v):
    if isinstance(v, dict):
        return tuple(sorted((k, freeze_json(x)) for k, x in v.items()))
    if isinstance(v, (list, tuple)):
        return tuple(freeze_json(x) for x in v)
    return repr(v)


def _short(v):
    s = repr(v)
    return s if len(s) < 300 else s[:297] + '...'

# (template, format) of the pipeline family that meet a recorded known finding -> the construct key it is recorded under
PIPELINE_KNOWN = {('data not present (221)', 'nested text'): 'nested-text:data-not-present-line'}


def _occurrences(nodes, acc=None, role='member'):
    """[(flat index, role, node class, owner index)]: members, replication factors and attributes of the wired tree."""
    acc = [] if acc is None else acc
    for n in nodes:
        f = n.fields
        if 'index' in f:
            acc.append((f['index'], role, n.cls, None))
            for a in f.get('attributes') or []:
                acc.append((a.fields.get('index'), 'attribute', a.cls, f['index']))
        if isinstance(f.get('factor'), Obj):
            _occurrences([f['factor']], acc, 'factor')
        if isinstance(f.get('members'), list):
            _occurrences(f['members'], acc, 'member')
    return acc


def rule_pipeline(repo, rule='C09.R13'):
    """End-to-end fold on the concrete template family of rules/pipeline.py: what the decoder produces (flat descriptors, values,
    links) is wired by TemplateData.wire(), rendered by the nested text / nested JSON / flat text renderers and read back by the
    utils converters.  Decided per template: the wiring goes through; every flat index has exactly one place in the tree (a member,
    a replication factor, or the associated-field attribute of its owner); each rendering reads back as the decoder's flat values."""
    from sa.rules import pipeline as P
    rr = RuleResult(rule, 'decode -> wire -> render -> read back, folded end to end on concrete templates: every value once in the tree, every rendering converts back to the flat values')
    rn = repo.own_method('NestedTextRenderer', '_render_template_data_nodes')
    rd = repo.func('utils', 'subsets_nested_text_to_flat_json')
    jn = repo.own_method('NestedJsonRenderer', '_render_template_data_nodes')
    jr = repo.func('utils', 'template_data_nested_json_to_flat_json')
    fr = repo.own_method('FlatTextRenderer', '_render_template_data')
    frd = repo.func('utils', 'subsets_flat_text_to_flat_json')
    for name in sorted(P.templates()):
        o = P.run_template(repo, name)
        key = name.split(' (')[0].replace(' ', '-').replace(',', '')
        rr.instance('template "%s"' % name)
        if not o.decode.ok:
            rr.fail('pipeline:%s:decode' % key, 'pybufrkit/coder.py', 'template "%s": the decoder walk ends in %s' % (name, o.decode.exc.cls), witness={'template': name})
            continue
        if o.unread:
            rr.fail('pipeline:%s:decode' % key, 'pybufrkit/coder.py', 'template "%s": the walk leaves %d of the scripted values unread (it expands to fewer fields than FM-94 '
                    'gives)' % (name, o.unread), witness={'template': name})
            continue
        if not o.wire.ok:
            rr.fail('pipeline:%s:wire' % key, 'pybufrkit/templatedata.py', 'template "%s": the decoder produces %d flat entries, wire() ends in %s' % (
                name, len(o.vals), o.wire.exc.cls), witness={'template': name})
            continue
        occ = _occurrences(o.nodes)
        primary = {}
        for idx, role, cls, owner in occ:
            if role in ('member', 'factor') or cls == 'AssociatedFieldNode':
                primary[idx] = primary.get(idx, 0) + 1
        bad = [i for i in range(len(o.vals)) if primary.get(i, 0) != 1] + [i for i in primary if not (isinstance(i, int) and 0 <= i < len(o.vals))]
        if bad:
            rr.fail('pipeline:%s:tree' % key, 'pybufrkit/templatedata.py', 'template "%s": flat entries %s do not have exactly one place in the wired tree (member, replication '
                    'factor or associated field of its owner); occurrences %s' % (name, bad[:6], dict((i, primary.get(i, 0)) for i in bad[:6])), witness={'template': name})
        # renderings and their read-back
        it = TextInterp(repo, 'NestedTextRenderer')
        res = it.run_function(rn, lambda: {'self': Obj('NestedTextRenderer', {}), 'decoded_nodes': list(o.nodes), 'decoded_descriptors': list(o.descs),
                                           'decoded_values': list(o.vals), 'indent': ''}, self_class='NestedTextRenderer')
        outs = {}
        if len(res) == 1 and res[0].ok and isinstance(res[0].value, list):
            lines = res[0].value
            res2 = TextInterp(repo, None).run_function(rd, lambda: {'lines': ['###### subset 1 of 1 ######'] + list(lines) + ['<<<<<< section 5 >>>>>>'], 'idxline': 0})
            r = res2[0] if len(res2) == 1 else None
            outs['nested text'] = (r.value[1][0] if r is not None and r.ok and isinstance(r.value, tuple) and r.value[1] else (r.exc.cls if r is not None and not r.ok else None), lines)
        else:
            outs['nested text'] = ('rendering ' + (res[0].describe() if res else 'failed'), None)
        res = TextInterp(repo, 'NestedJsonRenderer').run_function(jn, lambda: {'self': Obj('NestedJsonRenderer', {}), 'decoded_nodes': list(o.nodes),
                                                                               'decoded_descriptors': list(o.descs), 'decoded_values': list(o.vals)}, self_class='NestedJsonRenderer')
        if len(res) == 1 and res[0].ok and isinstance(res[0].value, list):
            tree = res[0].value
            res2 = TextInterp(repo, None).run_function(jr, lambda: {'template_data_value': [tree]})
            r = res2[0] if len(res2) == 1 else None
            outs['nested JSON'] = (r.value[0] if r is not None and r.ok and isinstance(r.value, list) and r.value else (r.exc.cls if r is not None and not r.ok else None), None)
        else:
            outs['nested JSON'] = ('rendering ' + (res[0].describe() if res else 'failed'), None)
        td = Obj('TemplateDataStub', {'n_subsets': 1, 'decoded_descriptors_all_subsets': [list(o.descs)], 'bitmap_links_all_subsets': [dict(o.links)],
                                      'decoded_values_all_subsets': [list(o.vals)]})
        res = TextInterp(repo, 'FlatTextRenderer').run_function(fr, lambda: {'self': Obj('FlatTextRenderer', {}), 'template_data': td}, self_class='FlatTextRenderer')
        if len(res) == 1 and res[0].ok and isinstance(res[0].value, str):
            flines = res[0].value.split('\n')
            res2 = TextInterp(repo, None).run_function(frd, lambda: {'lines': flines + ['<<<<<< section 5 >>>>>>'], 'idxline': 0})
            r = res2[0] if len(res2) == 1 else None
            outs['flat text'] = (r.value[1][0] if r is not None and r.ok and isinstance(r.value, tuple) and r.value[1] else (r.exc.cls if r is not None and not r.ok else None), flines)
        else:
            outs['flat text'] = ('rendering ' + (res[0].describe() if res else 'failed'), None)
        for fmt, (got, lines) in sorted(outs.items()):
            rr.instance('template "%s": %s read back' % (name, fmt))
            if got != list(o.vals):
                diff = [(i, a, b) for i, (a, b) in enumerate(zip(got, o.vals)) if a != b][:3] if isinstance(got, list) else got
                rr.fail(PIPELINE_KNOWN.get((name, fmt), 'pipeline:%s:%s' % (key, fmt.replace(' ', '-'))), 'pybufrkit/renderer.py', 'template "%s": the %s of the decoded data reads back as %s; the decoder\'s flat '
                        'values are %s (first differences (index, read, flat): %s)' % (name, fmt, _short(got), _short(list(o.vals)), diff),
                        witness={'template': name, 'format': fmt, 'lines': lines})
    rr.require_floor(60)
    return rr


def rule_r5(repo):
    rr = RuleResult('C09.R5', 'text renderings fold back to the flat values: every line kind and value shape, rendered and read back')
    nodes, descs, vals = text_tree()
    # ---- nested text
    rn = repo.own_method('NestedTextRenderer', '_render_template_data_nodes')
    rd = repo.func('utils', 'subsets_nested_text_to_flat_json')
    it = TextInterp(repo, 'NestedTextRenderer')
    res = it.run_function(rn, lambda: {'self': Obj('NestedTextRenderer', {}), 'decoded_nodes': list(nodes), 'decoded_descriptors': list(descs),
                                       'decoded_values': list(vals), 'indent': ''}, self_class='NestedTextRenderer')
    if len(res) != 1 or not res[0].ok or not isinstance(res[0].value, list) or not all(isinstance(x, str) for x in res[0].value):
        raise AnalysisError('NestedTextRenderer._render_template_data_nodes could not be folded: %s' % [r.describe() for r in res])
    lines = res[0].value
    rr.instance('nested text: %d lines rendered from a tree with %d values' % (len(lines), len(vals)))
    text = ['###### subset 1 of 1 ######'] + lines + ['<<<<<< section 5 >>>>>>']
    it2 = TextInterp(repo, None)
    res2 = it2.run_function(rd, lambda: {'lines': list(text), 'idxline': 0})
    if len(res2) != 1:
        raise AnalysisError('subsets_nested_text_to_flat_json forks on concrete lines')
    r = res2[0]
    want = [v for v in vals]
    if not r.ok:
        # which line?
        rr.fail('nested-text:roundtrip', rd.where, 'reading the nested text back raises %s; rendered lines were:\n      %s' % (r.exc.cls, '\n      '.join(lines)),
                witness={'lines': lines})
    else:
        got = r.value[1][0] if isinstance(r.value, tuple) and r.value[1] else r.value
        if got != want:
            diff = [(i, a, b) for i, (a, b) in enumerate(zip(got, want)) if a != b][:3] if isinstance(got, list) else got
            rr.fail('nested-text:roundtrip', rd.where, 'the nested text reads back as %d values, the flat data have %d; first differences (index, read, flat): %s' % (
                len(got) if isinstance(got, list) else -1, len(want), diff), witness={'lines': lines})
    # ---- nested JSON of the same tree
    jn = repo.own_method('NestedJsonRenderer', '_render_template_data_nodes')
    jr = repo.func('utils', 'template_data_nested_json_to_flat_json')
    it = TextInterp(repo, 'NestedJsonRenderer')
    res = it.run_function(jn, lambda: {'self': Obj('NestedJsonRenderer', {}), 'decoded_nodes': list(nodes), 'decoded_descriptors': list(descs),
                                       'decoded_values': list(vals)}, self_class='NestedJsonRenderer')
    if len(res) != 1 or not res[0].ok or not isinstance(res[0].value, list):
        raise AnalysisError('NestedJsonRenderer._render_template_data_nodes could not be folded: %s' % [r.describe() for r in res])
    tree = res[0].value
    rr.instance('nested JSON: %d top-level entries rendered' % len(tree))
    it2 = TextInterp(repo, None)
    res2 = it2.run_function(jr, lambda: {'template_data_value': [tree]})
    if len(res2) != 1:
        raise AnalysisError('template_data_nested_json_to_flat_json forks on a concrete tree')
    r = res2[0]
    got = r.value[0] if r.ok and isinstance(r.value, list) and r.value else None
    if not r.ok or got != vals:
        diff = [(i, a, b) for i, (a, b) in enumerate(zip(got or [], vals)) if a != b][:3]
        rr.fail('nested-json:roundtrip', jr.where, 'the nested JSON reads back as %s values (%s), the flat data have %d; first differences (index, read, flat): %s' % (
            len(got) if isinstance(got, list) else '?', 'ok' if r.ok else r.exc.cls, len(vals), diff))
    # one value shape at a time, so that a failing shape is named
    vn = repo.own_method('NestedTextRenderer', '_render_template_data_value_node')
    shapes = [0, 7, -3, 1.5, -0.25, 1e-05, 1e+20, None, b'ABC', b"ST JOHN'S", b'say "hi"', b'both \' and "', b'a b', b" b'x", b'\xe9\xff', b'', b'trailing ', b'#x', b'3', b'-> A']
    for v in shapes:
        d = _elem(1015, 'STATION OR SITE NAME', 'CCITT IA5', 160) if isinstance(v, bytes) else _elem(12101, 'TEMPERATURE/AIR TEMPERATURE')
        node = Obj('ValueDataNode', {'descriptor': d, 'index': 0})
        it = TextInterp(repo, 'NestedTextRenderer')
        res = it.run_function(vn, lambda: {'self': Obj('NestedTextRenderer', {}), 'decoded_node': node, 'decoded_descriptors': [d], 'decoded_values': [v],
                                           'indent': '    ', 'is_attribute': False}, self_class='NestedTextRenderer')
        if len(res) != 1 or not res[0].ok:
            raise AnalysisError('NestedTextRenderer value line could not be folded for %r' % (v,))
        ln = res[0].value
        it2 = TextInterp(repo, None)
        res2 = it2.run_function(rd, lambda: {'lines': ['###### subset 1 of 1 ######'] + list(ln) + ['<<<<<< section 5 >>>>>>'], 'idxline': 0})
        rr.instance('nested text value %r' % (v,))
        r = res2[0]
        got = r.value[1] if r.ok and isinstance(r.value, tuple) else None
        if not r.ok or got != [[v]]:
            rr.fail('nested-text:value-shape', rd.where, 'the value %r is rendered as %r and read back as %s' % (v, ln, got if r.ok else r.exc.cls), witness={'value': repr(v)})
    # a 221YYY-skipped element is a value-less node whose descriptor has a name
    skipped = [Obj('ValueDataNode', {'descriptor': _elem(1001, 'WMO BLOCK NUMBER'), 'index': 0}),
               Obj('NoValueDataNode', {'descriptor': Obj('OperatorDescriptor', {'id': 221001})}),
               Obj('NoValueDataNode', {'descriptor': _elem(12101, 'TEMPERATURE/AIR TEMPERATURE')}),
               Obj('ValueDataNode', {'descriptor': _elem(1002, 'WMO STATION NUMBER'), 'index': 1})]
    it = TextInterp(repo, 'NestedTextRenderer')
    res = it.run_function(rn, lambda: {'self': Obj('NestedTextRenderer', {}), 'decoded_nodes': list(skipped),
                                       'decoded_descriptors': [_elem(1001, 'WMO BLOCK NUMBER'), _elem(1002, 'WMO STATION NUMBER')],
                                       'decoded_values': [5, 7], 'indent': ''}, self_class='NestedTextRenderer')
    if len(res) != 1 or not res[0].ok:
        raise AnalysisError('nested text of a 221 template could not be folded')
    slines = res[0].value
    it2 = TextInterp(repo, None)
    res2 = it2.run_function(rd, lambda: {'lines': ['###### subset 1 of 1 ######'] + list(slines) + ['<<<<<< section 5 >>>>>>'], 'idxline': 0})
    rr.instance('nested text of a template with a 221YYY-skipped element')
    r = res2[0]
    got = r.value[1] if r.ok and isinstance(r.value, tuple) else None
    if not r.ok or got != [[5, 7]]:
        rr.fail('nested-text:data-not-present-line', rd.where, 'an element skipped by 221YYY is rendered as the value-less line %r, which the nested-text reader takes '
                'for a value line (%s)' % (slines[2] if len(slines) > 2 else slines, got if r.ok else 'raises ' + r.exc.cls), witness={'lines': slines})
    # a quality value that a bitmap attaches to a replication factor (common in the sample corpus: the factor is an element too)
    fd, md, qd = _elem(31001, 'DELAYED DESCRIPTOR REPLICATION FACTOR'), _elem(7004, 'PRESSURE'), _elem(33007, 'PER CENT CONFIDENCE', 'CODE TABLE')
    qn = Obj('QualityInfoNode', {'descriptor': qd, 'index': 2})
    frep = Obj('DelayedReplicationNode', {'descriptor': Obj('DelayedReplicationDescriptor', {'id': 101000, 'members': [md], 'factor': fd}),
                                          'factor': Obj('ValueDataNode', {'descriptor': fd, 'index': 0, 'attributes': [qn]}),
                                          'members': [Obj('ValueDataNode', {'descriptor': md, 'index': 1})]})
    for label, renderer, meth, reader, mk_args, unwrap in (
            ('nested text', 'NestedTextRenderer', rn, rd, lambda out: {'lines': ['###### subset 1 of 1 ######'] + list(out) + ['<<<<<< section 5 >>>>>>'], 'idxline': 0},
             lambda v: v[1][0] if isinstance(v, tuple) and v[1] else v),
            ('nested JSON', 'NestedJsonRenderer', jn, jr, lambda out: {'template_data_value': [out]}, lambda v: v[0] if isinstance(v, list) and v else v)):
        it = TextInterp(repo, renderer)
        kw = {'self': Obj(renderer, {}), 'decoded_nodes': [frep, qn], 'decoded_descriptors': [fd, md, qd], 'decoded_values': [1, 850, 70]}
        if renderer == 'NestedTextRenderer':
            kw['indent'] = ''
        res = it.run_function(meth, lambda: dict(kw), self_class=renderer)
        if len(res) != 1 or not res[0].ok:
            raise AnalysisError('%s of a replication whose factor has an attribute could not be folded' % label)
        out = res[0].value
        it2 = TextInterp(repo, None)
        res2 = it2.run_function(reader, lambda: mk_args(out))
        rr.instance('%s of a delayed replication whose factor carries a quality attribute' % label)
        r = res2[0] if len(res2) == 1 else None
        got = unwrap(r.value) if r is not None and r.ok else None
        if got != [1, 850, 70]:
            rr.fail('%s:attribute-on-factor' % label.replace(' ', '-'), reader.where, 'a quality value attached to a replication factor: the %s %r reads back as %s; the flat '
                    'data are [1, 850, 70] (the attribute line under the factor is a reference, not a value)' % (label, out, got if r is not None and r.ok else (r.exc.cls if r is not None else 'several paths')),
                    witness={'rendering': out if isinstance(out, list) and all(isinstance(x, str) for x in out) else repr(out)})
    # the same 221 tree as nested JSON: the value-less placeholder must not be counted as a value by the reader
    it = TextInterp(repo, 'NestedJsonRenderer')
    res = it.run_function(jn, lambda: {'self': Obj('NestedJsonRenderer', {}), 'decoded_nodes': list(skipped),
                                       'decoded_descriptors': [_elem(1001, 'WMO BLOCK NUMBER'), _elem(1002, 'WMO STATION NUMBER')],
                                       'decoded_values': [5, 7]}, self_class='NestedJsonRenderer')
    if len(res) != 1 or not res[0].ok or not isinstance(res[0].value, list):
        raise AnalysisError('nested JSON of a 221 template could not be folded')
    stree = res[0].value
    it2 = TextInterp(repo, None)
    res2 = it2.run_function(jr, lambda: {'template_data_value': [stree]})
    rr.instance('nested JSON of a template with a 221YYY-skipped element')
    r = res2[0] if len(res2) == 1 else None
    got = r.value[0] if r is not None and r.ok and isinstance(r.value, list) and r.value else None
    if got != [5, 7]:
        rr.fail('nested-json:data-not-present', jr.where, 'a template with an element skipped by 221YYY is rendered as %r and read back as %s; the flat data are [5, 7] '
                '(the value-less placeholder is not a value)' % (stree, got if r is not None and r.ok else (r.exc.cls if r is not None else 'several paths')))
    # ---- flat text
    fr = repo.own_method('FlatTextRenderer', '_render_template_data')
    frd = repo.func('utils', 'subsets_flat_text_to_flat_json')
    fl_descs = [_elem(1015, 'STATION OR SITE NAME', 'CCITT IA5', 160), _elem(12101, 'TEMPERATURE'), _elem(20004, 'PAST WEATHER', 'FLAG TABLE', 4),
                Obj('AssociatedDescriptor', {'id': 10004, 'nbits': 4, 'unit': 'ASSOCIATED'}), _elem(10004, 'PRESSURE'), _elem(33007, 'PER CENT CONFIDENCE', 'CODE TABLE'),
                Obj('OperatorDescriptor', {'id': 222000}), _elem(12102, 'A NAME THAT IS VERY LONG ' * 4), _elem(1019, 'LONG NAME', 'CCITT IA5', 80),
                _elem(20004, 'PAST WEATHER', 'FLAG TABLE', 4)]
    fl_vals = [b"ST JOHN'S", -2.5, 5, 3, 1013, 70, 0, None, b'(1, [2])', None]
    td = Obj('TemplateDataStub', {'n_subsets': 1, 'decoded_descriptors_all_subsets': [fl_descs], 'bitmap_links_all_subsets': [{5: 1}],
                                  'decoded_values_all_subsets': [fl_vals]})
    it = TextInterp(repo, 'FlatTextRenderer')
    res = it.run_function(fr, lambda: {'self': Obj('FlatTextRenderer', {}), 'template_data': td}, self_class='FlatTextRenderer')
    if len(res) != 1 or not res[0].ok or not isinstance(res[0].value, str):
        raise AnalysisError('FlatTextRenderer._render_template_data could not be folded: %s' % [r.describe() for r in res])
    flines = res[0].value.split('\n')
    rr.instance('flat text: %d lines rendered' % len(flines))
    it2 = TextInterp(repo, None)
    res2 = it2.run_function(frd, lambda: {'lines': flines + ['<<<<<< section 5 >>>>>>'], 'idxline': 0})
    r = res2[0]
    got = r.value[1] if r.ok and isinstance(r.value, tuple) else None
    if not r.ok or got != [fl_vals]:
        rr.fail('flat-text:roundtrip', frd.where, 'the flat text reads back as %s; the flat data are %s; lines:\n      %s' % (
            got if r.ok else r.exc.cls, fl_vals, '\n      '.join(flines)), witness={'lines': flines})
    rr.require_floor(20)
    return rr


def run(repo, check):
    check.run_rule(rule_r1, repo)
    check.run_rule(rule_r2, repo)
    check.run_rule(rule_r3, repo)
    check.run_rule(rule_r4, repo)
    check.run_rule(rule_r14, repo)
    check.run_rule(rule_r5, repo)
    from sa.rules import c06
    r6 = check.call(c06.rule_r3, repo)
    r6.rule = 'C09.R6'
    r6.title = 'the wiring state is re-initialised for every subset (shared with C06.R3)'
    for f in r6.findings:
        f.rule = 'C09.R6'
    check.add(r6)
    check.run_rule(rule_registered, repo)
    check.run_rule(rule_attributes_shown, repo)
    check.run_rule(rule_per_subset_rendering, repo)
    check.run_rule(rule_pipeline, repo)
    from sa.rules.common import share
    share(check, repo, c06.rule_alias, 'C09.R8', 'node / link records: one per subset when uncompressed, one shared record when compressed (shared with C05.R3 / C06.R5)', args=('C09.R8',))
    from sa.rules import c03 as _c03
    from sa.rules.common import share as _sh
    _sh(check, repo, _c03.rule_r3, 'C09.R9', 'the JSON renderings carry values and character bytes unchanged: one 8-bit codec on both sides (shared with C03.R3)')
    from sa.rules import c13 as _c13
    _sh(check, repo, _c13.rule_r3, 'C09.R12', 'renderers keep nothing from one subset or message to the next (shared with C13.R3)',
        keep=lambda f: 'Renderer' in f.key or 'TemplateData' in f.key)
    # R2 looks for a branch per node class in the nested renderers (a syntactic reading of their dispatch).  A renderer whose dispatch
    # the rule does not recognise is not reported when every fold that *renders* each node kind and reads the result back (R5: all
    # line kinds, R10: attributes under their owner, R11: per-subset rendering, R13: the end-to-end family) ran and found nothing new.
    from sa.report import load_known
    known_ids = set(k['ident'] for k in load_known().get('known', []) if k.get('property') == 'C09')
    by_id = dict((r.rule, r) for r in check.results)
    r2_ = by_id.get('C09.R2')
    arb = [by_id.get(k) for k in ('C09.R5', 'C09.R10', 'C09.R11', 'C09.R13')]
    if r2_ is not None and all(a is not None for a in arb) and not any(f.ident not in known_ids for a in arb for f in a.findings):
        sus = [f for f in r2_.findings if f.key.startswith('NestedJsonRenderer:') or f.key.startswith('NestedTextRenderer:')]
        if sus:
            r2_.findings = [f for f in r2_.findings if f not in sus]
            for f in sus:
                r2_.notes.append('not reported: the dispatch of the renderer is not recognised (%s); the render / read-back folds cover every node kind and agree' % f.key)
            r2_.instance('%d renderer branch(es) not recognised syntactically: decided by the render / read-back folds' % len(sus))
    check.assumptions = ['each primitive appends exactly one flat entry (C01.R3 / C02.R5), so emissions count flat entries',
                         'conservation of the values of a particular message is a runtime fact and is not decided']
