"""
C04  Section framing and length accounting are exact in both directions (structural part).

Encoder.process_section / Decoder.process_section are evaluated by PathEval against a model
of the bit reader / writer that only tracks the bit position, over synthetic section layouts,
for every data length modulo 16 x editions 2..4 x declared/recomputed lengths.

R1 back-patch agreement (value, width and offset of one and the same parameter)
R2 padding by congruence           R3 three-way length comparison (both coders)
R4 span accounting in Decoder.process / total-length handling in Encoder.process
R5 optional section                R6 layout lint over definitions/section*.json
"""
from __future__ import print_function

import ast

from sa.model import AnalysisError, norm
from sa.patheval import Interp, Native, Obj, Sym, Top, Raise, FuncRef, UnknownMethod, ClassRef
from sa.report import RuleResult
from sa.rules.common import callee_qual


class PosIO(Native):
    """Bit reader / writer that only tracks the position."""

    def __init__(self, pos, reads=None):
        self.pos = pos
        self.reads = list(reads or [])

    def __repr__(self):
        return 'PosIO'

    def call_method(self, name, args, kwargs, interp, frame, node):
        if name == 'get_pos':
            return self.pos
        if name == 'write':
            value, typ, nbits = args
            interp.event('write', typ, nbits, value)
            self.pos += nbits if typ != 'bool' else 1
            return value
        if name == 'read':
            typ, nbits = args
            if not isinstance(nbits, int):
                interp.event('read_rest', typ, nbits)
                raise Raise('Unsupported-width', node, interp.where(node, frame))
            if nbits < 0 and typ != 'bool':
                # bitstring cannot parse a negative length: ValueError, which the reader's wrapper does not convert (trusted-base fact,
                # confirmed by experiment: read('bin:-5') -> ValueError "Can't parse 'name[:]length' token")
                interp.event('read_negative', typ, nbits)
                raise Raise('ValueError', node, interp.where(node, frame))
            self.pos += nbits if typ != 'bool' else 1
            v = self.reads.pop(0) if self.reads else Sym('rd%d' % self.pos)
            interp.event('read', typ, nbits, v)
            return v
        if name == 'write_bin':
            s = args[0]
            interp.event('pad', s)
            if not isinstance(s, str):
                raise Raise('Unsupported-pad', node, interp.where(node, frame))
            self.pos += len(s)
            return s
        if name == 'read_bin':
            interp.event('skipread', args[0])
            self.pos += args[0]
            return Top('bin')
        if name == 'skip':
            interp.event('skip', args[0])
            self.pos += args[0]
            return None
        if name == 'set_uint':
            interp.event('set', args[0], args[1], args[2])
            return None
        if name == 'to_bytes':
            return Sym('BYTES')
        interp.event('iocall', name, list(args))
        return Top('call:' + name)


class SectionModel(Native):
    def __init__(self, params, meta=None):
        self.params = params
        self.meta = dict(meta or {})
        for p in params:
            p.fields['parent'] = self

    def __repr__(self):
        return 'Section(%s)' % ','.join(p.fields['name'] for p in self.params)

    def get_attr(self, name, interp, frame):
        for p in self.params:
            if p.fields['name'] == name:
                return p
        if name in self.meta:
            return self.meta[name]
        return Native.get_attr

    def call_method(self, name, args, kwargs, interp, frame, node):
        if name == 'set_metadata':
            self.meta[args[0]] = args[1]
            return None
        if name == 'get_metadata':
            if args[0] not in self.meta:
                raise Raise('AttributeError', node, interp.where(node, frame))
            return self.meta[args[0]]
        fi = interp.repo.method('BufrSection', name, required=False)
        if fi is not None:
            return interp.call_function(fi, [self] + list(args), kwargs, node, frame)
        return Top('call:' + name)


def param(name, nbits, typ='uint', value=None, expected=None, as_property=False):
    return Obj('SectionParameter', {'name': name, 'nbits': nbits, 'type': typ, 'value': value, 'expected': expected,
                                    'as_property': as_property})


class SecInterp(Interp):
    def __init__(self, repo, coder, data_bits=0):
        Interp.__init__(self, repo, coder)
        self.data_bits = data_bits

    def on_call(self, text, callee, args, kwargs, node, frame):
        if text.startswith('log.'):
            return None
        q = callee_qual(callee) or ''
        if text in ('self.process_template_data', 'self.process_unexpanded_descriptors') or q.split('.')[-1] in ('process_template_data', 'process_unexpanded_descriptors'):
            text = 'self.' + (q.split('.')[-1] if q else text.split('.')[-1])
            io = [a for a in args if isinstance(a, PosIO)]
            if io:
                io[0].pos += self.data_bits
            self.event('data', text, self.data_bits)
            return Sym('DATA')
        return self.NOT_HANDLED

    def on_for(self, node, itervalue, frame):
        if isinstance(itervalue, SectionModel):
            return list(itervalue.params)
        return None

    def cmp(self, op, l, r, frame=None):
        if isinstance(op, (ast.In, ast.NotIn)) and isinstance(r, SectionModel) and isinstance(l, str):
            v = any(p.fields['name'] == l for p in r.params)
            return v if isinstance(op, ast.In) else not v
        return Interp.cmp(self, op, l, r, frame)

    def on_while(self, node, frame):
        return self.unroll_while(node, frame, 16)


class EncInterp(SecInterp):
    """Encoder.process with the section configuration scripted; process_section is the repository's own code."""

    def __init__(self, repo, script, data_bits):
        SecInterp.__init__(self, repo, 'Encoder', data_bits)
        self.script = list(script)
        self.k = 0

    def on_load_attr(self, base, attr, node, frame):
        from sa.patheval import ModRef
        if isinstance(base, ModRef) and base.name == 'six':
            return {'binary_type': ('builtin', 'bytes'), 'text_type': ('builtin', 'str'), 'PY3': True, 'PY2': False}.get(attr, self.NOT_HANDLED)
        if isinstance(base, Obj) and base.cls == 'Encoder' and attr == 'section_configurer':
            return Obj('SectionConfigurer', {})
        return self.NOT_HANDLED

    def on_call(self, text, callee, args, kwargs, node, frame):
        q = callee_qual(callee) or ''
        if text == 'self.section_configurer.configure_section_with_values' or q == 'SectionConfigurer.configure_section_with_values':
            if self.k >= len(self.script):
                raise Raise('ScriptExhausted', node, self.where(node, frame))
            sec = self.script[self.k]
            self.k += 1
            self.event('configure', args[1], args[2])
            return sec
        if text == 'get_bit_writer':
            return PosIO(0)
        if text == 'BufrMessage' or q == 'class:BufrMessage':
            return Obj('BufrMessage', {})
        if text == 'bufr_message.wire' or q == 'BufrMessage.wire':
            self.event('wire')
            return None
        return SecInterp.on_call(self, text, callee, args, kwargs, node, frame)


def message(edition):
    return Obj('BufrMessage', {'edition': Obj('SectionParameter', {'value': edition, 'name': 'edition', 'nbits': 8})})


def run_encoder_section(repo, edition, data_bits, start, declared, ignore_declared, lead_param=False, coder_obj=None):
    fi = repo.method('Encoder', 'process_section')
    it = SecInterp(repo, 'Encoder', data_bits)

    def mk():
        ps = []
        if lead_param:
            ps.append(param('lead', 16, value=1))
        ps += [param('section_length', 24, value=declared), param('reserved', 8, value=0),
               param('template_data', 0, 'template_data', value=Sym('TD'))]
        sec = SectionModel(ps, {'index': 4})
        return {'self': coder_obj if coder_obj is not None else Obj('Encoder', {'ignore_declared_length': ignore_declared}), 'bufr_message': message(edition),
                'bit_writer': PosIO(start), 'section': sec}
    return fi, it.run_function(fi, mk, self_class='Encoder')


def padded_size(edition, nbits):
    unit = 16 if edition <= 3 else 8
    return (nbits + unit - 1) // unit * unit


def rule_r2(repo, tier, rule='C04.R2'):
    rr = RuleResult(rule, 'sections are zero-padded to whole octets (even number of octets for editions <= 3), minimal padding, '
                          'folded over data length mod 16 x editions x start offsets')
    residues = range(16)
    mults = (0, 16, 48) if tier == 'thorough' else (0, 16)
    for edition in (2, 3, 4):
        for k in residues:
            for base in mults:
                for start in (0, 104):
                    data_bits = base + k
                    fi, res = run_encoder_section(repo, edition, data_bits, start, 0, True)
                    inst = 'edition %d, %d data bits, section starts at bit %d' % (edition, data_bits, start)
                    if len(res) != 1 or not res[0].ok:
                        rr.fail('Encoder.process_section:padding-paths', fi.where, '%s: %s' % (inst, [r.describe() for r in res]))
                        continue
                    r = res[0]
                    content = 32 + data_bits
                    want = padded_size(edition, content)
                    got = r.value
                    pads = [e[1] for e in r.events if e[0] == 'pad']
                    skips = [e for e in r.events if e[0] == 'skip']
                    key = 'Encoder.process_section:padding:edition%s' % ('<=3' if edition <= 3 else '4')
                    if got != want:
                        rr.fail(key, fi.where, '%s: the section comes out %s bits long, expected %d (content %d bits padded to %s octets)' % (
                            inst, got, want, content, 'an even number of' if edition <= 3 else 'whole'),
                            witness={'edition': edition, 'data_bits': data_bits, 'start': start})
                    if any((not isinstance(p, str)) or set(p) - {'0'} for p in pads) or skips:
                        rr.fail('Encoder.process_section:pad-bits', fi.where, '%s: padding is %s %s, expected only zero bits' % (inst, pads, skips))
        rr.instance('edition %d: 16 residues x %d lengths x 2 start offsets' % (edition, len(mults)))
    rr.require_floor(3)
    return rr


def rule_padding_zero(repo, rule):
    """C02.R4: same fold, reported under C02."""
    rr = rule_r2(repo, 'quick', rule)
    rr.title = 'padding consists of zero bits only and is minimal (shared with C04.R2)'
    return rr


def rule_r1(repo):
    rr = RuleResult('C04.R1', 'length back-patching uses value, width and offset of one and the same parameter')
    # section_length in process_section: folded with a synthetic layout where section_length is not the first parameter
    for lead in (False, True):
        for edition in (3, 4):
            for k in (0, 5, 9):
                start = 104
                fi, res = run_encoder_section(repo, edition, k, start, 0, True, lead_param=lead)
                if len(res) != 1 or not res[0].ok:
                    rr.fail('Encoder.process_section:backpatch-paths', fi.where, 'recompute mode: %s' % [r.describe() for r in res])
                    continue
                r = res[0]
                sets = [e for e in r.events if e[0] == 'set']
                content = 32 + k + (16 if lead else 0)
                total = padded_size(edition, content)
                off = 16 if lead else 0
                rr.instance('section_length back-patch: lead=%s edition=%d data=%d' % (lead, edition, k))
                if len(sets) != 1 or sets[0][1] != total // 8 or sets[0][2] != 24 or sets[0][3] != start + off:
                    rr.fail('Encoder.process_section:backpatch', fi.where,
                            'recomputed section length is patched as set_uint%s; expected value %d (octets of the padded section), width 24, '
                            'bit position %d (section start %d + offset %d of section_length)' % (
                                [tuple(s[1:]) for s in sets], total // 8, start + off, start, off),
                            witness={'lead_parameter': lead, 'edition': edition, 'data_bits': k})
                # the parameter value is updated too
    # total length in Encoder.process: folded with scripted section layouts (section 2 absent)
    fi = repo.own_method('Encoder', 'process')
    for edition in (3, 4):
        for k in (0, 5):
            for mode, declared_kind in (('recompute', 'junk'), ('honour', 'zero'), ('honour', 'exact'), ('honour', 'short'), ('honour', 'long')):
                sizes = [64, padded_size(edition, 40), padded_size(edition, 32), padded_size(edition, 32 + k), 32]
                total = sum(sizes) // 8
                declared = {'junk': 12345, 'zero': 0, 'exact': total, 'short': total - 2, 'long': total + 3}[declared_kind]

                def script():
                    s0 = SectionModel([param('start_signature', 32, 'bytes', value=b'BUFR'), param('length', 24, value=declared, as_property=True),
                                       param('edition', 8, value=edition, as_property=True)], {'index': 0})
                    s1 = SectionModel([param('section_length', 24, value=0), param('x', 16, value=1)], {'index': 1})
                    s3 = SectionModel([param('section_length', 24, value=0), param('y', 8, value=1)], {'index': 3})
                    s4 = SectionModel([param('section_length', 24, value=0), param('reserved', 8, value=0), param('template_data', 0, 'template_data', value=Sym('TD'))], {'index': 4})
                    s5 = SectionModel([param('stop_signature', 32, 'bytes', value=b'7777')], {'index': 5, 'end_of_message': True})
                    for sm in (s0, s1, s3, s4):
                        sm.meta.setdefault('end_of_message', False)
                    return [s0, s1, None, s3, s4, s5]
                it = EncInterp(repo, script(), k)
                res = it.run_function(fi, lambda: {'self': Obj('Encoder', {'ignore_declared_length': mode == 'recompute', 'overrides': {}}),
                                                   's': ['D0', 'D1', 'D3', 'D4', 'D5'], 'file_path': 'f', 'wire_template_data': False}, self_class='Encoder')
                inst = 'Encoder.process: edition %d, %d data bits, %s, declared total %s' % (edition, k, mode, declared_kind)
                rr.instance(inst)
                if len(res) != 1:
                    rr.fail('Encoder.process:paths', fi.where, '%s: %s' % (inst, [r.describe() for r in res]))
                    continue
                r = res[0]
                should_raise = mode == 'honour' and declared_kind in ('short', 'long')
                if should_raise:
                    if r.ok or not it_is_lib_error(repo, r.exc.cls):
                        rr.fail('Encoder.process:total-mismatch', fi.where, '%s: a declared total length of %d octets for a message of %d octets gives %s (expected PyBufrKitError)' % (
                            inst, declared, total, r.describe()))
                    continue
                if not r.ok:
                    rr.fail('Encoder.process:raises', fi.where, '%s: raises %s' % (inst, r.exc.cls))
                    continue
                conf = [(e[1], e[2]) for e in r.events if e[0] == 'configure']
                if conf != [(0, 'D0'), (1, 'D1'), (2, 'D3'), (3, 'D3'), (4, 'D4'), (5, 'D5')]:
                    rr.fail('Encoder.process:input-index', fi.where, '%s: sections are configured with input items %s; an absent optional section must not consume an item '
                            'of the input' % (inst, conf))
                sets = [e for e in r.events if e[0] == 'set' and e[3] == 32]
                patched = mode == 'recompute' or declared_kind == 'zero'
                if patched:
                    if len(sets) != 1 or sets[0][1] != total or sets[0][2] != 24:
                        rr.fail('Encoder.process:backpatch', fi.where, '%s: the total length is patched as %s; expected value %d, width 24 at bit 32 (start of section 0 + offset of '
                                'length)' % (inst, [tuple(x[1:]) for x in r.events if x[0] == 'set'], total))
                    lv = r.value.fields.get('length') if isinstance(r.value, Obj) else None
                    if not (isinstance(lv, Obj) and lv.fields.get('value') == total):
                        rr.fail('Encoder.process:length-value', fi.where, '%s: the message object reports length %r (expected %d)' % (inst, lv.fields.get('value') if isinstance(lv, Obj) else lv, total))
                elif sets:
                    rr.fail('Encoder.process:backpatch-honour', fi.where, '%s: a correct declared total length is overwritten' % inst)
                if repr(r.value.fields.get('serialized_bytes')) != 'BYTES':
                    rr.fail('Encoder.process:bytes', fi.where, '%s: serialized_bytes is %r, not the writer\'s bytes' % (inst, r.value.fields.get('serialized_bytes')))
    rr.require_floor(10)
    return rr


def rule_r3(repo, tier):
    rr = RuleResult('C04.R3', 'declared lengths: longer is zero-filled / skipped, shorter is refused, equal is accepted (both coders)')
    # encoder honouring declared lengths
    for edition in (3, 4):
        for k in (0, 3, 8, 13):
            content = 32 + k
            exact = padded_size(edition, content) // 8
            for declared in (exact - 1, exact, exact + 1, exact + 3):
                fi, res = run_encoder_section(repo, edition, k, 104, declared, False)
                rr.instance('encoder honours declared length %d (content %d octets), edition %d' % (declared, exact, edition))
                key = 'Encoder.process_section:declared'
                if len(res) != 1:
                    rr.fail(key + '-paths', fi.where, 'declared=%d: %s' % (declared, [r.describe() for r in res]))
                    continue
                r = res[0]
                if declared < exact:
                    if r.ok or not it_is_lib_error(repo, r.exc.cls):
                        rr.fail(key + ':shorter', fi.where, 'a section declared %d octets with %d octets of content is not refused with PyBufrKitError (outcome %s)' % (
                            declared, exact, r.describe()), witness={'declared': declared, 'actual': exact})
                else:
                    if not r.ok or r.value != declared * 8:
                        rr.fail(key + ':longer', fi.where, 'a section declared %d octets with %d octets of content comes out %s bits long (outcome %s), expected %d' % (
                            declared, exact, r.value, r.describe(), declared * 8), witness={'declared': declared, 'actual': exact})
                    sets = [e for e in r.events if e[0] == 'set']
                    if sets:
                        rr.fail(key + ':patched', fi.where, 'a declared (non-zero) length is overwritten although declared lengths are honoured')
                    fills = [e[1] for e in r.events if e[0] == 'skip']
                    if sum(fills) != (declared - exact) * 8:
                        rr.fail(key + ':fill', fi.where, 'surplus of %d octets is filled with %s bits' % (declared - exact, fills))
            # declared zero means: compute
            fi, res = run_encoder_section(repo, edition, k, 104, 0, False)
            r = res[0] if len(res) == 1 else None
            if r is None or not r.ok or [e[1] for e in r.events if e[0] == 'set'] != [exact]:
                rr.fail('Encoder.process_section:declared-zero', fi.where, 'a zero declared length is not replaced by the computed one (%s)' % (
                    [x.describe() for x in res]))
    # an encoder created without options recomputes the lengths: a stale declared length (what a subset extract or an edited rendering
    # carries) is replaced, not honoured
    from sa.rules.c08 import new_coder
    for edition in (3, 4):
        for k, stale in ((8, 300), (13, 2), (0, 65536)):
            exact = padded_size(edition, 32 + k) // 8
            enc = new_coder(repo, SecInterp(repo, 'Encoder', k), 'Encoder')
            if 'ignore_declared_length' not in enc.fields:
                raise AnalysisError('Encoder.__init__ could not be folded to an object with ignore_declared_length')
            fi, res = run_encoder_section(repo, edition, k, 104, stale, None, coder_obj=enc)
            rr.instance('Encoder() with its default options, section declared %d octets with %d octets of content, edition %d' % (stale, exact, edition))
            r = res[0] if len(res) == 1 else None
            if r is None or not r.ok or [e[1] for e in r.events if e[0] == 'set'] != [exact] or r.value != exact * 8:
                rr.fail('Encoder.__init__:default-recomputes', fi.where, 'an encoder created without options, given a section that declares %d octets and has %d octets of content: %s; '
                        'the default is to recompute the lengths (set the length field to %d)' % (stale, exact, [x.describe() for x in res] if r is None or not r.ok else
                                                                                                  'length field set to %s, section %s bits long' % ([e[1] for e in r.events if e[0] == 'set'], r.value), exact),
                        witness={'declared': stale, 'actual': exact, 'edition': edition})
    # decoder: consumes exactly the declared extent
    fi = repo.method('Decoder', 'process_section')
    for edition, k in [(e, k) for e in (2, 3, 4) for k in (0, 5, 8, 19)]:
        content_bits = 32 + k
        for declared in [0, 1] + list(range(max(2, (content_bits + 7) // 8 - 2), (content_bits + 7) // 8 + 4)):
            it = SecInterp(repo, 'Decoder', k)

            def mk():
                sec = SectionModel([param('section_length', 24), param('reserved', 8), param('template_data', 0, 'template_data')], {'index': 4})
                return {'self': Obj('Decoder', {}), 'bufr_message': message(edition), 'bit_reader': PosIO(104, [declared, 0]), 'section': sec}
            res = it.run_function(fi, mk, self_class='Decoder')
            rr.instance('decoder: declared %d octets, content %d bits, edition %d' % (declared, content_bits, edition))
            key = 'Decoder.process_section:declared'
            if len(res) != 1:
                rr.fail(key + '-paths', fi.where, '%s' % [r.describe() for r in res])
                continue
            r = res[0]
            if declared * 8 < content_bits:
                if r.ok or not it_is_lib_error(repo, r.exc.cls):
                    rr.fail(key + ':shorter', fi.where, 'content of %d bits in a section declared %d octets is not reported with PyBufrKitError (outcome %s)' % (
                        content_bits, declared, r.describe()), witness={'declared': declared, 'content_bits': content_bits})
            else:
                if not r.ok or r.value != declared * 8:
                    rr.fail(key + ':extent', fi.where, 'edition %d: a section declared %d octets is consumed as %s bits (outcome %s), expected exactly %d (the decoder '
                            'believes the declared length; even octet counts are an obligation of the encoder)' % (
                        edition, declared, r.value, r.describe(), declared * 8), witness={'declared': declared, 'content_bits': content_bits, 'edition': edition})
    # a section whose last parameter takes "the rest of the section" (section 2: local bits): a declared length shorter than the
    # fixed part leaves a negative rest
    for edition, declared in [(e, d) for e in (2, 3, 4) for d in (0, 1, 2, 3, 4, 5, 9)]:
        it = SecInterp(repo, 'Decoder', 0)

        def mk2():
            sec = SectionModel([param('section_length', 24), param('reserved_bits', 8, 'bin'), param('local_bits', 0, 'bin')], {'index': 2})
            return {'self': Obj('Decoder', {}), 'bufr_message': message(edition), 'bit_reader': PosIO(104, [declared, '00000000']), 'section': sec}
        res = it.run_function(fi, mk2, self_class='Decoder')
        rr.instance('decoder: section with a rest-of-section parameter declared %d octets (fixed part 4), edition %d' % (declared, edition))
        for r in res:
            if declared < 4:
                if r.ok or not it_is_lib_error(repo, r.exc.cls):
                    rr.fail('Decoder.process_section:declared:shorter-than-fixed-part', fi.where, 'a section declared %d octets whose fixed part is 4 octets, followed by a '
                            'parameter that takes the rest of the section, is not reported with PyBufrKitError (outcome %s): the negative rest is handed to the bit '
                            'reader' % (declared, r.describe()), witness={'declared': declared})
            elif not r.ok or r.value != declared * 8:
                rr.fail('Decoder.process_section:declared:extent', fi.where, 'a section declared %d octets with a rest-of-section parameter is consumed as %s bits (%s), edition %d' % (
                    declared, r.value, r.describe(), edition), witness={'declared': declared, 'edition': edition})
    # (the three outcomes of the total length in Encoder.process - computed / kept / refused - are decided by the fold of R1)
    rr.require_floor(30)
    return rr


def it_is_lib_error(repo, cls):
    return repo.has_cls(cls) and repo.is_subclass(cls, 'PyBufrKitError')


class ProcInterp(SecInterp):
    """Decoder.process with section configuration and section processing replaced by a script."""

    def __init__(self, repo, script):
        SecInterp.__init__(self, repo, 'Decoder', 0)
        self.script = list(script)     # [(section or None, nbits)]
        self.k = 0
        self.cur = None

    def on_call(self, text, callee, args, kwargs, node, frame):
        q = callee_qual(callee) or ''
        if text == 'self.section_configurer.configure_section' or q == 'SectionConfigurer.configure_section':
            if self.k >= len(self.script):
                raise Raise('ScriptExhausted', node, self.where(node, frame))
            sec, n = self.script[self.k]
            self.k += 1
            self.cur = n
            self.event('configure', args[1] if len(args) > 1 else None, list(args[2]) if len(args) > 2 and isinstance(args[2], (list, tuple)) else args[2:] )
            return sec
        if text == 'self.process_section' or q.split('.')[-1] == 'process_section':
            self.event('process_section', self.cur)
            return self.cur
        if text in ('get_bit_reader',):
            return PosIO(0)
        if text == 'BufrMessage' or q == 'class:BufrMessage':
            return Obj('BufrMessage', {})
        if text == 'bufr_message.wire' or q == 'BufrMessage.wire':
            self.event('wire')
            return None
        if isinstance(callee, UnknownMethod) and isinstance(callee.recv, Sym) and callee.name == 'find':
            return Sym('FIND')
        return SecInterp.on_call(self, text, callee, args, kwargs, node, frame)

    def on_subscript(self, base, idx, node, frame):
        if isinstance(base, Sym) and isinstance(idx, tuple) and idx and idx[0] == 'slice':
            return Sym('slice', base, _c(idx[1]), _c(idx[2]))
        return self.NOT_HANDLED

    def on_load_attr(self, base, attr, node, frame):
        if isinstance(base, Obj) and base.cls == 'Decoder' and attr == 'section_configurer':
            return Obj('SectionConfigurer', {})
        return self.NOT_HANDLED


def _c(v):
    return Sym('None') if v is None else v


def rule_r4(repo):
    rr = RuleResult('C04.R4', 'the decoder reports exactly the decoded span and skips an absent optional section without counting it')
    fi = repo.own_method('Decoder', 'process')
    for info_only in (False, True):
        def sec(end=False):
            return Obj('BufrSectionStub', {'end_of_message': end})
        script = [(sec(), 64), (sec(), 176), (None, 999), (sec(), 72), (sec(), 800), (sec(True), 32)]
        it = ProcInterp(repo, script)
        res = it.run_function(fi, lambda: {'self': Obj('Decoder', {}), 's': Sym('S'), 'file_path': 'f', 'start_signature': None,
                                           'info_only': info_only, 'ignore_value_expectation': False, 'wire_template_data': True},
                              self_class='Decoder')
        rr.instance('Decoder.process(info_only=%s): 5 sections + 1 absent optional' % info_only)
        if len(res) != 1 or not res[0].ok:
            rr.fail('Decoder.process:paths', fi.where, 'scripted run: %s' % [r.describe() for r in res])
            continue
        r = res[0]
        bm = r.value
        sb = bm.fields.get('serialized_bytes') if isinstance(bm, Obj) else None
        total = (64 + 176 + 72 + 800 + 32) // 8
        want = 'slice(slice(S,0,None),None,%d)' % total
        if repr(sb) not in (want, 'slice(S,None,%d)' % total, 'slice(S,0,%d)' % total):
            rr.fail('Decoder.process:span', fi.where, 'serialized_bytes is %r; expected the first %d octets from the start signature '
                    '(sum of the processed sections; the absent optional section is not counted)' % (sb, total))
        idxs = [e[1] for e in r.events if e[0] == 'configure']
        if idxs != [0, 1, 2, 3, 4, 5]:
            rr.fail('Decoder.process:section-order', fi.where, 'sections are configured in order %s, expected 0..5' % idxs)
        wired = any(e[0] == 'wire' for e in r.events)
        if wired != (not info_only):
            rr.fail('Decoder.process:wire', fi.where, 'wire() %s with info_only=%s' % ('called' if wired else 'not called', info_only))
    # with a start signature: the span starts at the signature
    it = ProcInterp(repo, [(Obj('BufrSectionStub', {'end_of_message': True}), 64)])
    res = it.run_function(fi, lambda: {'self': Obj('Decoder', {}), 's': Sym('S'), 'file_path': 'f', 'start_signature': b'BUFR',
                                       'info_only': True, 'ignore_value_expectation': False, 'wire_template_data': True}, self_class='Decoder')
    rr.instance('Decoder.process with start signature: span anchored at the signature')
    oks = [r for r in res if r.ok]
    errs = [r for r in res if not r.ok]
    for r in oks:
        sb = r.value.fields.get('serialized_bytes') if isinstance(r.value, Obj) else None
        if repr(sb) != 'slice(slice(S,FIND,None),None,8)':
            rr.fail('Decoder.process:span-anchor', fi.where, 'with leading bytes before BUFR serialized_bytes is %r; expected s[idx:][:n] (anchored at the signature)' % (sb,))
    if not oks or not errs or any(not it_is_lib_error(repo, r.exc.cls) for r in errs):
        rr.fail('Decoder.process:no-signature', fi.where, 'a missing start signature is not reported with PyBufrKitError: %s' % [r.describe() for r in res])
    rr.require_floor(3)
    return rr


def rule_r5(repo):
    rr = RuleResult('C04.R5', 'an optional section is configured iff the message says it is present; both coders skip an absent one')
    fi = repo.own_method('SectionConfigurer', 'configure_section')
    for optional in (False, True):
        for present in (True, False):
            it = SecInterp(repo, 'SectionConfigurer')
            cfg = {'index': 2, 'optional': optional, 'parameters': [{'name': 'section_length', 'nbits': 24, 'type': 'uint'}]}

            def mk():
                bm = Obj('BufrMessage', {'is_section2_presents': Obj('SectionParameter', {'value': present}), 'sections': []})
                return {'self': Obj('SectionConfigurer', {'__cfg': cfg}), 'bufr_message': bm, 'section_index': 2, 'configuration_transformers': ()}

            class I2(SecInterp):
                def on_call(self2, text, callee, args, kwargs, node, frame):
                    if text == 'self.get_configuration':
                        return dict(cfg)
                    if text == 'BufrSection':
                        return SectionModel([], {})
                    if isinstance(callee, UnknownMethod) and isinstance(callee.recv, SectionModel):
                        return Top('x')
                    return SecInterp.on_call(self2, text, callee, args, kwargs, node, frame)
            it = I2(repo, 'SectionConfigurer')
            res = it.run_function(fi, mk, self_class='SectionConfigurer')
            rr.instance('configure_section(optional=%s, present flag=%s)' % (optional, present))
            want_none = optional and not present
            for r in res:
                if not r.ok:
                    rr.fail('SectionConfigurer.configure_section', fi.where, 'optional=%s present=%s: %s' % (optional, present, r.describe()))
                    continue
                got_none = r.value is None
                if got_none != want_none:
                    rr.fail('SectionConfigurer.configure_section', fi.where,
                            'optional=%s, presence flag=%s: returns %s (a section is absent exactly when it is optional and the flag is false)' % (
                                optional, present, 'None' if got_none else 'a section'))
    # (that both coders skip an absent section before processing it -- the encoder without consuming an input item -- is folded in R1 / R4)
    rr.require_floor(4)
    return rr


def rule_r6(repo):
    rr = RuleResult('C04.R6', 'layout lint of definitions/section*.json')
    L = repo.layouts
    n = 0
    for (idx, ed), lay in sorted(L.items(), key=lambda kv: (kv[0][0], kv[0][1] or 0)):
        f = lay['__file__']
        ps = lay.get('parameters', [])
        names = [p['name'] for p in ps]
        rr.instance('%s: %d parameters' % (f, len(ps)))
        if lay.get('index') != idx:
            rr.fail('layout:%s:index' % f, f, 'file name says section %d, content says %r' % (idx, lay.get('index')))
        if len(set(names)) != len(names):
            rr.fail('layout:%s:duplicate' % f, f, 'duplicate parameter names')
        if bool(lay.get('end_of_message', False)) != (idx == 5):
            rr.fail('layout:%s:end_of_message' % f, f, 'end_of_message is %r for section %d (only section 5 ends the message)' % (lay.get('end_of_message'), idx))
        if bool(lay.get('optional', False)) != (idx == 2):
            rr.fail('layout:%s:optional' % f, f, 'optional is %r for section %d (only section 2 is optional)' % (lay.get('optional'), idx))
        if idx == 0:
            p0 = ps[0] if ps else {}
            if p0.get('name') != 'start_signature' or p0.get('expected') != 'BUFR' or p0.get('nbits') != 32 or p0.get('type') != 'bytes':
                rr.fail('layout:%s:start' % f, f, 'section 0 does not start with a 32-bit start_signature expected to be BUFR')
            if [p.get('name') for p in ps[:3]] != ['start_signature', 'length', 'edition'] or ps[1].get('nbits') != 24 or ps[2].get('nbits') != 8:
                rr.fail('layout:%s:length' % f, f, 'section 0 is not signature / 24-bit length / 8-bit edition')
        if idx == 5:
            if len(ps) != 1 or ps[0].get('expected') != '7777' or ps[0].get('nbits') != 32 or ps[0].get('type') != 'bytes':
                rr.fail('layout:%s:stop' % f, f, 'section 5 is not a single 32-bit stop signature expected to be 7777')
        if 1 <= idx <= 4 and (ed is None or ed >= 2):
            p0 = ps[0] if ps else {}
            if p0.get('name') != 'section_length' or p0.get('nbits') != 24 or p0.get('type') != 'uint':
                rr.fail('layout:%s:section_length' % f, f, 'section %d does not start with a 24-bit unsigned section_length' % idx)
        for p in ps:
            t = p.get('type')
            if t in ('unexpanded_descriptors', 'template_data'):
                continue
            if repo.method('BitStringBitReader', 'read_' + str(t), required=False) is None or \
                    repo.method('BitStringBitWriter', 'write_' + str(t), required=False) is None:
                rr.fail('layout:%s:type:%s' % (f, t), f, 'parameter %s has type %r without read_/write_ methods' % (p.get('name'), t))
            if t == 'bytes' and p.get('nbits', 0) % 8 != 0:
                rr.fail('layout:%s:bytes' % f, f, 'bytes parameter %s is %r bits wide' % (p.get('name'), p.get('nbits')))
            if t == 'bool' and p.get('nbits') != 1:
                rr.fail('layout:%s:bool' % f, f, 'bool parameter %s is %r bits wide' % (p.get('name'), p.get('nbits')))
        n += 1
    # the presence flag of an optional section is read from the message (configure_section: message.is_section<k>_presents): every
    # edition whose layouts include an optional section k publishes that flag as a property of the message, from a section before k
    for (idx, ed), lay in sorted(L.items(), key=lambda kv: (kv[0][0], kv[0][1] or 0)):
        if not lay.get('optional', False):
            continue
        flag = 'is_section%d_presents' % idx
        editions = sorted(set(e for (i, e) in L if e is not None and e >= 2)) if ed is None else [ed]
        for e in editions:
            found = None
            for j in range(idx):
                lj = L.get((j, e)) or L.get((j, None))
                for p_ in (lj or {}).get('parameters', []):
                    if p_.get('name') == flag:
                        found = (lj['__file__'], p_)
            rr.instance('edition %d publishes %s' % (e, flag))
            if found is None:
                rr.fail('layout:edition%d:%s:absent' % (e, flag), lay['__file__'], 'no layout of edition %d before section %d has the flag %s the optional section is configured by' % (e, idx, flag))
            elif not found[1].get('as_property', False) or found[1].get('type') != 'bool':
                rr.fail('layout:edition%d:%s:not-published' % (e, flag), found[0], '%s declares %s as %r with as_property=%r: the flag is not published on the message, so the '
                        'optional section %d of an edition %d message is configured from a default instead of from what the message says' % (
                            found[0], flag, found[1].get('type'), found[1].get('as_property', False), idx, e))
    # whole-octet layouts: the fixed part of sections 0, 1, 3, 5 is a whole number of octets
    for (idx, ed), lay in L.items():
        tot = sum(p.get('nbits', 0) for p in lay.get('parameters', []))
        if tot % 8 != 0:
            rr.fail('layout:%s:octets' % lay['__file__'], lay['__file__'], 'fixed part is %d bits, not whole octets' % tot)
    if n < 9:
        raise AnalysisError('only %d section layouts found (expected >= 9)' % n)
    rr.require_floor(9)
    return rr


def run(repo, check):
    check.run_rule(rule_r1, repo)
    check.run_rule(rule_r2, repo, check.tier)
    check.run_rule(rule_r3, repo, check.tier)
    check.run_rule(rule_r4, repo)
    check.run_rule(rule_r5, repo)
    check.run_rule(rule_r6, repo)
    from sa.rules import c11, c19
    from sa.rules.common import share
    share(check, repo, c19.rule_r7, 'C04.R7', 'a length field is overwritten in place without moving anything else (shared with C19.R7)')
    share(check, repo, c11.rule_r1, 'C04.R8', 'the scanner reports the span the decoder walked, not the declared total, when the data are decoded (shared with C11.R1)',
          keep=lambda f: ':full:' in f.key and f.key.endswith(':yields'), args=(check.tier,))
    share(check, repo, c19.rule_r2, 'C04.R11', 'the in-place patch of a length field sets exactly the octets of the field to the new value, whatever was declared there before '
          '(shared with C19.R2)')
    from sa.rules import c17 as _c17
    from sa.rules.common import share as _sh
    _sh(check, repo, _c17.rule_r3, 'C04.R9', 'decoder options never rewrite, and never cache across editions, the section layouts that frame later messages (shared with C17.R3)')
    _sh(check, repo, _c17.rule_r6, 'C04.R10', 'every section of every edition is framed with the layout file written for it (shared with C17.R6)')
    check.assumptions = ['bit positions are modelled exactly (a field of n bits advances the position by n); the bytes themselves are bitstring\'s (C19)',
                         'the synthetic section layouts used for the fold have the same shape as sections 1-4 (24-bit section_length, fixed part, data)']
