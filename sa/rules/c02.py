"""
C02  Encoding produces the canonical FM-94 bit stream (structural part).

R1 codec symmetry: the encoder's and the decoder's field sequences agree for every primitive,
   for the descriptor list and for the section parameters
R2 inverse arithmetic at the three numeric encode sites: int(round(v * scale)) - reference
R3 missing = all ones of the width actually written
R4 padding is zero bits / strings are space padded
R5 value-index lockstep of the encoder primitives
"""
from __future__ import print_function

import ast

from sa.model import AnalysisError, norm
from sa.patheval import Interp, Obj, Sym, Top
from sa.report import RuleResult
from sa.rules import codec
from sa.rules.codec import (PRIMS, MODES, run_primitive, skeleton, lin_eq, eval_sym, NoEval, norm_round, sym_find,
                            CodecInterp, BitIO, make_state)


def rule_r1(repo, tier):
    rr = RuleResult('C02.R1', 'encoder and decoder agree on the field sequence of every primitive (writer/reader tables agree)')
    nb = repo.const('constants', 'NBITS_FOR_NBITS_DIFF')
    rr.instance('NBITS_FOR_NBITS_DIFF == 6')
    if nb != 6:
        rr.fail('constants.NBITS_FOR_NBITS_DIFF', 'pybufrkit/constants.py', 'the width of the difference-width field is %r, FM-94 94.6.3: 6 bits' % (nb,))
    for prim in PRIMS:
        for mode in MODES:
            m = 'process_%s_%s' % (prim, mode)
            dfi, drecs, _ = run_primitive(repo, 'Decoder', m)
            efi, erecs, _ = run_primitive(repo, 'Encoder', m)
            D = set(skeleton(r, 'Decoder') for r in codec.require_paths(drecs, dfi))
            E = set(skeleton(r, 'Encoder') for r in codec.require_paths(erecs, efi))
            rr.instance('%s: decoder %d layouts, encoder %d layouts' % (m, len(D), len(E)))
            if D != E:
                rr.fail('codec:%s' % m, efi.where,
                        'field layouts differ. decoder only: %s; encoder only: %s  (kind, width: P=parameter position, F=value of field k, const)' % (
                            sorted(D - E), sorted(E - D)), witness={'decoder': sorted(map(repr, D)), 'encoder': sorted(map(repr, E))})
    demote_undecided(repo, rr, lambda f: f.key.startswith('codec:process_'))
    # descriptor list in section 3: 2 + 6 + 8 bits, F X Y
    dfi = repo.method('Decoder', 'process_unexpanded_descriptors')
    efi = repo.method('Encoder', 'process_unexpanded_descriptors')
    it = CodecInterp(repo, 'Decoder')
    dres = it.run_function(dfi, lambda: {'self': Obj('Decoder', {}), 'bit_reader': BitIO('r'),
                                         'section': Obj('BufrSection', {})}, self_class='Decoder')
    it2 = CodecInterp(repo, 'Encoder')
    eres = it2.run_function(efi, lambda: {'self': Obj('Encoder', {}), 'bit_writer': BitIO('w'),
                                          'section_parameter': Obj('SectionParameter', {'value': [Sym('ID')]})}, self_class='Encoder')
    rr.instance('process_unexpanded_descriptors: F/X/Y packing')
    dok = [r for r in dres if r.ok]
    eok = [r for r in eres if r.ok]
    if len(dok) != 1 or len(eok) != 1:
        raise AnalysisError('process_unexpanded_descriptors: %d decoder / %d encoder paths (expected 1 / 1)' % (len(dok), len(eok)))
    dio = [e for e in dok[0].events if e[0] == 'io' and e[1] != 'get_pos']
    eio = [e for e in eok[0].events if e[0] == 'io']
    dw = [(e[1], e[2][0]) for e in dio]
    ew = [(e[1], e[2][1]) for e in eio]
    if [w for _, w in dw] != [2, 6, 8] or [w for _, w in ew] != [2, 6, 8] or any(k != 'read_uint' for k, _ in dw) or any(k != 'write_uint' for k, _ in ew):
        rr.fail('codec:unexpanded_descriptors:widths', efi.where, 'decoder reads %s, encoder writes %s; FM-94: F 2 bits, X 6 bits, Y 8 bits' % (dw, ew))
    else:
        # the decoder collects the ids in a local list and returns it
        dvals = list(dok[0].value) if isinstance(dok[0].value, list) else []
        names = [repr(e[2][0]) for e in eio]
        fs = range(4)
        xs = range(64)
        ys = range(256) if tier == 'thorough' else [0, 1, 2, 7, 31, 99, 100, 127, 128, 200, 254, 255]
        bad = None
        n = 0
        leaf_names = ['io%d' % k for k in range(len(dio))]
        # leaves of the decoder reads are io<k> in order of *all* io events (get_pos included)
        all_io = [e for e in dok[0].events if e[0] == 'io']
        leaf_names = ['io%d' % i for i, e in enumerate(all_io) if e[1] != 'get_pos']
        for f in fs:
            for x in xs:
                for y in ys:
                    n += 1
                    did = f * 100000 + x * 1000 + y
                    try:
                        got = tuple(eval_sym(e[2][0], {'ID': did}) for e in eio)
                    except NoEval as ex:
                        raise AnalysisError('encoder descriptor packing uses an unmodelled expression: %s' % ex)
                    if got != (f, x, y) and bad is None:
                        bad = ('encoder', did, got)
                    if dvals:
                        try:
                            back = eval_sym(dvals[0], dict(zip(leaf_names, (f, x, y))))
                        except NoEval as ex:
                            raise AnalysisError('decoder descriptor unpacking uses an unmodelled expression: %s' % ex)
                        if back != did and bad is None:
                            bad = ('decoder', did, back)
        rr.extra['descriptor_ids_folded'] = n
        if not dvals:
            raise AnalysisError('Decoder.process_unexpanded_descriptors: the appended descriptor id was not observed')
        if bad:
            side, did, got = bad
            rr.fail('codec:unexpanded_descriptors:%s' % side, (efi if side == 'encoder' else dfi).where,
                    '%s side: descriptor %06d is packed/unpacked as %r (expected F=%d X=%d Y=%d <-> %d)' % (
                        side, did, got, did // 100000, did // 1000 % 100, did % 1000, did), witness={'id': did})
    # the two process_section loops hand the same parameter kinds to the same routines (folded on a synthetic layout)
    from sa.rules.c04 import SectionModel, SecInterp, PosIO, param, message
    for cname in ('Decoder', 'Encoder'):
        fi = repo.own_method(cname, 'process_section')
        it = SecInterp(repo, cname, 16)
        ps = [param('section_length', 24, value=0), param('flag', 1, 'bool', value=True), param('bits', 7, 'bin', value='0000000'),
              param('unexpanded_descriptors', 0, 'unexpanded_descriptors', value=Sym('IDS')), param('template_data', 0, 'template_data', value=Sym('TD'))]
        io = PosIO(0, [9, True, '0000000'])

        def mk():
            loc = {'self': Obj(cname, {'ignore_declared_length': True}), 'bufr_message': message(4), 'section': SectionModel([Obj(p.cls, dict(p.fields)) for p in ps], {'index': 3})}
            loc['bit_reader' if cname == 'Decoder' else 'bit_writer'] = PosIO(0, [9, True, '0000000'])
            return loc
        res = it.run_function(fi, mk, self_class=cname)
        rr.instance('%s.process_section: generic fields, descriptor list, data section dispatch' % cname)
        for r in res:
            seq = []
            for e in r.events:
                if e[0] in ('read', 'write'):
                    seq.append((e[1], e[2]))
                elif e[0] == 'data':
                    seq.append(e[1].split('.')[-1])
            want = [('uint', 24), ('bool', 1), ('bin', 7), 'process_unexpanded_descriptors', 'process_template_data']
            if not r.ok or seq != want:
                rr.fail('%s.process_section:dispatch' % cname, fi.where, 'a section with [24-bit uint, bool, 7-bit bin, descriptor list, data] is processed as %s (%s); expected %s' % (
                    seq, r.describe(), want))
    rr.require_floor(13)
    return rr


def _value_leaf(rec):
    """The user value this path encodes: elem(decoded_values, IDX) / V0 / Vi."""
    return None


def rule_r2(repo):
    rr = RuleResult('C02.R2', 'numeric encode sites compute int(round(value * scale_powered)) - reference (inverse of C01.R6)')
    sites = 0

    def check_form(got, leaf, b, fi, m, r, what):
        scale = b.get('P:scale_powered', Sym('P:scale_powered'))
        refval = b.get('P:refval', Sym('P:refval'))
        g = norm_round(got)
        if scale == 1:
            scaled_opts = [leaf, Sym('ROUND', leaf)]
        else:
            scaled_opts = [Sym('ROUND', Sym('mul', leaf, scale)), Sym('ROUND', Sym('mul', scale, leaf))]
        for s in scaled_opts:
            want = Sym('sub', s, refval) if not (isinstance(refval, (int, float)) and refval == 0) else s
            if lin_eq(g, want):
                return True
        rr.fail('Encoder.%s:form' % m, fi.where,
                'path [%s] %s %r; FM-94 raw value is int(round(value * %r)) - %r' % (r.desc(), what, got, scale, refval), witness={'path': r.desc()})
        return False

    # uncompressed
    m = 'process_numeric_uncompressed'
    fi, recs, _ = run_primitive(repo, 'Encoder', m)
    for r in codec.require_paths(recs, fi, 2):
        b = r.bindings()
        for e in r.io():
            if e[1] != 'write_uint':
                continue
            v = e[2][0]
            if sym_find(v, lambda s: s.op == 'MISSING'):
                continue
            sites += 1
            check_form(v, Sym('elem', Sym('decoded_values'), Sym('IDX')), b, fi, m, r, 'writes')
    rr.instance('Encoder.%s: written value form' % m)
    # compressed: all-equal minimum and per-subset scaling
    m = 'process_numeric_compressed'
    fi, recs, _ = run_primitive(repo, 'Encoder', m)
    saw_scaled = saw_diff = saw_min = False
    for r in codec.require_paths(recs, fi, 4):
        b = r.bindings()
        ios = r.io()
        stores = [e for e in r.events if e[0] == 'valstore']
        if not stores:
            # shortcut paths: the minimum is the common value
            v = ios[0][2][0] if ios else None
            if v is not None and (repr(v) == 'MIN' or sym_find(v, lambda s: s.op == 'MIN')):
                # the general branch on a path where the abstract subset value was taken to be None: no scaled value is stored and the
                # minimum is that of the column - nothing of the form to decide here (the column fold decides such columns concretely)
                continue
            if v is not None and not sym_find(v, lambda s: s.op == 'MISSING'):
                sites += 1
                saw_min = True
                check_form(v, Sym('V0'), b, fi, m, r, 'writes the common value as')
            continue
        for e in stores:
            v = e[1]
            if v is None:
                continue
            if sym_find(v, lambda s: s.op == 'MISSING'):
                continue
            if sym_find(v, lambda s: s.op == 'MIN'):
                saw_diff = True
                if not lin_eq(v, Sym('sub', Sym('Vi'), Sym('MIN'))):
                    rr.fail('Encoder.%s:difference' % m, fi.where, 'path [%s] stores the per-subset difference %r, expected value - minimum' % (r.desc(), v))
                continue
            sites += 1
            saw_scaled = True
            check_form(v, Sym('Vi'), b, fi, m, r, 'scales a subset value to')
        if ios and repr(ios[0][2][0]) != 'MIN':
            rr.fail('Encoder.%s:minimum' % m, fi.where, 'path [%s] writes %r as the column minimum' % (r.desc(), ios[0][2][0]))
    rr.instance('Encoder.%s: common value, per-subset scaling, differences' % m)
    demote_undecided(repo, rr)
    if not (saw_scaled and saw_diff and saw_min):
        if concrete_codec_agrees(repo):
            rr.instance('symbolic sites not recognised (%s %s %s): decided on the concrete family' % (saw_scaled, saw_diff, saw_min))
        else:
            raise AnalysisError('Encoder.process_numeric_compressed: expected scaling/difference/common-value sites not all found (%s %s %s)' % (saw_scaled, saw_diff, saw_min))
    rr.extra['sites'] = sites
    rr.require_floor(2)
    return rr


def rule_r3(repo):
    rr = RuleResult('C02.R3', 'a missing value is written as all ones of exactly the width written')
    n = 0
    for prim in ('numeric', 'codeflag', 'string'):
        for mode in MODES:
            m = 'process_%s_%s' % (prim, mode)
            fi, recs, _ = run_primitive(repo, 'Encoder', m)
            found = 0
            for r in codec.require_paths(recs, fi):
                ios = r.io()
                loop_width = None
                depth = 0
                for e in r.events:
                    if e[0] == 'loop_begin':
                        depth += 1
                    elif e[0] == 'loop_end':
                        depth -= 1
                    elif e[0] == 'io' and depth > 0 and len(e[2]) > 1:
                        loop_width = e[2][1]
                for e in ios:
                    if len(e[2]) < 2:
                        continue
                    v, w = e[2][0], e[2][1]
                    for ms in sym_find(v, lambda s: s.op == 'MISSING'):
                        found += 1
                        if repr(ms.args[0]) != repr(w):
                            rr.fail('Encoder.%s:missing-width' % m, e[3], 'path [%s] writes NUMERIC_MISSING_VALUES[%r] into a field of %r bits' % (r.desc(), ms.args[0], w))
                    for ms in sym_find(v, lambda s: s.op == 'mul' and any(a in ('\xff', b'\xff') for a in s.args)):
                        found += 1
                        cnt = [a for a in ms.args if a not in ('\xff', b'\xff')][0]
                        if repr(cnt) != repr(w):
                            rr.fail('Encoder.%s:missing-width' % m, e[3], "path [%s] writes '\\xff' * %r into a field of %r bytes" % (r.desc(), cnt, w))
                for e in r.events:
                    if e[0] == 'valstore':
                        for ms in sym_find(e[1], lambda s: s.op == 'MISSING'):
                            found += 1
                            if ms is not e[1]:
                                rr.fail('Encoder.%s:missing-diff-value' % m, e[2],
                                        'path [%s]: a missing subset value is coded as %r, not as the all-ones marker itself: the decoder only '
                                        'recognises NUMERIC_MISSING_VALUES[width] as missing' % (r.desc(), e[1]))
                            if loop_width is not None and repr(ms.args[0]) != repr(loop_width):
                                rr.fail('Encoder.%s:missing-diff-width' % m, e[2],
                                        'path [%s]: a missing subset value is coded as NUMERIC_MISSING_VALUES[%r] but the differences are written with %r bits' % (
                                            r.desc(), ms.args[0], loop_width))
            rr.instance('Encoder.%s: %d missing-value sites' % (m, found))
            n += found
            if found == 0:
                rr.fail('Encoder.%s:no-missing' % m, fi.where, 'no path of %s encodes a missing (None) value as all ones' % m)
    rr.extra['sites'] = n
    demote_undecided(repo, rr)
    rr.require_floor(6)
    return rr


def rule_r5(repo):
    rr = RuleResult('C02.R5', 'every encoder primitive consumes one value index and appends one descriptor per non-raising path')
    for prim in PRIMS:
        for mode in MODES:
            m = 'process_%s_%s' % (prim, mode)
            fi, recs, _ = run_primitive(repo, 'Encoder', m)
            rr.instance('Encoder.%s: %d paths' % (m, len(recs)))
            for r in codec.require_paths(recs, fi):
                nd = len(r.appends('decoded_descriptors'))
                adv = [e for e in r.events if e[0] == 'statestore' and e[1] == 'idx_value']
                if nd != 1:
                    rr.fail('Encoder.%s:descriptors' % m, fi.where, 'path [%s] appends %d descriptors (expected 1)' % (r.desc(), nd))
                if len(adv) != 1 or not lin_eq(adv[0][2], Sym('add', Sym('IDX'), 1)):
                    rr.fail('Encoder.%s:index' % m, fi.where, 'path [%s] moves the value index by %s (expected exactly idx_value + 1)' % (
                        r.desc(), [repr(a[2]) for a in adv] or 'nothing'))
                # the value consumed is the one at the index before the advance
                reads = [e for e in r.events if e[0] == 'gather']
                for g in reads:
                    if repr(g[1]) != 'elem(decoded_values@subset,IDX)':
                        rr.fail('Encoder.%s:gather' % m, fi.where, 'path [%s] gathers %r from every subset (expected the value at the current index)' % (r.desc(), g[1]))
    rr.require_floor(10)
    return rr


def rule_r6(repo, rule='C02.R6'):
    rr = RuleResult(rule, 'sibling agreement on 203YYY values: both coders use new_refvals[id] * factor and store the value under the element id')
    from sa.rules import c01
    for coder in ('Encoder', 'Decoder'):
        c01.check_newref(repo, coder, rr)
        for mode in MODES:
            m = 'process_new_refval_' + mode
            fi, recs, _ = run_primitive(repo, coder, m)
            for r in codec.require_paths(recs, fi):
                st = [e for e in r.events if e[0] == 'dictstore' and e[1] == 'new_refvals']
                rr.instance('%s.%s stores the new reference value' % (coder, m))
                if len(st) != 1 or repr(st[0][2]) != 'D.id':
                    rr.fail('%s.%s:store' % (coder, m), fi.where, 'path [%s] stores %s in new_refvals (expected exactly new_refvals[descriptor.id] = value)' % (
                        r.desc(), [(repr(x[2]), repr(x[3])) for x in st] or 'nothing'))
                    continue
                v = st[0][3]
                ios = r.io()
                if coder == 'Decoder':
                    ok = ios and repr(v) == 'io0' and ios[0][1] == 'read_int'
                else:
                    ok = ios and ios[0][1] == 'write_int' and repr(ios[0][2][0]) == repr(v)
                if not ok:
                    rr.fail('%s.%s:value' % (coder, m), fi.where, 'path [%s]: the stored reference %r is not the sign-magnitude value %s' % (
                        r.desc(), v, 'read' if coder == 'Decoder' else 'written'))
    rr.require_floor(6)
    return rr

def rule_roundtrip(repo, rule='C02.R15'):
    """End-to-end fold on the concrete templates of rules/pipeline.py: the decoder walk turns a scripted sequence of raw fields into
    flat values; the encoder walk, given those values, must write the same fields - same order, same kind, same width, same raw value
    (a missing value as all ones of the width) - for every template of the family."""
    from sa.rules import pipeline as P
    rr = RuleResult(rule, 'decode then encode, folded end to end on concrete templates: the encoder writes exactly the fields the decoder read (order, kind, width, raw value)')
    kinds = {'read_uint_or_none': 'write_uint', 'read_uint': 'write_uint', 'read_int': 'write_int', 'read_bytes': 'write_bytes', 'read_bool': 'write_bool',
             'read_bin': 'write_bin'}
    for name in sorted(P.templates()):
        members, script = P.templates()[name]
        o = P.run_template(repo, name)
        key = 'roundtrip:%s' % name.split(' (')[0].replace(' ', '-').replace(',', '')
        rr.instance('template "%s": %d fields' % (name, len(script)))
        if not o.decode.ok:
            rr.fail(key, 'pybufrkit/coder.py', 'template "%s": the decoder walk ends in %s' % (name, o.decode.exc.cls), witness={'template': name})
            continue
        r, st, wr = P.encode(repo, members, o.vals)
        if not r.ok:
            rr.fail(key, 'pybufrkit/encoder.py', 'template "%s": the encoder walk over the values the decoder produced (%s) ends in %s' % (name, _short(list(o.vals)), r.exc.cls),
                    witness={'template': name})
            continue
        want = []
        for (m, a), raw in zip(o.reads, script):
            w = a[0] if a else None
            if m not in kinds:
                raise AnalysisError('pipeline fold: read kind %s has no write counterpart in the rule' % m)
            if raw is None and isinstance(w, int):
                raw = 2 ** w - 1
            want.append((kinds[m], (raw, w)))
        got = [(m, tuple(a)) for m, a in wr.log]
        if got != want:
            d = [(i, g, w) for i, (g, w) in enumerate(zip(got, want)) if g != w][:2] or [('length', len(got), len(want))]
            rr.fail(key, 'pybufrkit/encoder.py', 'template "%s": the decoder read %d fields, the encoder writes %d for the values decoded from them; first difference '
                    '(field, written, read): %s' % (name, len(want), len(got), d[0]), witness={'template': name, 'written': repr(got)[:600], 'read': repr(want)[:600]})
    rr.require_floor(15)
    return rr

def rule_user_values(repo, rule='C02.R16'):
    """The encoder walk folded on values as a user writes them (not only as the decoder hands them out): on every template of the
    family one value at a time is replaced - a character value by a shorter text, by the empty text, by a bytes value, by None; a
    numeric / code / flag value by None - and the field written for it must be that very value (padding is the bit writer's business,
    C19) or, for None and only for None, all ones of the width; every other field must stay what it was."""
    from sa.rules import pipeline as P
    rr = RuleResult(rule, 'values as a user writes them: a short or empty text reaches the writer as itself, only None becomes all ones of the width, neighbours untouched')
    n = 0
    for name in sorted(P.templates()):
        members, script = P.templates()[name]
        o = P.run_template(repo, name)
        if not o.decode.ok or len(o.reads) != len(o.vals) or len(o.descs) != len(o.vals):
            continue
        r0, st0, wr0 = P.encode(repo, members, o.vals)
        if not r0.ok:
            continue                   # reported by the round-trip rule
        base = [(m, tuple(a)) for m, a in wr0.log]
        if len(base) != len(o.vals):
            continue
        for i, ((m, a), v, d) in enumerate(zip(o.reads, o.vals, o.descs)):
            did = d.fields.get('id') if isinstance(d, Obj) else None
            if m == 'read_bytes':
                w = a[0]
                variants = [('a shorter text', 'A' if w > 1 else ''), ('the empty text', ''), ('empty bytes', b''), ('None', None), ('a full-width text', 'Z' * w)]
            elif m == 'read_uint_or_none' and isinstance(did, int) and did // 1000 != 31 and v is not None:
                variants = [('None', None)]
            else:
                continue
            for what, nv in variants:
                vals = list(o.vals)
                vals[i] = nv
                r, st, wr = P.encode(repo, members, vals)
                n += 1
                key = 'user-values:%s' % ('text' if m == 'read_bytes' else 'numeric')
                where = 'pybufrkit/encoder.py'
                if not r.ok:
                    rr.fail(key + ':refused', where, 'template "%s": with %s for value %d (%s) the encoder walk ends in %s' % (name, what, i, did, r.exc.cls),
                            witness={'template': name, 'index': i, 'value': repr(nv)})
                    continue
                got = [(mm, tuple(aa)) for mm, aa in wr.log]
                if len(got) != len(base) or any(g != b for k, (g, b) in enumerate(zip(got, base)) if k != i):
                    rr.fail(key + ':neighbours', where, 'template "%s": with %s for value %d (%s) other fields change as well' % (name, what, i, did),
                            witness={'template': name, 'index': i, 'value': repr(nv)})
                    continue
                gm, ga = got[i]
                w = base[i][1][1]
                if nv is None:
                    ok = ga[1] == w and ga[0] in ((2 ** w - 1,) if m != 'read_bytes' else ('\xff' * w, b'\xff' * w))
                    want = 'all ones of the width'
                else:
                    ok = ga[1] == w and ga[0] == nv and type(ga[0]) is type(nv)
                    want = 'that value (%r), padded by the bit writer' % (nv,)
                if gm != base[i][0] or not ok:
                    rr.fail(key + ':written', where, 'template "%s": with %s for value %d (%s, %d %s wide) the encoder hands %s%r to the bit writer; expected %s' % (
                        name, what, i, did, w, 'octets' if m == 'read_bytes' else 'bits', gm, ga, want), witness={'template': name, 'index': i, 'value': repr(nv)})
    rr.instance('%d single-value replacements over the template family' % n)
    rr.extra = {'replacements': n}
    if n < 30:
        raise AnalysisError('C02.R16: only %d replacements could be set up' % n)
    rr.require_floor(1)
    return rr


def _short(v):
    s = repr(v)
    return s if len(s) < 200 else s[:197] + '...'


def run(repo, check):
    from sa.rules import c04, c19
    check.run_rule(rule_r1, repo, check.tier)
    check.run_rule(rule_r2, repo)
    check.run_rule(rule_r3, repo)
    r4 = check.call(c04.rule_padding_zero, repo, 'C02.R4')
    check.add(r4)
    r4b = check.call(c19.rule_r6, repo)
    r4b.rule = 'C02.R4b'
    for f in r4b.findings:
        f.rule = 'C02.R4b'
    check.add(r4b)
    check.run_rule(rule_r5, repo)
    check.run_rule(rule_r6, repo)
    from sa.rules import c07
    r7 = check.call(c07.rule_r6, repo)
    r7.rule = 'C02.R7'
    r7.title = 'the encoder takes a bitmap from the bits of the subset being encoded (shared with C07.R6)'
    r7.findings = [f for f in r7.findings if f.key.startswith('Encoder.')]
    for f in r7.findings:
        f.rule = 'C02.R7'
    check.add(r7)
    from sa.rules import c06
    from sa.rules.common import share
    share(check, repo, c04.rule_r3, 'C02.R8', 'section lengths and padding written by the encoder (shared with C04.R3)',
          keep=lambda f: not f.key.startswith('Decoder.'), args=(check.tier,))
    share(check, repo, c19.rule_r1, 'C02.R9', 'the bit writer appends exactly the field it is asked to (shared with C19.R1)',
          keep=lambda f: 'Writer' in f.key, args=(check.tier,))
    share(check, repo, c06.rule_r1, 'C02.R10', 'operator state is reset between the subsets being encoded (shared with C06.R1)')
    from sa.rules import columns
    from sa.rules.common import share as _share
    _share(check, repo, columns.rule_columns, 'C02.R11', args=(check.tier, 'C02.R11'))
    from sa.rules import c07 as _c07
    _share(check, repo, _c07.rule_r3, 'C02.R12', 'values introduced by marker operators are written with the coding of the element the bitmap designates (shared with C07.R3)',
           args=(check.tier,))
    from sa.rules import c13 as _c13, c05 as _c05
    _share(check, repo, _c13.rule_r3, 'C02.R13', 'the encoder keeps nothing from one message to the next: every message is written from its own tables and template '
           '(shared with C13.R3)', keep=lambda f: 'Encoder' in f.key or 'Coder.' in f.key)
    _share(check, repo, _c05.rule_state_mode, 'C02.R14', 'the data section is written in the layout the header declares, whatever the number of subsets (shared with C05.R8)',
           args=('C02.R14',), keep=lambda f: 'Encoder' in f.key)
    check.run_rule(rule_roundtrip, repo)
    check.run_rule(rule_user_values, repo)
    from sa.rules import c01 as _c01b
    _share(check, repo, _c01b.rule_reference, 'C02.R17', 'the fields the decoder reads are the ones an independent FM-94 reading of the template dictates (shared with C01.R14); with '
           'R15 - the encoder writes exactly what the decoder reads - the encoder writes the FM-94 fields', args=('C02.R17',))
    check.assumptions = ['bitstring writes an n-bit unsigned field MSB first and refuses values that do not fit (trusted base)',
                         'byte identity with an independent encoder is a runtime fact and is not decided; the rules decide that the encoder '
                         'and the decoder agree on every field sequence and that the arithmetic is the FM-94 one']


# ---------------------------------------------------------------------------
# Arbiter for the symbolic comparisons of this module.  The skeleton / normal-form rules (R1 primitives, R2, R3) abstract the primitives
# into I/O skeletons and expression DAGs; a rewrite of a primitive that the abstraction does not follow (the writer method handed to a
# helper as a value, a loop over a one-element slice, ...) makes them disagree with the reference form although nothing has changed.
# The same routines are also *folded concretely* (column round trips in both modes, decode -> encode and compressed round trips on the
# concrete template family).  A disagreement of the symbolic comparison is reported only when it cannot be put down to the abstraction,
# i.e. unless every concrete fold of the same routines agrees; otherwise it is recorded as undecided in the evidence.
_ARBITER = {}


def concrete_codec_agrees(repo):
    k = id(repo)
    if k not in _ARBITER:
        ok = True
        try:
            from sa.rules import columns, c05
            for r in (columns.rule_columns(repo, 'quick', 'arbiter'), rule_roundtrip(repo, 'arbiter'), c05.rule_pipeline_compressed(repo, 'arbiter')):
                if r.findings:
                    ok = False
                    break
        except AnalysisError:
            ok = False
        except Exception:
            ok = False
        _ARBITER[k] = ok
    return _ARBITER[k]


def demote_undecided(repo, rr, pred=lambda f: True):
    sus = [f for f in rr.findings if pred(f)]
    if sus and concrete_codec_agrees(repo):
        rr.findings = [f for f in rr.findings if not pred(f)]
        for f in sus:
            rr.notes.append('undecided by the symbolic comparison (shape outside its abstraction); the concrete folds of the same routines agree: %s' % f.key)
        rr.instance('symbolic comparison undecided for %d construct(s): decided on the concrete family (column round trips, decode -> encode, compressed round trip)' % len(sus))
    return rr
