"""
Coder / wirer lockstep: how many flat entries the template walk emits for one template member
in a given operator state, and how many flat indices TemplateData.wire_members consumes for
the same member in the corresponding state (shared by C07 and C09).
"""
from __future__ import print_function

from sa.model import AnalysisError
from sa.patheval import Interp, Native, Obj, Raise, Sym, Top, UnknownMethod, FuncRef
from sa.rules.walk import WalkInterp, make_state, element, operator, NextBitmapped

NODE_CLASSES = ('ValueDataNode', 'AssociatedFieldNode', 'FirstOrderStatsNode', 'DifferenceStatsNode', 'SubstitutionNode',
                'ReplacementNode', 'QualityInfoNode', 'NoValueDataNode', 'FixedReplicationNode', 'DelayedReplicationNode',
                'SequenceNode')


class LinkMap(Native):
    """bitmap_links of one subset as the wirer sees it.  keys=None: unknown contents (membership tests fork, every read succeeds);
    otherwise the flat positions the coder linked on the corresponding path."""

    def __init__(self, keys=None):
        self.keys = None if keys is None else set(keys)

    def __repr__(self):
        return 'LinkMap'


class WireInterp(Interp):
    MAX_PATHS = 4000

    def __init__(self, repo):
        Interp.__init__(self, repo, 'TemplateData')
        self.k = 0

    def on_call(self, text, callee, args, kwargs, node, frame):
        if text == 'self.get_next_descriptor_and_index':
            k = len([e for e in self.path.events if e[0] == 'consume'])
            self.event('consume', k, self.where(node, frame))
            return (Top('descriptor'), k)
        if isinstance(callee, UnknownMethod) and callee.name == 'add_attribute':
            a = args[0] if args else None
            self.event('attach', a.cls if isinstance(a, Obj) else repr(a), repr(callee.recv))
            return None
        return self.NOT_HANDLED

    def cmp(self, op, l, r, frame=None):
        import ast as _ast
        if isinstance(op, (_ast.In, _ast.NotIn)) and isinstance(r, LinkMap):
            if r.keys is None or not isinstance(l, int):
                return None
            v = l in r.keys
            return v if isinstance(op, _ast.In) else not v
        return Interp.cmp(self, op, l, r, frame)

    def construct(self, cname, args, kwargs, node, frame):
        o = Interp.construct(self, cname, args, kwargs, node, frame)
        if cname in NODE_CLASSES:
            self.event('node', cname, o.fields.get('index') if isinstance(o, Obj) else None)
        return o

    def on_subscript(self, base, idx, node, frame):
        if isinstance(base, LinkMap):
            self.event('linkread', idx)
            if base.keys is not None and isinstance(idx, int) and idx not in base.keys:
                raise Raise('KeyError', node, self.where(node, frame))
            return Sym('LINK')
        if isinstance(base, dict) and isinstance(idx, Sym):
            owner = Obj('ValueDataNode', {'index': Sym('OWNER'), '__owner__': True})
            self.event('owner', owner)
            return owner
        return self.NOT_HANDLED


def wirer_self(over=None):
    f = {
        'decoded_nodes': [], 'decoded_descriptors': Top('descs'), 'decoded_values': Top('values'), 'bitmap_links': LinkMap(),
        'index_to_node': {}, 'nbits_associated_list': [], 'data_not_present_count': 0,
        'waiting_for_qa_info_meaning': False, 'waiting_for_1st_order_stats_meaning': False,
        'waiting_for_difference_stats_meaning': False,
        'associated_field_meaning': Obj('ValueDataNode', {'index': Sym('AFM')}),
        'first_order_stats_meaning': Obj('ValueDataNode', {'index': Sym('FOSM')}),
        'difference_stats_meaning': Obj('ValueDataNode', {'index': Sym('DSM')}),
    }
    if over:
        f.update(over)
    return Obj('TemplateData', f)


def shape(events, kinds):
    """Sequence of emission / consumption marks with loop brackets (empty loops dropped)."""
    out = []
    for e in events:
        if e[0] in kinds:
            out.append('x')
        elif e[0] == 'loop_begin':
            out.append('(')
        elif e[0] == 'loop_end':
            out.append(')')
    s = ''.join(out)
    while '()' in s:
        s = s.replace('()', '')
    return s


def run_coder(repo, members, state_over, coder='Decoder'):
    fi = repo.method(coder, 'process_members')
    it = WalkInterp(repo, coder)
    res = it.run_function(fi, lambda: {'self': Obj(coder, {}), 'state': make_state(repo, it, dict(_fresh(state_over))),
                                       'bit_operator': Top('b'), 'members': list(members)}, self_class=coder)
    return fi, res


def run_wirer(repo, members, self_over, link_keys=None):
    fi = repo.method('TemplateData', 'wire_members')
    it = WireInterp(repo)

    def mk():
        over = dict(_fresh(self_over))
        if link_keys is not None:
            over['bitmap_links'] = LinkMap(link_keys)
        return {'self': wirer_self(over), 'members': list(members)}
    res = it.run_function(fi, mk, self_class='TemplateData')
    return fi, res


def link_positions(r):
    """flat positions the coder linked on one path"""
    pos, n = [], 0
    for e in r.events:
        if e[0] == 'emit':
            n += 1
        elif e[0] == 'link':
            pos.append(e[1] if isinstance(e[1], int) and not isinstance(e[1], bool) else n)
    return tuple(pos)


def _fresh(d):
    for k, v in (d or {}).items():
        if isinstance(v, list):
            v = list(v)
        elif isinstance(v, dict):
            v = dict(v)
        elif isinstance(v, NextBitmapped):
            v = NextBitmapped(v.descriptor)
        yield k, v


def outcome_set(res, kinds):
    out = set()
    for r in res:
        if r.ok:
            out.add(shape(r.events, kinds))
        else:
            out.add('raise ' + r.exc.cls)
    return out


def outcome_set_links(res, kinds, link_kind):
    """As outcome_set, with the flat positions that are linked to an owner: the coder stores bitmap_links[position] when it is
    about to emit the linked value, the wirer reads bitmap_links[position] for the value it has just consumed."""
    out = set()
    for r in res:
        if not r.ok:
            out.add('raise ' + r.exc.cls)
            continue
        pos, n = [], 0
        for e in r.events:
            if e[0] in kinds:
                n += 1
            elif e[0] == link_kind:
                k = e[1]
                pos.append(k if isinstance(k, int) and not isinstance(k, bool) else (n if link_kind == 'link' else n - 1))
        out.add(shape(r.events, kinds) + (' links@%s' % ','.join(str(p) for p in pos) if pos else ''))
    return out
