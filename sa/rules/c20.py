"""
C20  In-stream table definitions govern the messages that follow them (structural part: extraction and plumbing).

R1 BufrTableDefinitionProcessor folded over a scripted NCEP definition message (sign / scale / reference /
   width parsing of Table B entries, membership of Table D entries, value consumption)
R2 registration plumbing: invalidate keeps the definitions, add_extra_entries merges b into B and d into D,
   new table groups are built with them, they are read after the files (so they override), the scanner
   registers them before yielding (shared with C11.R1)
R3 NCEP replication-only sequences are repaired exactly when in-stream definitions exist (template_from_ids,
   _fix_ncep_descriptors folded on small trees)
"""
from __future__ import print_function

import ast

from sa.model import AnalysisError, norm
from sa.patheval import Interp, Native, Obj, Sym, Top, Raise, UnknownMethod, ModRef
from sa.report import RuleResult


class Counter(Native):
    def __init__(self, start):
        self.v = start

    def __repr__(self):
        return 'count(%r)' % self.v

    def next_value(self, interp, frame, node):
        v = self.v
        self.v += 1
        return v


class DefInterp(Interp):
    LIST_CAP = 400
    MAX_DEPTH = 30

    def on_load_attr(self, base, attr, node, frame):
        if isinstance(base, ModRef) and base.name == 'six':
            if attr == 'binary_type':
                return ('builtin', 'bytes')
            if attr == 'text_type':
                return ('builtin', 'str')
        return self.NOT_HANDLED

    def on_call(self, text, callee, args, kwargs, node, frame):
        if text == 'itertools.count':
            return Counter(args[0] if args else 0)
        if text == 'bufr_message.wire':
            self.event('wire')
            return None
        return self.NOT_HANDLED

    def builtin(self, name, args, kwargs, node, frame):
        if name == 'dict' and len(args) == 1 and isinstance(args[0], list) and all(isinstance(x, tuple) and len(x) == 2 for x in args[0]):
            return dict(args[0])
        return Interp.builtin(self, name, args, kwargs, node, frame)


def el(i):
    return Obj('ElementDescriptor', {'id': i})


def _rep_node(values, n, rid, members, fixed):
    """The replication node of one part of the definition message: delayed (factor value in front of the entries) or fixed (count in the descriptor)."""
    if fixed:
        return Obj('FixedReplicationNode', {'descriptor': Obj('FixedReplicationDescriptor', {'id': rid + n, 'members': members})})
    idx = len(values)
    values.append(n)
    return Obj('DelayedReplicationNode', {'descriptor': Obj('DelayedReplicationDescriptor', {'id': rid, 'members': members, 'factor': el(31001)}),
                                          'factor': Obj('ValueDataNode', {'index': idx})})


def definition_message(na=2, nb=4, nd=3, fixed=(False, False, False)):
    """Flat values of a table-definition message in the NCEP layout (the first na / nb / nd entries of Table A / B / D), with the tables it defines.
    fixed: which of the three parts is spelled with fixed instead of delayed replication (the processor accepts both)."""
    values = []
    nodes = []
    # Table A: delayed replication of 000001 000002 000003
    a = [(b'001', b'MSG TYPE 1 ', b'line2'), (b'002', b'MSG TYPE 2 ', b'')][:na]
    nodes.append(_rep_node(values, len(a), 103000, [el(1), el(2), el(3)], fixed[0]))
    for t in a:
        values.extend(t)
    # Table B
    b = [
        ('0', '48', '001', 'STATION PRESSURE                ', 'LINE TWO                ', 'PA                      ', '+', '  0', '+', '         0', ' 14'),
        ('0', '48', '002', 'TEMPERATURE                     ', '                        ', 'K                       ', '-', '  1', '+', '       100', ' 12'),
        ('0', '63', '255', 'BALANCE                         ', 'OF SOMETHING            ', 'NUMERIC                 ', '+', '  2', '-', '      1024', ' 17'),
        ('0', '50', '010', 'BOTH NEGATIVE                   ', '                        ', 'M                       ', '-', '  3', '-', '         7', '  9'),
    ][:nb]
    nodes.append(_rep_node(values, len(b), 111000, [el(i) for i in range(10, 21)], fixed[1]))
    for t in b:
        values.extend(x.encode() for x in t)
    want_b = {}
    for f, x, y, n1, n2, unit, ss, sc, rs, rf, w in b:
        want_b[f + x + y] = [n1.rstrip() + n2.rstrip(), unit.strip(), (1 if ss == '+' else -1) * int(sc), (1 if rs == '+' else -1) * int(rf), int(w), '', 0, 0]
    # Table D
    d = [
        ('3', '60', '001', 'FIRST SEQUENCE                                                  ', ['048001', '048002']),
        ('3', '60', '002', 'SECOND                                                          ', ['101000', '031001', '360001']),
        ('3', '61', '003', 'EMPTY                                                           ', []),
    ][:nd]
    nodes.append(_rep_node(values, len(d), 105000, [
        el(10), el(11), el(12), Obj('OperatorDescriptor', {'id': 205064}),
        Obj('DelayedReplicationDescriptor', {'id': 101000, 'factor': el(31001), 'members': [el(30)]})], fixed[2]))
    for f, x, y, name, members in d:
        values.extend([f.encode(), x.encode(), y.encode(), name.encode(), len(members)] + [m.encode() for m in members])
    want_d = dict((f + x + y, [name.rstrip(), list(members)]) for f, x, y, name, members in d)
    return nodes, values, want_b, want_d


def rule_r1(repo):
    rr = RuleResult('C20.R1', 'extraction of Table B / D entries from a definition message (NCEP layout), folded on a scripted message')
    fi = repo.own_method('BufrTableDefinitionProcessor', 'process')
    # messages that define only elements, only sequences, or nothing: every section still has its replication factor
    D3 = (False, False, False)
    # ... and messages whose parts are spelled with fixed replication (the processor accepts both forms for each part)
    for na, nb, nd, fixed in ((2, 0, 3, D3), (0, 4, 0, D3), (0, 0, 1, D3), (1, 1, 1, D3), (0, 0, 0, D3), (2, 0, 0, D3),
                              (1, 1, 1, (True, False, False)), (2, 4, 3, (True, False, False)), (2, 4, 3, (False, True, False)),
                              (2, 4, 3, (False, False, True)), (2, 4, 3, (True, True, True)), (1, 2, 0, (True, True, False))):
        nodes, values, want_b, want_d = definition_message(na, nb, nd, fixed)
        it = DefInterp(repo, 'BufrTableDefinitionProcessor')
        td = Obj('TemplateDataStub', {'decoded_nodes': nodes, 'decoded_values': values})
        msg = Obj('BufrMessage', {'n_subsets': Obj('P', {'value': 1}), 'template_data': Obj('P', {'value': td})})
        res = it.run_function(fi, lambda: {'self': Obj('BufrTableDefinitionProcessor', {}), 'bufr_message': msg}, self_class='BufrTableDefinitionProcessor')
        how = ''.join(' (Table %s under fixed replication)' % t for t, f in zip('ABD', fixed) if f)
        rr.instance('definition message with %d Table A, %d Table B and %d Table D entries%s' % (na, nb, nd, how))
        if len(res) != 1:
            raise AnalysisError('BufrTableDefinitionProcessor.process forks into %d paths on a concrete message' % len(res))
        r = res[0]
        out = r.value if r.ok else None
        if not r.ok or not (isinstance(out, list) and len(out) == 3) or out[1] != want_b or out[2] != want_d:
            rr.fail('BufrTableDefinitionProcessor:%s' % ('fixed-replication' if any(fixed) else 'partial-tables'), fi.where,
                    'a definition message with %d Table A, %d Table B and %d Table D entries%s gives %s; expected the '
                    'elements %s and the sequences %s' % (na, nb, nd, how, ('raises ' + r.exc.cls) if not r.ok else repr(out[1:])[:300], sorted(want_b), sorted(want_d)),
                    witness={'table_a': na, 'table_b': nb, 'table_d': nd, 'fixed': list(fixed)})
    nodes, values, want_b, want_d = definition_message()
    it = DefInterp(repo, 'BufrTableDefinitionProcessor')
    td = Obj('TemplateDataStub', {'decoded_nodes': nodes, 'decoded_values': values})
    msg = Obj('BufrMessage', {'n_subsets': Obj('P', {'value': 1}), 'template_data': Obj('P', {'value': td})})
    res = it.run_function(fi, lambda: {'self': Obj('BufrTableDefinitionProcessor', {}), 'bufr_message': msg}, self_class='BufrTableDefinitionProcessor')
    rr.instance('definition message with 2 Table A, %d Table B and %d Table D entries' % (len(want_b), len(want_d)))
    if len(res) != 1:
        raise AnalysisError('BufrTableDefinitionProcessor.process forks into %d paths on a concrete message' % len(res))
    r = res[0]
    if not r.ok:
        rr.fail('BufrTableDefinitionProcessor.process:raises', fi.where, 'the scripted definition message raises %s' % r.exc.cls)
        return rr
    out = r.value
    if not (isinstance(out, list) and len(out) == 3 and isinstance(out[1], dict) and isinstance(out[2], dict)):
        rr.fail('BufrTableDefinitionProcessor.process:shape', fi.where, 'process returns %r; expected [a, b_entries, d_entries]' % (out,))
        return rr
    gb, gd = out[1], out[2]
    for k in sorted(set(want_b) | set(gb)):
        rr.instance('Table B entry %s' % k)
        if gb.get(k) != want_b.get(k):
            w, g = want_b.get(k), gb.get(k)
            what = []
            if w is not None and g is not None and len(w) == len(g):
                for name, a, b2 in zip(('name', 'unit', 'scale', 'reference', 'width', 'crex unit', 'crex scale', 'crex width'), g, w):
                    if a != b2:
                        what.append('%s %r (message says %r)' % (name, a, b2))
            rr.fail('BufrTableDefinitionProcessor:table-b', fi.where, 'element %s is extracted as %s%s; the definition message says %s' % (
                k, g, (': ' + ', '.join(what)) if what else '', w), witness={'entry': k})
    for k in sorted(set(want_d) | set(gd)):
        rr.instance('Table D entry %s' % k)
        if gd.get(k) != want_d.get(k):
            rr.fail('BufrTableDefinitionProcessor:table-d', fi.where, 'sequence %s is extracted as %s; the definition message says %s' % (k, gd.get(k), want_d.get(k)),
                    witness={'entry': k})
    if not any(e[0] == 'wire' for e in r.events):
        rr.fail('BufrTableDefinitionProcessor:wire', fi.where, 'the message is not wired before its node tree is read')
    # the element constructor takes the entry fields in this order
    init = repo.own_method('ElementDescriptor', '__init__')
    rr.instance('ElementDescriptor(id, name, unit, scale, refval, nbits, ...) matches the entry layout')
    if init.params[1:7] != ['id_', 'name', 'unit', 'scale', 'refval', 'nbits']:
        rr.fail('ElementDescriptor.__init__:order', init.where, 'constructor parameters are %s; entries are [name, unit, scale, reference, width, ...]' % init.params[1:7])
    rr.require_floor(8)
    return rr


class PlumbInterp(Interp):
    LIST_CAP = 100

    def on_while(self, node, frame):
        return self.unroll_while(node, frame, 200)

    def on_call(self, text, callee, args, kwargs, node, frame):
        if text in ('TableA', 'TableB', 'TableC', 'TableR', 'TableD', 'BufrTableGroup'):
            self.event('new', text, list(args))
            return Obj(text + 'Stub', {'args': list(args)})
        if text == 'open':
            self.event('open', args[0])
            return Obj('File', {'path': args[0]})
        if text == 'json.load':
            f = args[0]
            return {'__from__': f.fields.get('path') if isinstance(f, Obj) else repr(f)}
        if text == 'os.path.join':
            parts = []
            for a in args:
                if isinstance(a, (list, tuple)):
                    parts.extend(a)
                else:
                    parts.append(a)
            if all(isinstance(a, str) for a in parts):
                return '/'.join(parts)
            return Top('path')
        if text.startswith('log.'):
            return None
        return self.NOT_HANDLED

    def on_with(self, node, frame):
        return self.NOT_HANDLED


def rule_r2(repo):
    rr = RuleResult('C20.R2', 'registration of in-stream definitions: kept across invalidation, merged un-crossed, read after the table files')
    cache_cls = 'TableGroupCache'
    inv = repo.own_method(cache_cls, 'invalidate')
    add = repo.own_method(cache_cls, 'add_extra_entries')
    get = repo.own_method(cache_cls, 'get')
    it = PlumbInterp(repo, cache_cls)

    def cache():
        return Obj(cache_cls, {'_groups': {'K1': Obj('G', {})}, 'extra_b_entries': {'048001': ['old']}, 'extra_d_entries': {'360001': ['oldseq', []]}})
    # invalidate: groups dropped, definitions kept
    res = it.run_function(inv, lambda: {'self': cache()}, self_class=cache_cls)
    rr.instance('invalidate() drops the cached groups and keeps the definitions')
    for r in res:
        c = r.locals['self'].fields
        if not r.ok or c['_groups'] != {} or c['extra_b_entries'] != {'048001': ['old']} or c['extra_d_entries'] != {'360001': ['oldseq', []]}:
            rr.fail('TableGroupCache.invalidate', inv.where, 'after invalidate(): groups %s, extra B %s, extra D %s; the groups must be dropped (they were built '
                    'without the new entries) and definitions of earlier messages must survive' % (sorted(c['_groups']), c['extra_b_entries'], c['extra_d_entries']))
    # add_extra_entries: b -> B, d -> D, merged with earlier ones
    res = it.run_function(add, lambda: {'self': cache(), 'b_entries': {'048002': ['new']}, 'd_entries': {'360002': ['newseq', ['048002']]}}, self_class=cache_cls)
    rr.instance('add_extra_entries(b, d) merges b into the B entries and d into the D entries')
    for r in res:
        c = r.locals['self'].fields
        if not r.ok or c['extra_b_entries'] != {'048001': ['old'], '048002': ['new']} or c['extra_d_entries'] != {'360001': ['oldseq', []], '360002': ['newseq', ['048002']]}:
            rr.fail('TableGroupCache.add_extra_entries', add.where, 'after add_extra_entries: extra B %s, extra D %s' % (c['extra_b_entries'], c['extra_d_entries']))
    # get: a new group is built with the extra entries
    res = it.run_function(get, lambda: {'self': cache(), 'table_group_key': 'K2'}, self_class=cache_cls)
    rr.instance('get(new key) builds Table B / D with the registered definitions and caches the group')
    for r in res:
        new = dict((e[1], e[2]) for e in r.events if e[0] == 'new')
        c = r.locals['self'].fields
        okb = 'TableB' in new and new['TableB'][0] == 'K2' and new['TableB'][1:] == [{'048001': ['old']}]
        okd = 'TableD' in new and new['TableD'][3] == 'K2' and new['TableD'][4:] == [{'360001': ['oldseq', []]}]
        if not r.ok or not okb or not okd:
            rr.fail('TableGroupCache.get:extra-entries', get.where, 'a new table group is built with TableB%s / TableD%s; expected the registered B entries for Table B and the '
                    'registered D entries for Table D' % (new.get('TableB'), new.get('TableD')))
        if r.ok and ('K2' not in c['_groups'] or r.value is not c['_groups'].get('K2')):
            rr.fail('TableGroupCache.get:cached', get.where, 'get() does not return the group it stored under the key')
        if r.ok and okd:
            tb = new['TableD'][0]
            if not (isinstance(tb, Obj) and tb.cls == 'TableBStub'):
                rr.fail('TableGroupCache.get:table-d-args', get.where, 'Table D is not built over the Table B of the same group')
    # load_json_files: files first, extra entries last (so they override)
    lj = repo.own_method('BaseTable', 'load_json_files')
    for local in (True, False):
        key = Obj('TableGroupKey', {'tables_root_dir': '/T', 'wmo_tables_sn': ('0', '0_0', '33'), 'local_tables_sn': ('0', '7_0', '2') if local else None})
        it2 = PlumbInterp(repo, 'TableB')
        res = it2.run_function(lj, lambda: {'self': Obj('TableB', {'table_group_key': key, 'extra_entries': {'048001': ['x']}}), 'fname': 'TableB.json'}, self_class='TableB')
        rr.instance('load_json_files (local tables %s): files, then in-stream entries' % ('in use' if local else 'not in use'))
        for r in res:
            want = [{'__from__': '/T/0/0_0/33/TableB.json'}] + ([{'__from__': '/T/0/7_0/2/TableB.json'}] if local else []) + [{'048001': ['x']}]
            if not r.ok or r.value != want:
                rr.fail('BaseTable.load_json_files:order', lj.where, 'contents are %s; expected master tables, local tables, then the in-stream entries last (later entries '
                        'override earlier ones)' % (r.value if r.ok else r.describe(),))
    # TableB.__init__: later contents override earlier ones
    tb = repo.own_method('TableB', '__init__')

    class TB(PlumbInterp):
        def on_call(self2, text, callee, args, kwargs, node, frame):
            if text == 'self.load_json_files':
                return [{'001001': ['A', 'u', 0, 0, 8, '', 0, 0]}, {'001001': ['B', 'u', 0, 0, 9, '', 0, 0], '048001': ['C', 'u', 1, 2, 3, '', 0, 0]}]
            if text == 'ElementDescriptor':
                return Obj('ElementDescriptor', {'id': args[0], 'name': args[1], 'nbits': args[5]})
            if isinstance(callee, UnknownMethod) and callee.name == '__init__':
                return None
            return PlumbInterp.on_call(self2, text, callee, args, kwargs, node, frame)
    it3 = TB(repo, 'TableB')
    res = it3.run_function(tb, lambda: {'self': Obj('TableB', {}), 'args': ('K',), 'kwargs': {}}, self_class='TableB')
    rr.instance('TableB.__init__: a later definition of the same element replaces the earlier one')
    for r in res:
        d = r.locals['self'].fields.get('descriptors') if r.ok else None
        ok = isinstance(d, dict) and set(d) == {1001, 48001} and d[1001].fields.get('name') == 'B' and d[48001].fields.get('name') == 'C'
        if not ok:
            rr.fail('TableB.__init__:override', tb.where, 'descriptors built: %s' % (dict((k, v.fields.get('name')) for k, v in d.items()) if isinstance(d, dict) else r.describe()))
    # scanner: tables extracted from a fully decoded message, then invalidate, then add_extra_entries(b, d) -- before the message is yielded
    from sa.rules import c11
    msgs, stream = c11.scenario()
    sc = c11.Scanner(repo, msgs, stream)
    gen = repo.func('decoder', 'generate_bufr_message')
    res = sc.run_function(gen, lambda: {'decoder': Obj('DecoderStub', {}), 's': stream, 'info_only': False, 'continue_on_error': True, 'filter_expr': None,
                                        'args': (), 'kwargs': {}})
    rr.instance('scanner registers the definitions before yielding the definition message')
    for r in res:
        seq = [(e[0], e[1]) for e in r.events if e[0] in ('tables', 'invalidate', 'add_extra_entries', 'yield')]
        names = []
        for e in r.events:
            if e[0] == 'tables':
                names.append('tables@%d' % e[1])
            elif e[0] in ('invalidate', 'add_extra_entries'):
                # (invalidate with an argument is a partial invalidation: groups built without the new entries would stay cached)
                names.append(e[0] + ('(%s)' % ','.join(e[1]) if (e[0] == 'add_extra_entries' or e[1]) else ''))
            elif e[0] == 'yield':
                names.append('yield@%d' % e[1].fields['__start'])
        want_sub = ['tables@250', 'invalidate', 'add_extra_entries(B_ENTRIES,D_ENTRIES)', 'yield@250']
        joined = ' '.join(names)
        if not r.ok or ' '.join(want_sub) not in joined:
            rr.fail('generate_bufr_message:registration', gen.where, 'event order is [%s]; expected ... %s ... (every cached table group is dropped: each was built '
                    'without the entries just defined)' % (joined, ' '.join(want_sub)))
    # a decoder that compiles templates: what it compiled before the definitions arrived was built from the old tables and must not
    # be used for the messages that follow (however that is achieved: cache cleared, manager replaced, key extended)
    msgs, stream = c11.scenario()
    sc = c11.Scanner(repo, msgs, stream)

    def mk():
        mgr = Obj('CompiledTemplateManager', {'cache': {'KEY-BEFORE': 'COMPILED-BEFORE-THE-DEFINITIONS'}, 'cache_max': 5, 'template_compiler': Obj('TemplateCompiler', {})})
        return {'decoder': Obj('DecoderStub', {'compiled_template_manager': mgr}), 's': stream, 'info_only': False, 'continue_on_error': True, 'filter_expr': None,
                'args': (), 'kwargs': {}}
    res = sc.run_function(gen, mk)
    rr.instance('templates compiled before a definition message are not used after it')
    for r in res:
        seen_defs = False
        for e in r.events:
            if e[0] == 'add_extra_entries':
                seen_defs = True
            elif e[0] == 'compiled_cache' and seen_defs:
                if 'COMPILED-BEFORE-THE-DEFINITIONS' in repr(e[2]):
                    rr.fail('generate_bufr_message:compiled-templates', gen.where, 'the message at octet %d, which follows the table definitions, is decoded by a decoder whose '
                            'compiled-template cache still holds %s: a template compiled from the earlier definitions (widths, scales, reference values and '
                            'sequence members are baked into it) is reused, because neither part of the cache key changes when definitions arrive' % (e[1], e[2]))
                break
        if not seen_defs:
            raise AnalysisError('the scripted stream did not reach the definition message')
    rr.require_floor(8)
    return rr


def rule_r3(repo):
    rr = RuleResult('C20.R3', 'NCEP replication-only sequences are completed from the following descriptor exactly when in-stream definitions exist')
    tfi = repo.own_method('BufrTableGroup', 'template_from_ids')

    class T(Interp):
        def on_call(self2, text, callee, args, kwargs, node, frame):
            if text == 'self.descriptors_from_ids':
                return [Obj('ElementDescriptor', {'id': 1001})]
            if text == 'TableGroupCacheManager.has_extra_entries':
                return self2.has
            if text == '_fix_ncep_descriptors':
                self2.event('fix')
                return args[0]
            if text == 'BufrTemplate':
                return Obj('BufrTemplate', dict(kwargs))
            return self2.NOT_HANDLED
    for has in (True, False, {}, {'048001': 1}):
        it = T(repo, 'BufrTableGroup')
        it.has = has
        res = it.run_function(tfi, lambda: {'self': Obj('BufrTableGroup', {}), 'ids': (1001,)}, self_class='BufrTableGroup')
        rr.instance('template_from_ids with has_extra_entries() == %r' % (has,))
        for r in res:
            fixed = any(e[0] == 'fix' for e in r.events)
            if not r.ok or fixed != bool(has):
                rr.fail('BufrTableGroup.template_from_ids:fix', tfi.where, 'with has_extra_entries() == %r the NCEP repair is %s' % (has, 'applied' if fixed else 'not applied'))
    # _fix_ncep_descriptors folded on small trees
    fx = repo.func('tables', '_fix_ncep_descriptors')

    def E(i):
        return Obj('ElementDescriptor', {'id': i})

    def DEL(members, x=1):
        return Obj('DelayedReplicationDescriptor', {'id': 100000 + x * 1000, 'members': list(members), 'factor': E(31001)})

    def SEQ(i, members):
        return Obj('SequenceDescriptor', {'id': i, 'name': 's', 'members': list(members)})

    def shape(v):
        out = []
        for d in v:
            if isinstance(d, Obj) and isinstance(d.fields.get('members'), list):
                out.append((d.fields['id'], shape(d.fields['members'])))
            elif isinstance(d, Obj):
                out.append(d.fields.get('id'))
            else:
                out.append(repr(d))
        return out

    class F(Interp):
        LIST_CAP = 100
        MAX_DEPTH = 40

        def on_while(self2, node, frame):
            return self2.unroll_while(node, frame, 100)

        def imported_call(self2, qual, args, kwargs, node, frame):
            if qual == 'copy.deepcopy':
                memo = args[1] if len(args) > 1 else kwargs.get('memo')
                if isinstance(memo, dict):
                    store = memo.setdefault('__copies__', {})
                    return _copy_tree(args[0], store)
                return _copy_tree(args[0])
            return Interp.imported_call(self2, qual, args, kwargs, node, frame)
    cases = [
        ('plain list untouched', [E(1001), E(12101)], [1001, 12101]),
        ('helper sequence adopts the next descriptor', [SEQ(360001, [DEL([])]), E(12101), E(1001)], [(101000, [12101]), 1001]),
        ('helper adopts a sequence', [SEQ(360001, [DEL([])]), SEQ(361001, [E(12101), E(10004)]), E(1001)], [(101000, [(361001, [12101, 10004])]), 1001]),
        ('two nesting levels', [SEQ(360001, [DEL([])]), SEQ(361002, [E(1001), SEQ(360002, [DEL([])]), E(12101)]), E(7004)],
         [(101000, [(361002, [1001, (101000, [12101])])]), 7004]),
        ('ordinary replication kept', [DEL([E(12101)]), E(1001)], [(101000, [12101]), 1001]),
        ('sequence that consists of one complete replication kept as it is', [SEQ(302036, [DEL([E(12101), E(10004)], 2)]), E(1001)],
         [(302036, [(102000, [12101, 10004])]), 1001]),
        ('sequence of one complete single-member replication kept', [E(1001), SEQ(302004, [DEL([E(20011)])]), E(12101)], [1001, (302004, [(101000, [20011])]), 12101]),
        ('the same helper sequence object used twice', (lambda h: [h, E(12101), h, E(10004), E(1001)])(SEQ(360001, [DEL([])])), [(101000, [12101]), (101000, [10004]), 1001]),
        ('the same helper sequence object used twice, nested', (lambda h: [h, SEQ(361002, [E(1001), h, E(12101)]), E(7004)])(SEQ(360002, [DEL([])])),
         [(101000, [(361002, [1001, (101000, [12101])])]), 7004]),
        ('sequence with ordinary members recursed', [SEQ(301001, [E(1001), SEQ(360001, [DEL([])]), E(12101)])], [(301001, [1001, (101000, [12101])])]),
        # the helper is recognised by its definition in the stream (a replication without members), not by the number a dictionary gives it
        ('helper sequence under another number', [SEQ(363210, [DEL([])]), E(12101), E(1001)], [(101000, [12101]), 1001]),
        ('helper sequences under other numbers, nested', [SEQ(361900, [DEL([])]), SEQ(361002, [E(1001), SEQ(348017, [DEL([])]), E(12101)]), E(7004)],
         [(101000, [(361002, [1001, (101000, [12101])])]), 7004]),
        ('helper numbered 360005 at the end of a sequence body', [SEQ(361001, [E(1001), SEQ(360005, [DEL([])]), SEQ(361003, [E(12101)])]), E(7004)],
         [(361001, [1001, (101000, [(361003, [12101])])]), 7004]),
    ]
    from sa.patheval import freeze as _freeze
    for name, tree, want in cases:
        it = F(repo, None)
        before = [_freeze(d) for d in tree]
        res = it.run_function(fx, lambda: {'descriptors': list(tree)})
        rr.instance('_fix_ncep_descriptors: %s' % name)
        if len(res) != 1:
            raise AnalysisError('_fix_ncep_descriptors forks on a concrete tree (%s)' % name)
        r = res[0]
        got = shape(r.value) if r.ok and isinstance(r.value, list) else r.describe()
        if got != want:
            rr.fail('tables._fix_ncep_descriptors', fx.where, '%s: %s becomes %s (expected %s)' % (name, shape(tree), got, want), witness={'case': name})
        # the descriptors handed in come from the table caches and are shared by every template: the repair works on copies
        if [_freeze(d) for d in tree] != before:
            rr.fail('tables._fix_ncep_descriptors:input-changed', fx.where, '%s: the descriptor objects handed in are changed in place (%s afterwards): they are cached per table '
                    'group and shared by every later template' % (name, shape(tree)), witness={'case': name})
    rr.require_floor(8)
    return rr


def rule_r6(repo, rule='C20.R6'):
    """A message of data category 11 need not be a table-definition message in the supported layout.  The definition processor is
    folded on messages of other shapes (subset count, number and kind of the top-level nodes, members of the replications): each
    must be refused with the library's error - which the scanner absorbs - and with nothing else."""
    rr = RuleResult(rule, 'a category-11 message that is not in the supported definition layout is refused with PyBufrKitError, whatever its shape')
    fi = repo.own_method('BufrTableDefinitionProcessor', 'process')
    good_nodes, good_values, _, _ = definition_message(1, 1, 1)
    val = lambda i: Obj('ValueDataNode', {'index': i, 'descriptor': el(1001)})
    seqn = Obj('SequenceNode', {'descriptor': Obj('SequenceDescriptor', {'id': 301001, 'members': [el(1001), el(1002)]}), 'members': [val(0), val(1)]})

    def rep(ids, fixed=False, n=1):
        vals = []
        return _rep_node(vals, n, 100000 + 1000 * len(ids), [el(i) for i in ids], fixed)
    cases = [
        ('two subsets', list(good_nodes), list(good_values), 2),
        ('no top-level node', [], [], 1),
        ('one top-level node', good_nodes[:1], list(good_values), 1),
        ('two top-level nodes', good_nodes[:2], list(good_values), 1),
        ('four top-level nodes', list(good_nodes) + [val(0)], list(good_values), 1),
        ('seven top-level nodes', [val(i) for i in range(7)], [1, 2, 3, 4, 5, 6, 7], 1),
        ('three plain elements', [val(0), val(1), val(2)], [1, 2, 3], 1),
        ('a sequence and two elements', [seqn, val(2), val(3)], [1, 2, 3, 4], 1),
        ('three replications of other members', [rep([1001, 1002]), rep([12101]), rep([4001, 4002, 4003])], [1, 1, 2, 1, 2800, 1, 2024, 1, 2], 1),
        ('Table A part right, the others not', [good_nodes[0], rep([12101]), rep([4001])], list(good_values), 1),
        ('Table A and B parts right, Table D part an element', [good_nodes[0], good_nodes[1], val(0)], list(good_values), 1),
        ('Table B part with one member missing', [good_nodes[0], rep(list(range(10, 20))), good_nodes[2]], list(good_values), 1),
    ]
    for name, nodes, values, nsub in cases:
        it = DefInterp(repo, 'BufrTableDefinitionProcessor')
        td = Obj('TemplateDataStub', {'decoded_nodes': list(nodes), 'decoded_values': list(values)})
        msg = Obj('BufrMessage', {'n_subsets': Obj('P', {'value': nsub}), 'template_data': Obj('P', {'value': td})})
        res = it.run_function(fi, lambda: {'self': Obj('BufrTableDefinitionProcessor', {}), 'bufr_message': msg}, self_class='BufrTableDefinitionProcessor')
        rr.instance('category-11 message of another shape: %s' % name)
        for r in res:
            if r.ok:
                rr.fail('BufrTableDefinitionProcessor:foreign:accepted', fi.where, 'a message with %s is taken for a table-definition message (returns %r)' % (name, r.value),
                        witness={'shape': name})
            elif not repo.is_subclass(r.exc.cls, 'PyBufrKitError'):
                rr.fail('BufrTableDefinitionProcessor:foreign:error-class', fi.where, 'a category-11 message with %s makes the definition processor raise %s, which is not a '
                        'PyBufrKitError: the scanner absorbs only the library error, so this one aborts the scan - also with continue-on-error' % (name, r.exc.cls),
                        witness={'shape': name})
    rr.require_floor(10)
    return rr


def rule_r7(repo, rule='C20.R7'):
    """Two definition messages in one stream (each with Table A entries of its own, as the messages of an NCEP dictionary have), folded
    through generate_bufr_message with the repository's own TableGroupCacheManager / TableGroupCache (one cache object per
    interpreter, as at run time): after the scan the in-stream entries of *both* messages are registered - a data message behind the
    second definition message may use descriptors that only the first one defined."""
    from sa.rules import c11
    from sa.patheval import UnknownMethod
    rr = RuleResult(rule, 'definitions accumulate over the definition messages of a stream: a later definition message does not drop the entries of an earlier one')
    gen = repo.func('decoder', 'generate_bufr_message')
    for kinds in (('tables', 'ok', 'tables', 'ok'), ('tables', 'tables', 'ok'), ('ok', 'tables', 'ok', 'tables', 'tables')):
        msgs, stream = c11.generated_scenario(kinds)
        defs = [m.start for m in msgs if m.category == 11]

        class S(c11.Scanner):
            def on_call(self2, text, callee, args, kwargs, node, frame):
                if text in ('TableGroupCacheManager.invalidate', 'TableGroupCacheManager.add_extra_entries'):
                    return self2.NOT_HANDLED        # the repository's own registration code
                if text.endswith('.process') and isinstance(callee, UnknownMethod) and isinstance(callee.recv, Obj) and callee.recv.cls == 'TableProcessorStub':
                    k = defs.index(args[0].fields['__start'])
                    return [{'01%d' % k: 'MESSAGE TYPE %d' % k}, {'04800%d' % (k + 1): ['ELEMENT %d' % k, 'K', 0, 0, 8, '', 0, 0]}, {'36000%d' % (k + 1): ['SEQUENCE %d' % k, []]}]
                return c11.Scanner.on_call(self2, text, callee, args, kwargs, node, frame)
        sc = S(repo, msgs, stream)
        res = sc.run_function(gen, lambda: {'decoder': Obj('DecoderStub', {}), 's': stream, 'info_only': False, 'continue_on_error': False, 'filter_expr': None,
                                            'args': (), 'kwargs': {}})
        rr.instance('stream [%s]: %d definition messages' % ('/'.join(kinds), len(defs)))
        if len(res) != 1 or not res[0].ok:
            raise AnalysisError('the scan of a scripted stream with %d definition messages does not fold to one normal path: %s' % (len(defs), [r.describe() for r in res]))
        cache = sc.class_value(repo.cls('TableGroupCacheManager'), '_TABLE_GROUP_CACHE')
        if not (isinstance(cache, Obj) and isinstance(cache.fields.get('extra_b_entries'), dict) and isinstance(cache.fields.get('extra_d_entries'), dict)):
            raise AnalysisError('TableGroupCacheManager keeps its definitions in %r: not an object with extra_b_entries / extra_d_entries' % (cache,))
        want_b = sorted('04800%d' % (k + 1) for k in range(len(defs)))
        want_d = sorted('36000%d' % (k + 1) for k in range(len(defs)))
        got_b, got_d = sorted(cache.fields['extra_b_entries']), sorted(cache.fields['extra_d_entries'])
        if got_b != want_b or got_d != want_d:
            rr.fail('generate_bufr_message:definitions-accumulate', gen.where, 'stream [%s]: after the scan the registered in-stream elements are %s and sequences %s; the %d '
                    'definition messages defined %s and %s - entries of an earlier definition message are dropped when a later one arrives' % (
                        '/'.join(kinds), got_b, got_d, len(defs), want_b, want_d), witness={'stream': list(kinds)})
    rr.require_floor(3)
    return rr


def _copy_tree(v, memo=None):
    """copy.deepcopy(v, memo): an object already copied under the same memo is handed out again (as deepcopy does)"""
    if memo is None:
        memo = {}
    if isinstance(v, (Obj, list)) and id(v) in memo:
        return memo[id(v)][1]
    if isinstance(v, Obj):
        o = Obj(v.cls, {})
        memo[id(v)] = (v, o)
        for k, x in v.fields.items():
            o.fields[k] = _copy_tree(x, memo)
        return o
    if isinstance(v, list):
        out = []
        memo[id(v)] = (v, out)
        out.extend(_copy_tree(x, memo) for x in v)
        return out
    return v


def run(repo, check):
    check.run_rule(rule_r1, repo)
    check.run_rule(rule_r2, repo)
    check.run_rule(rule_r3, repo)
    check.run_rule(rule_r6, repo)
    check.run_rule(rule_r7, repo)
    from sa.rules import c11 as _c11, c13 as _c13
    from sa.rules.common import share
    share(check, repo, _c11.rule_r1, 'C20.R4', 'the scanner extracts and registers the definitions of every table-definition message it passes - also one that a filter '
          'expression keeps from being yielded - from a full decode, before the next message is read (shared with C11.R1)', args=(check.tier,),
          keep=lambda f: 'tables' in f.key)
    share(check, repo, _c13.rule_r7, 'C20.R5', 'objects built from the tables are cached only in the table-group cache, which the scanner empties when definitions arrive: '
          'no other process-wide store can keep templates or descriptors of the old definitions (shared with C13.R7)')
    check.assumptions = ['only the NCEP definition-message layout (the one the code asserts) is covered',
                         'that a data message decodes according to the registered entries follows from C01 once the tables hold them; decoding itself is not re-decided here']
