"""
C03  Decode/encode round trip: no silent alteration (structural part).

R1 no wrap / clip on the flow from the user value to the bit writer
R2 round, not truncate (= C02.R2)        R3 the flat JSON carries decoded values unchanged; one codec (latin-1)
R4 reads back: codec symmetry (= C02.R1)
"""
from __future__ import print_function

import ast

from sa.model import AnalysisError, norm
from sa.patheval import Obj, Sym, Top, Interp
from sa.report import RuleResult
from sa.rules import codec, c19
from sa.rules.codec import run_primitive, sym_find

FORBIDDEN_OPS = {'mod': '%', 'and': '&', 'or': '|', 'xor': '^', 'lshift': '<<', 'rshift': '>>', 'min': 'min()', 'max': 'max()',
                 'abs': 'abs()', 'floordiv': '//', 'pow': '**'}


def rule_r1(repo):
    rr = RuleResult('C03.R1', 'a value that does not fit its field is never wrapped modulo 2^n or clipped on its way to the bit writer')
    n_sites = 0
    for prim in ('numeric', 'codeflag', 'new_refval'):
        for mode in codec.MODES:
            m = 'process_%s_%s' % (prim, mode)
            fi, recs, _ = run_primitive(repo, 'Encoder', m)
            for r in codec.require_paths(recs, fi):
                vals = [(e[2][0], e[3]) for e in r.io() if e[2]] + [(e[1], e[2]) for e in r.events if e[0] == 'valstore']
                for v, where in vals:
                    n_sites += 1
                    bad = sorted(set(s.op for s in sym_find(v, lambda s: s.op in FORBIDDEN_OPS)))
                    if bad:
                        rr.fail('Encoder.%s:alter' % m, where, 'path [%s]: the written value %r applies %s to the user value: an out-of-range value would be '
                                'wrapped or clipped instead of refused' % (r.desc(), v, ', '.join(FORBIDDEN_OPS[b] for b in bad)))
                # a comparison-selected clamp: an ordering decision on the value itself
                for e in r.events:
                    if e[0] == 'decide' and isinstance(e[1], str) and e[1].startswith(('cmpLt', 'cmpGt')) and \
                            any(t in e[1] for t in ('elem(decoded_values', 'V0', 'Vi')):
                        rr.fail('Encoder.%s:clamp' % m, fi.where, 'path [%s]: the routine orders the user value against a bound (%s): a clamp would hide a range error' % (r.desc(), e[1]))
            rr.instance('Encoder.%s: written-value expressions free of wrapping operators' % m)
    # the writer hands the value to bitstring unchanged (so bitstring refuses what does not fit)
    W = 'BitStringBitWriter'
    for n in range(1, 65):
        for v in (2 ** n, 2 ** n + 5, -1):
            fi, res = c19.call(repo, W, 'write_uint', [v, n])
            r, err = c19.single(res, fi, 'write_uint(%d, %d)' % (v, n))
            if err:
                rr.fail('%s.write_uint:overflow' % W, fi.where, err)
                continue
            wr = [c19.parse(e[1]) for e in r.events if e[0] == 'write']
            if len(wr) != 1 or not wr[0] or wr[0][2] != str(v) or wr[0][1] != n:
                rr.fail('%s.write_uint:overflow' % W, fi.where, 'write_uint(%d, nbits=%d) hands %s to bitstring: the out-of-range value is altered before the range check' % (
                    v, n, [e[1] for e in r.events if e[0] == 'write']), witness={'value': v, 'nbits': n})
        rr.instance('write_uint passes out-of-range values of width %d through unchanged' % n)
    rr.extra['written_value_sites'] = n_sites
    rr.require_floor(70)
    return rr


def rule_r3(repo):
    rr = RuleResult('C03.R3', 'the flat JSON rendering is the decoded value lists themselves; bytes <-> text use one codec on both sides')
    fi = repo.own_method('FlatJsonRenderer', '_render_template_data')
    it = Interp(repo, 'FlatJsonRenderer')
    res = it.run_function(fi, lambda: {'self': Obj('FlatJsonRenderer', {}),
                                       'template_data': Obj('TemplateDataStub', {'decoded_values_all_subsets': Sym('VALUES_ALL')})},
                          self_class='FlatJsonRenderer')
    rr.instance('FlatJsonRenderer._render_template_data returns decoded_values_all_subsets')
    if len(res) != 1 or not res[0].ok or repr(res[0].value) != 'VALUES_ALL':
        rr.fail('FlatJsonRenderer._render_template_data', fi.where, 'the flat JSON of the data section is %s, not the decoded value lists unchanged' % (
            [repr(r.value) if r.ok else r.describe() for r in res]))
    # parameters of the other sections are passed through unchanged as well: the whole renderer folded on a scripted message
    fm = repo.own_method('FlatJsonRenderer', '_render_bufr_message')
    from sa.rules.c04 import SectionModel, SecInterp, param
    rows = Sym('VALUES_ALL')
    td = Obj('TemplateDataStub', {'decoded_values_all_subsets': rows})
    secs = [SectionModel([param('start_signature', 32, 'bytes', value=Sym('SIG')), param('length', 24, value=Sym('LEN'))], {'index': 0}),
            SectionModel([param('section_length', 24, value=Sym('SL3')), param('n_subsets', 16, value=Sym('NSUB')),
                          param('unexpanded_descriptors', 0, 'unexpanded_descriptors', value=Sym('DESCS'))], {'index': 3}),
            SectionModel([param('section_length', 24, value=Sym('SL4')), param('template_data', 0, 'template_data', value=td)], {'index': 4}),
            SectionModel([param('stop_signature', 32, 'bytes', value=Sym('STOP'))], {'index': 5})]
    it2 = SecInterp(repo, 'FlatJsonRenderer')
    res = it2.run_function(fm, lambda: {'self': Obj('FlatJsonRenderer', {}), 'bufr_message': Obj('BufrMessage', {'sections': secs})}, self_class='FlatJsonRenderer')
    rr.instance('FlatJsonRenderer._render_bufr_message passes every parameter value through unchanged')
    want = [['SIG', 'LEN'], ['SL3', 'NSUB', 'DESCS'], ['SL4', 'VALUES_ALL'], ['STOP']]
    got = None
    if len(res) == 1 and res[0].ok and isinstance(res[0].value, list) and all(isinstance(x, list) for x in res[0].value):
        got = [[repr(v) for v in sec] for sec in res[0].value]
    if got != want:
        rr.fail('FlatJsonRenderer._render_bufr_message', fm.where, 'a message with parameters %s is rendered as %s: the flat JSON must carry every parameter value '
                '(and the decoded value lists) unchanged, section by section' % (want, got if got is not None else [r.describe() if not r.ok else repr(r.value) for r in res]))
    # codec agreement, folded over all 256 byte values
    enc = repo.own_method('EntityEncoder', 'default')
    bad = None
    for i in range(256):
        bi = c19.BitInterp(repo, 'EntityEncoder')
        res = bi.run_function(enc, lambda: {'self': Obj('EntityEncoder', {}), 'o': bytes([i])}, self_class='EntityEncoder')
        if len(res) != 1 or not res[0].ok or not isinstance(res[0].value, str):
            bad = (i, 'EntityEncoder.default gives %s' % [r.describe() if not r.ok else repr(r.value) for r in res])
            break
        text = res[0].value
        fi2, res2 = c19.call(repo, 'BitStringBitWriter', 'write_bytes', [text, 1])
        r2, err = c19.single(res2, fi2, 'write_bytes(%r, 1)' % text)
        got = None
        if r2 is not None:
            wr = [e[1] for e in r2.events if e[0] == 'write']
            if len(wr) == 1 and isinstance(wr[0], Obj):
                got = wr[0].fields.get('bytes')
        if got != bytes([i]):
            bad = (i, 'byte 0x%02x is rendered as %r and written back as %r' % (i, text, got if got is not None else err))
            break
    rr.instance('bytes -> JSON text -> bytes is the identity for all 256 byte values')
    if bad:
        rr.fail('codec:latin-1', enc.where, bad[1] + ' (EntityEncoder and BitStringBitWriter.write_bytes must use the same 8-bit codec)', witness={'byte': bad[0]})
    rr.require_floor(3)
    return rr


def run(repo, check):
    from sa.rules import c02
    check.run_rule(rule_r1, repo)
    from sa.rules.common import share as _share0
    _share0(check, repo, c02.rule_r2, 'C03.R2', 'round before int at the three numeric encode sites (shared with C02.R2)')
    check.run_rule(rule_r3, repo)
    _share0(check, repo, c02.rule_r1, 'C03.R4', 'what the encoder writes is what the decoder reads: codec symmetry (shared with C02.R1)', args=(check.tier,))
    check.run_rule(c02.rule_r6, repo, 'C03.R5')
    from sa.rules import c01, c05, c19
    from sa.rules.common import share
    share(check, repo, c19.rule_r1, 'C03.R6', 'reader and writer agree per type and width (shared with C19.R1)', args=(check.tier,))
    # (C03.R7, the symbolic form of "the all-equal shortcut never drops a missing entry", is decided by the column round trip R9)
    share(check, repo, c01.rule_r6, 'C03.R8', 'decoder arithmetic of the numeric primitives (shared with C01.R6)')
    from sa.rules import columns
    share(check, repo, columns.rule_columns, 'C03.R9', args=(check.tier, 'C03.R9'))
    from sa.rules import c07 as _c07, c08 as _c08
    share(check, repo, _c07.rule_r6, 'C03.R10', 'marker values are written with the coding of the element the bitmap of the subset being written designates (shared with '
          'C07.R6)', keep=lambda f: 'Encoder' in f.key)
    share(check, repo, _c08.rule_r5, 'C03.R11', 'an encoder that compiles templates never writes a message with the template of another table version (shared with C08.R5)')
    from sa.rules import c02 as _c02b
    share(check, repo, _c02b.rule_roundtrip, 'C03.R12', 'decode then encode on concrete templates gives back the fields that were read (shared with C02.R15)', args=('C03.R12',))
    from sa.rules import c01 as _c01b
    share(check, repo, _c01b.rule_reference, 'C03.R13', 'the width, scale and reference under which a value is quantised and range-checked are the ones FM-94 dictates for the '
          'operators in force (independent reading; shared with C01.R14): with R12 this holds for the writing side too', args=('C03.R13',))
    check.assumptions = ['range refusal itself is bitstring\'s: a value handed to it unchanged that does not fit the field raises (trusted base)',
                         'the half-unit quantisation bound and the byte-identity of repeated round trips are runtime facts and are not decided']
