"""
C05  Compression is transparent (structural part).

R1 sibling agreement of the numeric / code-flag / string compressed routines in both coders
R2 shortcut flags of _next_compressed_values_and_status_from_all_subsets
R3 list sharing between subsets only when compressed
R4 the decoder reads the difference width it was told, not the one the encoder would choose
"""
from __future__ import print_function

import ast

from sa.model import AnalysisError, norm
from sa.patheval import Obj, Sym, Top
from sa.report import RuleResult
from sa.rules import codec
from sa.rules.codec import run_primitive, lin_eq, sym_find, skeleton


def _decisions(r):
    return dict((e[1], e[2]) for e in r.events if e[0] == 'decide')


def rule_r1(repo):
    rr = RuleResult('C05.R1', 'compressed siblings (numeric, code/flag, string; encoder and decoder) follow the same column rules')
    # ---- encoder: width from max - min + 1, missing difference = all ones of the difference width, shortcuts => width 0
    for prim in ('numeric', 'codeflag'):
        m = 'process_%s_compressed' % prim
        fi, recs, _ = run_primitive(repo, 'Encoder', m)
        oks = codec.require_paths(recs, fi, 3)
        n_nbd = n_short = 0
        for r in oks:
            ios = r.io()
            dec = _decisions(r)
            short = [k for k, v in dec.items() if v and (k.startswith('cmpEq(m_count') or k.startswith('cmpIs(V0'))]
            for e in ios:
                for nb in sym_find(e[2][0], lambda s: s.op == 'NBD'):
                    n_nbd += 1
                    if not lin_eq(nb.args[0], Sym('add', Sym('sub', Sym('MAX'), Sym('MIN')), 1)):
                        rr.fail('Encoder.%s:width' % m, e[3], 'path [%s]: the difference width is nbits_for_uint(%r); FM-94 needs room for max - min '
                                'plus the all-ones missing marker, i.e. nbits_for_uint(max - min + 1)' % (r.desc(), nb.args[0]))
            all_equal = any(k.startswith('cmpEq(m_count') and v for k, v in dec.items())
            if all_equal:
                n_short += 1
                # width field must be the constant 0 and no per-subset differences are written
                if len(ios) != 2 or ios[1][2][0] != 0:
                    rr.fail('Encoder.%s:shortcut' % m, fi.where, 'path [%s]: with all subsets equal (or all missing) the routine writes %s; '
                            'expected minimum + width 0 and nothing else' % (r.desc(), [(e[1], repr(e[2][0])) for e in ios]))
                all_missing = any(k.startswith('cmpIs(V0') and v for k, v in dec.items()) or r.bindings().get('V0', 0) is None
                if all_missing:
                    v = ios[0][2][0]
                    if not (isinstance(v, Sym) and v.op == 'MISSING'):
                        rr.fail('Encoder.%s:all-missing' % m, fi.where, 'path [%s]: all subsets missing but the minimum is written as %r (expected all ones)' % (r.desc(), v))
        rr.instance('Encoder.%s: %d width computations, %d shortcut paths' % (m, n_nbd, n_short))
        if n_nbd == 0 or n_short == 0:
            raise AnalysisError('Encoder.%s: width computation / shortcut paths not recognised (%d, %d)' % (m, n_nbd, n_short))
    # ---- decoder siblings
    for prim in ('numeric', 'codeflag'):
        m = 'process_%s_compressed' % prim
        fi, recs, _ = run_primitive(repo, 'Decoder', m)
        saw = {'min_missing_ok': 0, 'min_missing_bad': 0, 'equal': 0, 'diff': 0}
        for r in recs:
            b = r.bindings()
            vals = [e[2] for e in r.events if e[0] == 'append' and e[1] == 'decoded_values@subset']
            if b.get('io0', 0) is None:
                if r.ok:
                    saw['min_missing_ok'] += 1
                    if b.get('io1') != 0:
                        rr.fail('Decoder.%s:min-missing-width' % m, fi.where, 'an all-ones minimum with a non-zero difference width is accepted')
                else:
                    saw['min_missing_bad'] += 1
            elif b.get('io1') == 0 and r.ok:
                saw['equal'] += 1
                if len(r.io()) != 2:
                    rr.fail('Decoder.%s:width0' % m, fi.where, 'with difference width 0 the decoder still reads per-subset fields')
            elif r.ok and len(r.io()) == 3:
                saw['diff'] += 1
        rr.instance('Decoder.%s: %s' % (m, saw))
        if not (saw['min_missing_ok'] and saw['equal'] and saw['diff']):
            rr.fail('Decoder.%s:cases' % m, fi.where, 'the three column cases (all missing / all equal / differences) are not all present: %s' % saw)
    # ---- strings: zero base + full-width increments; decoder strips a zero (or all-ones) base
    m = 'process_string_compressed'
    fi, recs, _ = run_primitive(repo, 'Encoder', m)
    forms = set()
    for r in codec.require_paths(recs, fi, 3):
        ios = r.io()
        first = ios[0][2][0]
        second = ios[1][2][0]
        forms.add((repr(first), repr(second), len(ios)))
    rr.instance('Encoder.%s: %d distinct column forms' % (m, len(forms)))
    want = {("mul('\\x00',P:nbytes_min_value)", 'P:nbytes_min_value'), ("mul('ÿ',P:nbytes_min_value)", '0'), ('V0', '0')}
    got_norm = set((a, b2) for a, b2, c in forms)
    # (the zero-base form writes per-subset increments unless the width itself is 0)
    if not any(c == 3 and b2 == 'P:nbytes_min_value' for a, b2, c in forms):
        rr.fail('Encoder.%s:increments' % m, fi.where, 'no path writes per-subset string increments')
    if got_norm != want:
        rr.fail('Encoder.%s:forms' % m, fi.where, 'string column forms are %s; expected all-missing = all ones + width 0, all-equal = the value + width 0, '
                'otherwise a zero base with full-width increments' % sorted(got_norm))
    fi, recs, _ = run_primitive(repo, 'Decoder', m)
    ok_diff = False
    for r in recs:
        vals = [e[2] for e in r.events if e[0] == 'append' and e[1] == 'decoded_values@subset']
        if r.ok and len(r.io()) == 3 and vals and isinstance(vals[0], Sym) and vals[0].op == 'add':
            ok_diff = True
    rr.instance('Decoder.%s: increments are appended to the base' % m)
    if not ok_diff:
        rr.fail('Decoder.%s:increment' % m, fi.where, 'no path reconstructs a string as base + increment')
    rr.require_floor(6)
    return rr


def rule_r2(repo):
    rr = RuleResult('C05.R2', 'all_missing implies all_equal with a missing common value; one descriptor and one index per call')
    m = '_next_compressed_values_and_status_from_all_subsets'
    fi, recs, _ = run_primitive(repo, 'Encoder', m, is_compressed=True)
    for r in codec.require_paths(recs, fi, 1):
        v = r.res.value
        if not (isinstance(v, tuple) and len(v) == 3):
            raise AnalysisError('%s does not return a 3-tuple' % m)
        values, all_equal, all_missing = v
        dec = _decisions(r)
        rr.instance('path [%s]: all_equal=%r all_missing=%r' % (r.desc(), all_equal, all_missing))
        if repr(values) != 'VALUES':
            rr.fail('Encoder.%s:values' % m, fi.where, 'the first result is %r, not the values gathered from all subsets' % (values,))
        if not (isinstance(all_equal, Sym) and repr(all_equal) == 'cmpEq(m_count(VALUES,V0),NSUB)'):
            if isinstance(all_equal, Sym) and (codec.sym_has(all_equal, 'MIN') or codec.sym_has(all_equal, 'MAX')):
                rr.fail('Encoder.%s:all-equal-minmax' % m, fi.where, 'all_equal is computed as %r from minmax(), which skips missing entries: a column mixing one '
                        'repeated value with missing entries would be written as all-equal and the missing entries lost' % (all_equal,))
                continue
            if not isinstance(all_equal, bool):
                raise AnalysisError('%s: all_equal is %r; only `values.count(values[0]) == n_subsets` is modelled' % (m, all_equal))
        eq_true = dec.get('cmpEq(m_count(VALUES,V0),NSUB)')
        if eq_true is None:
            if all_missing is not False:
                rr.fail('Encoder.%s:all-missing' % m, fi.where, 'all_missing is %r on a path that never established that all subsets are equal: a column whose '
                        'first entry is missing would be written as all-missing' % (all_missing,))
        elif eq_true:
            if repr(all_missing) != 'cmpIs(V0,None)':
                rr.fail('Encoder.%s:all-missing' % m, fi.where, 'when all subsets are equal all_missing is %r; expected `values[0] is None`' % (all_missing,))
        else:
            if all_missing is not False:
                rr.fail('Encoder.%s:all-missing' % m, fi.where, 'when the subsets differ all_missing is %r; it must be False' % (all_missing,))
        nd = len(r.appends('decoded_descriptors'))
        adv = [e for e in r.events if e[0] == 'statestore' and e[1] == 'idx_value']
        if nd != 1 or len(adv) != 1 or not lin_eq(adv[0][2], Sym('add', Sym('IDX'), 1)):
            rr.fail('Encoder.%s:lockstep' % m, fi.where, '%d descriptor appends, index moves %s' % (nd, [repr(a[2]) for a in adv]))
    rr.require_floor(2)
    return rr


def _shared_list_sites(fn):
    """[(node, inside_compressed_arm)] for `[<mutable display>] * n` expressions."""
    out = []

    def visit(node, arm):
        if isinstance(node, ast.If):
            t = norm(node.test)
            comp = t in ('is_compressed', 'self.is_compressed')
            notcomp = t in ('not is_compressed', 'not self.is_compressed')
            for s in node.body:
                visit(s, 'compressed' if comp else ('uncompressed' if notcomp else arm))
            for s in node.orelse:
                visit(s, 'uncompressed' if comp else ('compressed' if notcomp else arm))
            return
        if isinstance(node, ast.BinOp) and isinstance(node.op, ast.Mult):
            for side in (node.left, node.right):
                if isinstance(side, ast.List) and any(isinstance(e, (ast.List, ast.Dict, ast.Set, ast.Call)) for e in side.elts):
                    out.append((node, arm))
        for ch in ast.iter_child_nodes(node):
            visit(ch, arm)
    visit(fn, None)
    return out


def rule_r3(repo):
    from sa.rules import c06
    return c06.rule_alias(repo, 'C05.R3', (False, True))


def rule_r10(repo):
    from sa.rules import c06
    rr = c06.rule_r3(repo, 'C05.R10', (True,))
    rr.title = 'compressed data are wired once, on the records all subsets share (fold of wire())'
    return rr


def rule_r4(repo):
    rr = RuleResult('C05.R4', 'per-subset differences are read with the width carried in the 6-bit field')
    for prim in ('numeric', 'codeflag', 'string'):
        m = 'process_%s_compressed' % prim
        fi, recs, _ = run_primitive(repo, 'Decoder', m)
        loops = set()
        for r in recs:
            sk = skeleton(r, 'Decoder')
            if ('loop_begin',) in sk:
                i = sk.index(('loop_begin',))
                loops.add(sk[i + 1])
        rr.instance('Decoder.%s: per-subset field %s' % (m, sorted(loops)))
        kind = 'bytes' if prim == 'string' else 'uint'
        if loops != {(kind, ('F', 1))}:
            rr.fail('Decoder.%s:diff-width' % m, fi.where, 'per-subset fields are read as %s; expected (%s, value of the 6-bit width field)' % (sorted(loops), kind))
    rr.require_floor(3)
    return rr


def rule_r7(repo):
    rr = RuleResult('C05.R7', 'an all-equal string column decodes to the same bytes compressed and uncompressed (missing = all ones included)')
    m = 'process_string_compressed'
    for val in (b'\xff\xff', b'AB', b'A ', b'\x00\x00', b'\x00A'):
        fi, recs, _ = run_primitive(repo, 'Decoder', m, reads=[val], params_over={'nbytes_min_value': 2})
        hit = False
        for r in recs:
            if not r.ok:
                continue
            b = r.bindings()
            if b.get('io1') == 0 or len(r.io()) == 2:
                hit = True
                vals = [e[2] for e in r.events if e[0] == 'append' and e[1] == 'decoded_values@subset']
                if vals != [val]:
                    rr.fail('Decoder.%s:all-equal' % m, fi.where, 'a 2-byte column whose common value is %r (difference width 0) decodes to %r; uncompressed '
                            'decoding of the same field gives %r' % (val, vals, val), witness={'value': repr(val)})
        rr.instance('all-equal string column %r' % (val,))
        if not hit:
            raise AnalysisError('Decoder.%s: no all-equal path found' % m)
    rr.require_floor(3)
    return rr

def rule_pipeline_compressed(repo, rule='C05.R13'):
    """End-to-end fold on the concrete templates of rules/pipeline.py: the values of a subset (as the uncompressed decoder walk produces
    them) are given to the encoder walk in compressed mode - twice the same subset, and a second subset whose numeric leaves differ -
    and the fields it writes are read by the decoder walk in compressed mode.  Every subset must read back as it was given, with the
    labels and attribute links of the uncompressed decoding; a field read with another kind or width than it was written with is a
    layout disagreement."""
    from sa.rules import pipeline as P
    from sa.rules.c09 import TextInterp
    rr = RuleResult(rule, 'compression is transparent, folded end to end on concrete templates: compressed encoding and decoding give back the subsets, with the labels and links of the uncompressed decoding')

    def same(a, b):
        if isinstance(a, float) or isinstance(b, float):
            return a is not None and b is not None and not isinstance(a, bytes) and not isinstance(b, bytes) and abs(a - b) <= 1e-9 * max(1.0, abs(a))
        return a == b

    def labels(descs):
        it = TextInterp(repo, None)
        out = []
        for d in descs:
            fi = repo.method(d.cls, '__str__')
            r = it.run_function(fi, lambda: {'self': d}, self_class=d.cls)
            out.append(r[0].value if len(r) == 1 and r[0].ok else '?')
        return out
    for name in sorted(P.templates()):
        members, script = P.templates()[name]
        o = P.run_template(repo, name)
        key = 'compressed:%s' % name.split(' (')[0].replace(' ', '-').replace(',', '')
        if not o.decode.ok:
            continue        # reported by C01.R14
        # a second subset: same structure (replication factors, bitmap bits, code figures untouched), other temperatures / pressures
        other = []
        reads = list(o.reads)
        for d, v in zip(o.descs, o.vals):
            f = d.fields
            kind_read = None
            if not (d.cls == 'OperatorDescriptor' and f['id'] // 1000 != 205):
                kind_read = reads.pop(0)[0] if reads else None
            if kind_read == 'read_int':
                other.append(v)     # a new reference value (203YYY) is the same in every subset of a compressed message
                continue
            if d.cls == 'ElementDescriptor' and f.get('unit') in ('K', 'PA') and isinstance(v, (int, float)) and not isinstance(v, bool):
                other.append(round(v + 10 ** -f.get('scale', 0), 6) if f.get('scale', 0) >= 0 else v + 10 ** -f.get('scale', 0))
            else:
                other.append(v)
        for label, subsets in (('two equal subsets', [list(o.vals), list(o.vals)]), ('two subsets with different measurements', [list(o.vals), other]),
                               ('one subset', [list(o.vals)])):
            rr.instance('template "%s", %s' % (name, label))
            e, d, st, rd = P.code_compressed(repo, members, subsets)
            if not e.ok:
                rr.fail(key, 'pybufrkit/encoder.py', 'template "%s", %s: the compressed encoder walk ends in %s on values the uncompressed decoder produced (%s)' % (
                    name, label, e.exc.cls, _short_v(subsets[0])), witness={'template': name, 'case': label})
                continue
            if not d.ok:
                rr.fail(key, 'pybufrkit/decoder.py', 'template "%s", %s: the compressed decoder walk ends in %s on what the encoder wrote%s' % (
                    name, label, d.exc.cls, ' (%s)' % rd.problem if rd.problem else ''), witness={'template': name, 'case': label})
                continue
            got = st.fields['decoded_values_all_subsets']
            problems = []
            if len(rd.log) != rd.k:
                problems.append('%d of the %d fields written are not read' % (len(rd.log) - rd.k, len(rd.log)))
            for k, (g, w) in enumerate(zip(got, subsets)):
                if len(g) != len(w) or not all(same(a, b) for a, b in zip(g, w)):
                    dd = [(i, a, b) for i, (a, b) in enumerate(zip(g, w)) if not same(a, b)][:2] or [('count', len(g), len(w))]
                    problems.append('subset %d reads back differently, first (index, read, given): %s' % (k, dd[0]))
            if labels(st.fields['decoded_descriptors_all_subsets'][0]) != labels(o.descs):
                problems.append('labels %s, uncompressed %s' % (labels(st.fields['decoded_descriptors_all_subsets'][0]), labels(o.descs)))
            if dict(st.fields['bitmap_links_all_subsets'][0]) != dict(o.links):
                problems.append('links %s, uncompressed %s' % (dict(st.fields['bitmap_links_all_subsets'][0]), dict(o.links)))
            if problems:
                rr.fail(key, 'pybufrkit/encoder.py', 'template "%s", %s: %s' % (name, label, '; '.join(problems)), witness={'template': name, 'case': label})
    rr.require_floor(40)
    return rr


def _short_v(v):
    s = repr(v)
    return s if len(s) < 160 else s[:157] + '...'


def rule_state_mode(repo, rule):
    rr = RuleResult(rule, 'the data section is processed in the mode the header declares: CoderState gets the message\'s compression flag and subset count')
    import ast as _ast
    from sa.patheval import Interp, FuncRef, ClassRef

    from sa.rules.common import callee_qual

    class TD(Interp):
        # calls are recognised by what they resolve to, not by the names of the variables they go through
        def on_call(self, text, callee, args, kwargs, node, frame):
            q = callee_qual(callee) or text
            if q in ('class:CoderState', 'CoderState'):
                self.event('state', list(args) + [kwargs[k] for k in ('is_compressed', 'n_subsets') if k in kwargs][len(args):])
                return Obj('CoderState', {'decoded_descriptors_all_subsets': Sym('DD'), 'decoded_values_all_subsets': Sym('DV'), 'bitmap_links_all_subsets': Sym('BL'),
                                          'idx_value': 0})
            if q == 'BufrMessage.build_template':
                return (Sym('TEMPLATE'), Sym('TG'))
            if q.split('.')[-1] in ('process_template', 'process_compiled_template') or text == 'template_processing_func':
                self.event('process', len([e for e in self.path.events if e[0] == 'switch']))
                return None
            if q == 'CoderState.switch_subset_context':
                self.event('switch', args[1] if len(args) > 1 else (args[0] if args else kwargs.get('idx_subset')))
                return None
            if q in ('class:TemplateData', 'TemplateData'):
                self.event('template_data', list(args))
                return Obj('TemplateData', {})
            if text == 'range':
                return [0, 1, 2] if args and isinstance(args[0], Sym) else self.NOT_HANDLED
            return self.NOT_HANDLED
    for coder in ('Decoder', 'Encoder'):
        fi = repo.own_method(coder, 'process_template_data')
        for comp in (True, False):
            it = TD(repo, coder)

            def mk():
                bm = Obj('BufrMessage', {'is_compressed': Obj('SectionParameter', {'value': comp}), 'n_subsets': Obj('SectionParameter', {'value': Sym('NSUB')})})
                loc = {'self': Obj(coder, {'compiled_template_manager': None, 'tables_root_dir': Sym('ROOT')}), 'bufr_message': bm}
                for p in fi.params[2:]:
                    loc[p] = Sym('BITIO') if p.startswith('bit_') else Obj('SectionParameter', {'value': Sym('INPUT_VALUES')})
                return loc
            res = it.run_function(fi, mk, self_class=coder)
            rr.instance('%s.process_template_data(compressed=%s)' % (coder, comp))
            for r in res:
                if not r.ok:
                    rr.fail('%s.process_template_data:raise' % coder, fi.where, 'raises %s' % r.exc.cls)
                    continue
                st = [e[1] for e in r.events if e[0] == 'state']
                if len(st) != 1 or st[0][0] is not comp or repr(st[0][1]) != 'NSUB':
                    rr.fail('%s.process_template_data:state-mode' % coder, fi.where,
                            'with the header flag is_compressed=%s the coder state is created with %s; expected exactly the header\'s flag and subset count' % (
                                comp, [repr(a) for a in st[0]] if st else 'nothing'), witness={'compressed': comp})
                proc = [e[1] for e in r.events if e[0] == 'process']
                sw = [e[1] for e in r.events if e[0] == 'switch']
                if comp and (len(proc) != 1 or sw):
                    rr.fail('%s.process_template_data:compressed-once' % coder, fi.where, 'compressed data are processed %d times with %d subset switches (expected once, none)' % (len(proc), len(sw)))
                if not comp and (proc != [1, 2, 3] or sw != [0, 1, 2]):
                    rr.fail('%s.process_template_data:per-subset' % coder, fi.where, 'uncompressed data: switches %s, processing after %s switches (expected one switch then one processing per subset)' % (sw, proc))
                tdv = [e[1] for e in r.events if e[0] == 'template_data']
                if len(tdv) != 1 or tdv[0][1] is not comp:
                    rr.fail('%s.process_template_data:template-data-mode' % coder, fi.where, 'TemplateData is built with compression flag %r' % (tdv[0][1] if tdv else None,))
    rr.require_floor(4)
    return rr


def run(repo, check):
    from sa.rules import c02
    # (R1 / R2 of the first rounds - symbolic case analysis of the compressed siblings - generated infeasible paths on refactored code
    #  (a flag computed before its use, a helper returning two flags) and are replaced by the column round-trip fold R12, which decides
    #  the same obligations on the values actually written and read)
    check.run_rule(rule_r3, repo)
    check.run_rule(rule_r10, repo)
    check.run_rule(rule_r4, repo)
    r5 = check.call(c02.rule_r1, repo, check.tier)
    r5.rule = 'C05.R5'
    r5.title = 'codec symmetry of the compressed primitives (shared with C02.R1)'
    r5.findings = [f for f in r5.findings if 'compressed' in f.key and 'uncompressed' not in f.key]
    for f in r5.findings:
        f.rule = 'C05.R5'
    check.add(r5)
    r6 = check.call(c02.rule_r3, repo)
    r6.rule = 'C05.R6'
    r6.title = 'missing difference = all ones of the difference width (shared with C02.R3)'
    r6.findings = [f for f in r6.findings if 'compressed' in f.key and 'uncompressed' not in f.key]
    for f in r6.findings:
        f.rule = 'C05.R6'
    check.add(r6)
    check.run_rule(rule_r7, repo)
    check.run_rule(rule_state_mode, repo, 'C05.R8')
    check.run_rule(rule_pipeline_compressed, repo)
    from sa.rules import c01
    r9 = check.call(c01.rule_r7, repo)
    r9.rule = 'C05.R9'
    r9.title = 'missing rules at the compressed decode sites equal the uncompressed ones (shared with C01.R7)'
    r9.findings = [f for f in r9.findings if 'compressed' in f.key and 'uncompressed' not in f.key]
    for f in r9.findings:
        f.rule = 'C05.R9'
    check.add(r9)
    from sa.rules.common import share
    share(check, repo, c01.rule_r5, 'C05.R11', 'descriptors handed to the (compressed and uncompressed) primitives carry the width that is read (shared with C01.R5)')
    from sa.rules import columns
    share(check, repo, columns.rule_columns, 'C05.R12', args=(check.tier, 'C05.R12'))
    check.assumptions = ['nbits_for_uint is folded on both sides of every power of two up to 64 bits (R12), not for every integer',
                         'one asymmetry is deliberately not compared: only the code/flag routine re-tests min + difference against the all-ones '
                         'pattern of the element (raw all-ones numerics decode differently compressed / uncompressed; outside the stated raw domain)']
