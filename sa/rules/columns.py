"""
Column round trip of the element primitives, folded on a field-level model of the bit stream (shared by C02, C03, C05, C10).

For every column of per-subset values from a small, exhaustively enumerated domain (missing / equal / distinct entries, up to three
subsets; numeric, code/flag and character elements) PathEval evaluates

  Encoder.process_<kind>(state, writer, ...)   on a writer model that records the typed fields it is handed, and then
  Decoder.process_<kind>(state, reader, ...)   on a reader model that replays exactly those fields (a field read with another type
                                               or width than it was written with is a layout disagreement),

compressed and uncompressed, and compares what the decoder appends with the column (FM-94 value semantics: None = missing = all
ones; character values padded / cut to the field).  The decoder is also folded on hand-written compressed columns with every legal
difference width, not only the one the encoder chooses.  Nothing of /repo is imported or run; the field model stands for the bit
level, which C19 decides separately (formats handed to bitstring for widths 1..64).
"""
from __future__ import print_function

import itertools

from sa.model import AnalysisError
from sa.patheval import Interp, Native, Obj, Raise, Sym, Top
from sa.report import RuleResult


def pad_bytes(value, nbytes):
    """FM-94 character field: latin-1, cut or blank-padded to the width (what C19.R6 decides BitStringBitWriter.write_bytes does)."""
    if isinstance(value, str):
        value = value.encode('latin-1')
    if len(value) > nbytes:
        return value[:nbytes]
    return value + b' ' * (nbytes - len(value))


class FieldWriter(Native):
    def __init__(self):
        self.fields = []

    def __repr__(self):
        return 'FieldWriter'

    def call_method(self, name, args, kwargs, interp, frame, node):
        if name == 'write_uint':
            v, n = args[0], args[1]
            if isinstance(v, float) and v == int(v):
                v = int(v)
            if v is None or isinstance(v, (str, bytes, list, tuple, dict)):
                # bitstring refuses a value that is not a number (trusted base)
                raise Raise('TypeError', node, interp.where(node, frame))
            if not (isinstance(v, int) and not isinstance(v, bool) and isinstance(n, int)):
                raise AnalysisError('write_uint(%r, %r): operands do not fold to integers' % (v, n))
            if v < 0 or v >= 2 ** n or n <= 0:
                # bitstring refuses a value that does not fit (trusted base; C19 decides it is handed over unchanged)
                raise Raise('bitstring.CreationError', node, interp.where(node, frame))
            self.fields.append(('uint', n, v))
            return v
        if name == 'write_bytes':
            v, n = args[0], args[1]
            if v is None or (isinstance(v, (int, float)) and not isinstance(v, bool)):
                # BitStringBitWriter.write_bytes needs a string (len() of None is a TypeError): refusal
                raise Raise('TypeError', node, interp.where(node, frame))
            if not isinstance(v, (str, bytes)) or not isinstance(n, int):
                raise AnalysisError('write_bytes(%r, %r): operands do not fold' % (v, n))
            if n > 0:
                self.fields.append(('bytes', n, pad_bytes(v, n)))
            return v
        if name == 'write_int':
            v, n = args[0], args[1]
            if not (isinstance(v, int) and isinstance(n, int)) or abs(v) >= 2 ** (n - 1):
                raise Raise('bitstring.CreationError', node, interp.where(node, frame))
            self.fields.append(('int', n, v))
            return v
        if name == 'write_bool':
            self.fields.append(('uint', 1, 1 if args[0] else 0))
            return args[0]
        if name == 'get_pos':
            return sum(f[1] * (8 if f[0] == 'bytes' else 1) for f in self.fields)
        raise AnalysisError('the element primitives call bit_writer.%s, which the field model does not know' % name)


class FieldReader(Native):
    def __init__(self, fields):
        self.fields = list(fields)
        self.k = 0

    def __repr__(self):
        return 'FieldReader'

    def take(self, kind, n, interp, frame, node):
        if self.k >= len(self.fields):
            raise Raise('BitReadError', node, interp.where(node, frame))
        f = self.fields[self.k]
        if f[0] != kind or f[1] != n:
            interp.event('layout', 'the decoder reads %s:%s where the encoder wrote %s:%s (field %d)' % (kind, n, f[0], f[1], self.k))
            raise Raise('LayoutMismatch', node, interp.where(node, frame))
        self.k += 1
        return f[2]

    def call_method(self, name, args, kwargs, interp, frame, node):
        if name in ('read_uint', 'read_uint_or_none'):
            n = args[0]
            if not isinstance(n, int):
                raise AnalysisError('%s(%r): width does not fold' % (name, n))
            if n == 0:
                return 0
            v = self.take('uint', n, interp, frame, node)
            if name == 'read_uint_or_none' and n > 1 and v == 2 ** n - 1:
                return None
            return v
        if name == 'read_bytes':
            n = args[0]
            if not isinstance(n, int):
                raise AnalysisError('read_bytes(%r): width does not fold' % (n,))
            if n == 0:
                return b''
            return self.take('bytes', n, interp, frame, node)
        if name == 'read_int':
            return self.take('int', args[0], interp, frame, node)
        if name == 'read_bool':
            return self.take('uint', 1, interp, frame, node) == 1
        if name == 'get_pos':
            return sum(f[1] * (8 if f[0] == 'bytes' else 1) for f in self.fields[:self.k])
        raise AnalysisError('the element primitives call bit_reader.%s, which the field model does not know' % name)


class ColInterp(Interp):
    MAX_STEPS = 400000

    def on_call(self, text, callee, args, kwargs, node, frame):
        if text.startswith('log.'):
            return None
        return self.NOT_HANDLED


DESC_WIDTH = [None]      # Table B width of the descriptor when it differs from the width in force (201YYY / 207YYY)


def descriptor(kind, width):
    if DESC_WIDTH[0] is not None and kind != 'string':
        width = DESC_WIDTH[0]
    unit = {'numeric': 'K', 'codeflag': 'CODE TABLE', 'string': 'CCITT IA5'}[kind]
    return Obj('ElementDescriptor', {'id': 12101 if kind == 'numeric' else (20003 if kind == 'codeflag' else 1015), 'name': 'x', 'unit': unit,
                                     'scale': 0, 'refval': 0, 'nbits': width * (8 if kind == 'string' else 1)})


def state_obj(compressed, rows):
    return Obj('CoderState', {'is_compressed': compressed, 'n_subsets': len(rows), 'idx_value': 0, 'decoded_descriptors': [],
                              'decoded_values_all_subsets': rows, 'decoded_values': rows[0] if rows else [], 'new_refvals': {}})


def run_one(repo, coder, meth, make):
    fi = repo.method(coder, meth)
    it = ColInterp(repo, coder)
    res = it.run_function(fi, make, self_class=coder)
    return fi, res


def extra_args(kind, width, scale_powered, refval):
    return [width, scale_powered, refval] if kind == 'numeric' else [width]


def encode_column(repo, kind, column, width, compressed, scale_powered=1, refval=0):
    """-> (fields or None, description of a failure or None, refused?)"""
    meth = 'process_' + kind
    if compressed:
        w = FieldWriter()
        rows = [[v] for v in column]

        def mk():
            w.fields = []
            return dict(zip(repo.method('Encoder', meth).params,
                            [Obj('Encoder', {}), state_obj(True, [list(r) for r in rows]), w, descriptor(kind, width)] + extra_args(kind, width, scale_powered, refval)))
        fi, res = run_one(repo, 'Encoder', meth, mk)
        if len(res) != 1:
            raise AnalysisError('Encoder.%s forks into %d paths on a concrete column %r' % (meth, len(res), column))
        r = res[0]
        if not r.ok:
            return None, r.exc.cls, True
        return list(w.fields), None, False
    fields = []
    for v in column:
        w = FieldWriter()

        def mk():
            w.fields = []
            return dict(zip(repo.method('Encoder', meth).params,
                            [Obj('Encoder', {}), state_obj(False, [[v]]), w, descriptor(kind, width)] + extra_args(kind, width, scale_powered, refval)))
        fi, res = run_one(repo, 'Encoder', meth, mk)
        if len(res) != 1:
            raise AnalysisError('Encoder.%s forks into %d paths on a concrete value %r' % (meth, len(res), v))
        if not res[0].ok:
            return None, res[0].exc.cls, True
        fields.append(list(w.fields))
    return fields, None, False


def decode_fields(repo, kind, fields, n_subsets, width, compressed, scale_powered=1, refval=0):
    """-> (column or None, failure description or None)"""
    meth = 'process_' + kind
    if compressed:
        box = {}

        def mk():
            rows = [[] for _ in range(n_subsets)]
            box['rows'] = rows
            box['reader'] = FieldReader(fields)
            return dict(zip(repo.method('Decoder', meth).params,
                            [Obj('Decoder', {}), state_obj(True, rows), box['reader'], descriptor(kind, width)] + extra_args(kind, width, scale_powered, refval)))
        fi, res = run_one(repo, 'Decoder', meth, mk)
        if len(res) != 1:
            raise AnalysisError('Decoder.%s forks into %d paths on concrete fields %r' % (meth, len(res), fields))
        r = res[0]
        if not r.ok:
            lay = [e[1] for e in r.events if e[0] == 'layout']
            return None, (lay[0] if lay else 'raises %s' % r.exc.cls)
        rows = box['rows']
        if any(len(x) != 1 for x in rows):
            return None, 'appends %s values per subset' % [len(x) for x in rows]
        if box['reader'].k != len(fields):
            return None, 'leaves %d of the %d written fields unread' % (len(fields) - box['reader'].k, len(fields))
        return [x[0] for x in rows], None
    out = []
    for fs in fields:
        box = {}

        def mk():
            rows = [[]]
            box['rows'] = rows
            box['reader'] = FieldReader(fs)
            return dict(zip(repo.method('Decoder', meth).params,
                            [Obj('Decoder', {}), state_obj(False, rows), box['reader'], descriptor(kind, width)] + extra_args(kind, width, scale_powered, refval)))
        fi, res = run_one(repo, 'Decoder', meth, mk)
        if len(res) != 1:
            raise AnalysisError('Decoder.%s forks into %d paths on concrete fields %r' % (meth, len(res), fs))
        r = res[0]
        if not r.ok:
            lay = [e[1] for e in r.events if e[0] == 'layout']
            return None, (lay[0] if lay else 'raises %s' % r.exc.cls)
        if len(box['rows'][0]) != 1 or box['reader'].k != len(fs):
            return None, 'appends %d values and reads %d of %d fields' % (len(box['rows'][0]), box['reader'].k, len(fs))
        out.append(box['rows'][0][0])
    return out, None


def expected(kind, column, width):
    if kind == 'string':
        return [b'\xff' * width if v is None else pad_bytes(v, width) for v in column]
    return list(column)


def same(a, b):
    if len(a) != len(b):
        return False
    for x, y in zip(a, b):
        if x is None or y is None:
            if x is not y:
                return False
        elif isinstance(x, bytes) or isinstance(y, bytes):
            if x != y:
                return False
        elif isinstance(x, (int, float)) and isinstance(y, (int, float)) and not isinstance(x, bool) and not isinstance(y, bool):
            if abs(x - y) > 1e-9:
                return False
        elif x != y:
            return False
    return True


def domains(tier):
    deep = tier == 'thorough'
    num_w = 3
    num_vals = [None, 0, 1, 5, 6]                       # raw 0..2^3-2, missing
    cf_vals = [None, 0, 1, 2, 6]
    str_w = 4
    str_vals = [None, '', 'A', 'AB', 'AB  ', '  AB', ' AB ', 'ABCD', 'ABCDE', '\xe9', '\xff\xff\xff\xff'] if deep else \
        [None, 'A', 'AB', 'AB  ', '  AB', 'ABCD', 'ABCDE', '\xe9']
    nmax = 4 if deep else 3
    out = []
    for kind, width, vals in (('numeric', num_w, num_vals), ('codeflag', 3, cf_vals), ('codeflag', 1, [0, 1]), ('string', str_w, str_vals)):
        cols = []
        for k in range(1, nmax + 1):
            if kind == 'string' and k == nmax and not deep:
                cols += [c for c in itertools.product(vals[:5], repeat=k)]
            else:
                cols += list(itertools.product(vals, repeat=k))
        out.append((kind, width, cols))
    return out


def rule_columns(repo, tier='quick', rule_id='C05.R12', only=None):
    rr = RuleResult(rule_id, 'column round trip: what Encoder.process_<kind> writes, Decoder.process_<kind> reads back as the same column, compressed and '
                             'uncompressed (field-level model; every column of a small domain)')
    n = 0
    for kind, width, cols in domains(tier):
        if only and kind not in only:
            continue
        fi_e = repo.method('Encoder', 'process_%s_compressed' % kind)
        fi_d = repo.method('Decoder', 'process_%s_compressed' % kind)
        for column in cols:
            column = list(column)
            want = expected(kind, column, width)
            results = {}
            for compressed in (True, False):
                mode = 'compressed' if compressed else 'uncompressed'
                n += 1
                fields, err, refused = encode_column(repo, kind, column, width, compressed)
                if fields is None:
                    rr.fail('column:%s:%s:encode' % (kind, mode), fi_e.where, 'the %s column %r (width %d) is refused by the %s encoder (%s); every entry is '
                            'representable' % (kind, column, width, mode, err), witness={'kind': kind, 'column': [repr(v) for v in column], 'compressed': compressed})
                    continue
                got, derr = decode_fields(repo, kind, fields, len(column), width, compressed)
                if got is None:
                    rr.fail('column:%s:%s:layout' % (kind, mode), fi_d.where, 'the %s column %r written %s as %s: the decoder %s' % (kind, column, mode, fields, derr),
                            witness={'kind': kind, 'column': [repr(v) for v in column], 'compressed': compressed})
                    continue
                results[mode] = got
                if not same(got, want):
                    rr.fail('column:%s:%s:values' % (kind, mode), fi_e.where, 'the %s column %r (width %d) written %s as %s reads back as %r; expected %r' % (
                        kind, column, width, mode, fields, got, want), witness={'kind': kind, 'column': [repr(v) for v in column], 'compressed': compressed})
                if compressed and kind != 'string':
                    # canonical compressed form: min, 6-bit width, differences; width 0 exactly when all subsets agree
                    agree = all((v is None) == (column[0] is None) and v == column[0] for v in column)
                    if len(fields) >= 2 and fields[1][:2] == ('uint', 6):
                        if (fields[1][2] == 0) != agree:
                            rr.fail('column:%s:compressed:width0' % kind, fi_e.where, 'the %s column %r is written with difference width %d; width 0 is used exactly when '
                                    'all subsets agree' % (kind, column, fields[1][2]), witness={'column': [repr(v) for v in column]})
        rr.instance('%s, width %d: %d columns of up to %d subsets, compressed and uncompressed' % (kind, width, len(cols), max(len(c) for c in cols)))
    # scaled numeric columns (scale 1, reference -5): values on the grid read back exactly
    if not only or 'numeric' in only:
        fi_e = repo.method('Encoder', 'process_numeric_compressed')
        for column in ([0.5], [0.5, 0.5], [-0.5, 0.0, 0.3], [None, 0.1], [0.8, None, 0.8], [0.0, 0.9], [None, None], [0.2, 0.2, None]):
            for compressed in (True, False):
                n += 1
                fields, err, refused = encode_column(repo, 'numeric', list(column), 4, compressed, scale_powered=10, refval=-5)
                if fields is None:
                    rr.fail('column:numeric:scaled:encode', fi_e.where, 'the column %r (4 bits, scale 1, reference -5) is refused (%s)' % (column, err))
                    continue
                got, derr = decode_fields(repo, 'numeric', fields, len(column), 4, compressed, scale_powered=10, refval=-5)
                if got is None or not same(got, list(column)):
                    rr.fail('column:numeric:scaled', fi_e.where, 'the column %r (4 bits, scale 1, reference -5) written %s as %s reads back as %s' % (
                        column, 'compressed' if compressed else 'uncompressed', fields, got if got is not None else derr), witness={'column': [repr(v) for v in column]})
        rr.instance('numeric, scale 1 / reference -5: 8 columns')
        # values off the grid: what counts is the scaled integer.  Entries that scale to the same integer agree (width 0), and encoding
        # what the decoder made of the first encoding gives the same fields again (canonical fixpoint of C03)
        offgrid = ([0.31, 0.29], [0.3, 0.34, 0.26], [0.04, -0.04], [0.31, 0.29, None], [0.31, 0.52], [0.5, 0.5],
                   # minimum and distance to the minimum both round down: each value must still be rounded on its own
                   [0.04, 0.09], [0.24, 0.29, 0.31], [-0.26, 0.14], [0.09, 0.04, None], [0.44, 0.86], [-0.44, -0.06, 0.36])
        for column in offgrid:
            n += 1
            fields, err, refused = encode_column(repo, 'numeric', list(column), 4, True, scale_powered=10, refval=-5)
            if fields is None:
                rr.fail('column:numeric:scaled:encode', fi_e.where, 'the column %r (4 bits, scale 1, reference -5) is refused (%s)' % (column, err))
                continue
            raws = [None if v is None else int(round(v * 10)) + 5 for v in column]
            agree = all(r == raws[0] for r in raws)
            if len(fields) >= 2 and fields[1][:2] == ('uint', 6) and (fields[1][2] == 0) != agree:
                rr.fail('column:numeric:compressed:width0:scaled', fi_e.where, 'the column %r (scale 1, reference -5: raw fields %s) is written with difference width %d; width 0 is '
                        'used exactly when the raw fields of all subsets agree - the user values may differ below the precision of the element' % (
                            column, raws, fields[1][2]), witness={'column': [repr(v) for v in column]})
            got, derr = decode_fields(repo, 'numeric', fields, len(column), 4, True, scale_powered=10, refval=-5)
            if got is None:
                rr.fail('column:numeric:scaled', fi_e.where, 'the column %r written compressed as %s: the decoder %s' % (column, fields, derr))
                continue
            # quantisation: every value reads back as the multiple of the element's precision nearest to it (half a unit of the last
            # scaled digit at most), whatever the other subsets hold
            nearest = [None if v is None else int(round(v * 10)) / 10.0 for v in column]
            if not same(got, nearest):
                rr.fail('column:numeric:compressed:quantisation', fi_e.where, 'the column %r (scale 1) written compressed as %s reads back as %r; every value must read back '
                        'within half a unit of the last scaled digit, i.e. as %r' % (column, fields, got, nearest), witness={'column': [repr(v) for v in column]})
                continue
            fields2, err2, _ = encode_column(repo, 'numeric', list(got), 4, True, scale_powered=10, refval=-5)
            if fields2 != fields:
                rr.fail('column:numeric:compressed:fixpoint', fi_e.where, 'the column %r is written as %s; decoding gives %r, and encoding that again gives %s: the first '
                        'encoding is not the canonical one, so a second decode / encode round trip changes the bytes' % (column, fields, got, fields2 if fields2 is not None else err2),
                        witness={'column': [repr(v) for v in column]})
        rr.instance('numeric, off-grid values: %d columns (width 0 on raw agreement, quantisation to the nearest grid value, encode / decode / encode fixpoint)' % len(offgrid))
    # further scaled families, each in both modes and compared with each other: negative values (a rounding written as int(x + 0.5)
    # is right for positive products only), negative scales (scale_powered < 1, whole-number input), ties, a reference above zero
    if not only or 'numeric' in only:
        fi_e = repo.method('Encoder', 'process_numeric_compressed')
        fams = [
            (10, -50, 7, [[-0.3], [-0.3, -0.3], [-3.5, -3.5, -3.5], [-0.26, -0.34], [-0.3, None, -0.3], [-1.2, 0.4], [-4.9, -4.9], [0.25, 0.05], [0.15, 0.15], [-0.25, -0.25]]),
            (0.01, 0, 8, [[1500, 2500], [1500], [1500, 1500], [1500, None, 1500], [0, 25400], [1549, 1551], [100, 100, 300]]),
            (100, 3, 10, [[0.05, 0.05], [0.045, 0.055], [0.03, 9.9], [0.335], [0.335, 0.335]]),
        ]
        nf = 0
        for sp, rv, w, cols in fams:
            for column in cols:
                raws = [None if v is None else int(round(v * sp)) - rv for v in column]
                nearest = [None if r_ is None else (r_ + rv) / sp for r_ in raws]
                got_modes = {}
                for compressed in (True, False):
                    n += 1
                    nf += 1
                    fields, err, refused = encode_column(repo, 'numeric', list(column), w, compressed, scale_powered=sp, refval=rv)
                    if fields is None:
                        rr.fail('column:numeric:scaled:encode', fi_e.where, 'the column %r (%d bits, 10**scale = %r, reference %d: raw fields %s) is refused (%s)' % (
                            column, w, sp, rv, raws, err), witness={'column': [repr(v) for v in column], 'scale_powered': sp})
                        continue
                    got, derr = decode_fields(repo, 'numeric', fields, len(column), w, compressed, scale_powered=sp, refval=rv)
                    got_modes[compressed] = got
                    if got is None or not same(got, nearest):
                        rr.fail('column:numeric:scaled', fi_e.where, 'the column %r (%d bits, 10**scale = %r, reference %d) written %s as %s reads back as %s; every value '
                                'reads back as the nearest multiple of the precision, %r (raw fields %s)' % (
                                    column, w, sp, rv, 'compressed' if compressed else 'uncompressed', fields, got if got is not None else derr, nearest, raws),
                                witness={'column': [repr(v) for v in column], 'scale_powered': sp, 'compressed': compressed})
                if len(got_modes) == 2 and got_modes[True] is not None and got_modes[False] is not None and not same(got_modes[True], got_modes[False]):
                    rr.fail('column:numeric:scaled:modes-differ', fi_e.where, 'the column %r decodes to %r when written compressed and to %r when written uncompressed' % (
                        column, got_modes[True], got_modes[False]), witness={'column': [repr(v) for v in column]})
        rr.instance('numeric, negative values / negative scale / ties / positive reference: %d round trips, compressed against uncompressed' % nf)
        # the all-missing pattern has the width in force, not the Table B width of the descriptor (201YYY / 207YYY widen the field)
        for kind, dw, w in (('numeric', 3, 5), ('numeric', 4, 14), ('codeflag', 3, 3)):
            DESC_WIDTH[0] = dw
            try:
                for column in ([None, None], [None], [None, 1], [2, None, 2]):
                    n += 1
                    fields, err, refused = encode_column(repo, kind, list(column), w, True)
                    if fields is None:
                        rr.fail('column:%s:width-in-force:encode' % kind, fi_e.where, 'the %s column %r with a field of %d bits (Table B width %d) is refused (%s)' % (kind, column, w, dw, err))
                        continue
                    got, derr = decode_fields(repo, kind, fields, len(column), w, True)
                    if got is None or not same(got, list(column)) or fields[0][1] != w:
                        rr.fail('column:%s:width-in-force' % kind, fi_e.where, 'the %s column %r of a field that is %d bits wide at this point of the template (Table B width %d) is '
                                'written as %s and reads back as %s; missing is all ones of the width in force' % (kind, column, w, dw, fields, got if got is not None else derr),
                                witness={'column': [repr(v) for v in column], 'width': w, 'table_b_width': dw})
            finally:
                DESC_WIDTH[0] = None
        rr.instance('columns of a field whose width in force differs from the Table B width: 12 round trips')
    # the decoder reads every legal difference width, not only the minimal one
    if not only or 'numeric' in only or 'codeflag' in only:
        for kind in ('numeric', 'codeflag'):
            if only and kind not in only:
                continue
            fi_d = repo.method('Decoder', 'process_%s_compressed' % kind)
            for wd in range(1, 7):
                for diffs in itertools.product(sorted(set([0, 1, 2 ** wd - 2, 2 ** wd - 1])), repeat=2):
                    if any(d < 0 for d in diffs):
                        continue
                    n += 1
                    mn = 1
                    fields = [('uint', 7, mn), ('uint', 6, wd)] + [('uint', wd, d) for d in diffs]
                    want = [None if d == 2 ** wd - 1 else mn + d for d in diffs]
                    if kind == 'codeflag':
                        want = [None if (v is not None and v == 2 ** 7 - 1) else v for v in want]
                    got, derr = decode_fields(repo, kind, fields, 2, 7, True)
                    if got is None or not same(got, want):
                        rr.fail('column:%s:decoder-widths' % kind, fi_d.where, 'a compressed %s column with minimum %d, difference width %d and differences %s '
                                'decodes to %s; expected %s (all ones of the difference width = missing)' % (kind, mn, wd, list(diffs), got if got is not None else derr, want),
                                witness={'width': wd, 'differences': list(diffs)})
            rr.instance('%s decoder: difference widths 1..6 with 0 / 1 / all-ones-1 / all-ones differences' % kind)
        if not only or 'codeflag' in only:
            # a code / flag value reconstructed as minimum + difference that is all ones of the *element* width is missing (width > 1)
            fi_d = repo.method('Decoder', 'process_codeflag_compressed')
            for w, mn, wd, diffs, want in ((1, 0, 2, [1, 0], [1, 0]), (1, 1, 0, [], 'one-bit-equal'), (3, 5, 2, [2, 1, 0], [None, 6, 5]), (3, 0, 3, [7, 6, 5], [None, 6, 5]), (4, 12, 2, [3, 2], [None, 14]), (3, 7, 0, [], None),
                                           (2, 1, 2, [2, 1], [None, 2]), (4, 0, 4, [15, 14, 7], [None, 14, 7])):
                n += 1
                if want == 'one-bit-equal':
                    fields, nsub, want = [('uint', w, mn), ('uint', 6, 0)], 2, [1, 1]        # a one-bit field cannot be missing
                elif want is None:
                    fields, nsub, want = [('uint', w, mn), ('uint', 6, 0)], 2, [None, None]
                else:
                    fields, nsub = [('uint', w, mn), ('uint', 6, wd)] + [('uint', wd, d) for d in diffs], len(diffs)
                got, derr = decode_fields(repo, 'codeflag', fields, nsub, w, True)
                if got is None or not same(got, want):
                    rr.fail('column:codeflag:all-ones-recheck', fi_d.where, 'a compressed %d-bit code column with minimum %d, difference width %d and differences %s decodes to %s; '
                            'expected %s (minimum + difference equal to all ones of the element width is missing)' % (w, mn, wd, diffs, got if got is not None else derr, want),
                            witness={'width': w, 'minimum': mn, 'differences': diffs})
            rr.instance('code/flag decoder: reconstructed all-ones values of the element width are missing')
    # the difference width rule itself, on both sides of every power of two up to 64 bits (float shortcuts lose bits beyond 2**53)
    if not only or 'numeric' in only or 'codeflag' in only:
        fw = repo.func('encoder', 'nbits_for_uint')
        it = ColInterp(repo, None)
        xs = sorted(set(list(range(1, 41)) + [2 ** k + d for k in range(1, 65) for d in (-2, -1, 0, 1) if 2 ** k + d >= 1]))
        for x in xs:
            res = it.run_function(fw, lambda: {fw.params[0]: x})
            want = x.bit_length() + (1 if x == 2 ** x.bit_length() - 1 else 0)
            got = res[0].value if len(res) == 1 and res[0].ok else [r.describe() for r in res]
            if got != want:
                rr.fail('nbits_for_uint', fw.where, 'nbits_for_uint(%d) is %r; a range of %d needs %d bits so that all ones stays free for missing' % (x, got, x, want),
                        witness={'x': x})
                break
        rr.instance('nbits_for_uint folded on %d arguments (1..40 and 2**k-2 .. 2**k+1 for k = 1..64)' % len(xs))
    rr.extra = {'round_trips': n}
    rr.require_floor(3)
    return rr
