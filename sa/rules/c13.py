"""
C13  No hidden state: results do not depend on what was processed before (structural part).

R1 who-may-write: the process-wide caches are written only by their owner's designated methods
R2 frozen shared descriptors: no store to a descriptor field outside construction / fresh copies
R3 per-call state: coders keep no per-message state on themselves; the parser re-initialises everything it writes;
   wire() is idempotent; renderers / querents do not write to message objects
R4 cache keys (= C08.R5)                R5 table-group cache eviction folded at the limit
R6 compiled-template cache sizes 0, 1, n folded       R7 no function mutates module-level state
"""
from __future__ import print_function

import ast

from sa.model import AnalysisError, CallGraph, norm, effects, MUTATORS
from sa.patheval import Interp, Native, Obj, Sym, Top, UnknownMethod
from sa.report import RuleResult
from sa import dataflow
from sa.rules.common import call_sites, mentions, owner_closure

DESCRIPTOR_FIELDS = {'id', 'name', 'unit', 'scale', 'refval', 'nbits', 'members', 'factor', 'marker_id', 'crex_unit', 'crex_scale', 'crex_nchars'}


def rule_r1(repo):
    rr = RuleResult('C13.R1', 'process-wide caches are written only by their owner\'s designated methods')
    owners = {
        '_groups': ('TableGroupCache', {'__init__', 'get', 'invalidate'}),
        'extra_b_entries': ('TableGroupCache', {'__init__', 'add_extra_entries'}),
        'extra_d_entries': ('TableGroupCache', {'__init__', 'add_extra_entries'}),
        'cache': ('CompiledTemplateManager', {'__init__', 'get_or_compile'}),
        '_TABLE_GROUP_CACHE': ('TableGroupCacheManager', set()),
        'configurations': ('SectionConfigurer', {'__init__'}),
        'descriptors': (None, {'__init__'}),          # TableB / TableD
        '_cache': ('TableC', {'__init__', 'lookup'}),
    }
    n = 0
    closures = {}
    for fi in repo.all_funcs():
        eff = effects(fi)
        for recv in set(eff.writes) | set(eff.mutates):
            for attr in set(eff.writes.get(recv, {})) | set(eff.mutates.get(recv, {})):
                if attr not in owners:
                    continue
                owner, allowed = owners[attr]
                if owner is not None:
                    allowed = closures.setdefault(attr, owner_closure(repo, owner, allowed))
                elif fi.cls is not None:
                    allowed = closures.setdefault((attr, fi.cls.name), owner_closure(repo, fi.cls.name, allowed))
                n += 1
                ok = fi.cls is not None and (owner is None or fi.cls.name == owner) and fi.name in allowed and recv in ('self', 'cls')
                rr.instance('%s writes %s.%s' % (fi.qualname, recv, attr))
                if not ok:
                    node = (eff.writes.get(recv, {}).get(attr) or eff.mutates.get(recv, {}).get(attr))[0]
                    rr.fail('%s:%s.%s' % (fi.qualname, recv, attr), '%s:%d' % (fi.module.relpath, node.lineno),
                            '%s writes the cache field %s.%s; only %s may' % (fi.qualname, recv, attr,
                                                                             ', '.join('%s.%s' % (owner or '<table>', a) for a in sorted(allowed)) or 'nobody'))
    if n < 6:
        raise AnalysisError('only %d cache writes found (expected >= 6): the owner table is stale' % n)
    # the configuration dicts are handed out: transformers must copy (checked semantically by C17.R3)
    rr.require_floor(6)
    return rr


def _fresh_call(v):
    """An expression that yields an object nobody else holds: a constructor call, a deep copy, a TableR lookup (TableR.lookup is
    checked below to construct on every call)."""
    if isinstance(v, ast.Call):
        f = norm(v.func)
        last = f.split('.')[-1]
        if last[:1].isupper() or f in ('deepcopy', 'copy.deepcopy', 'r.lookup') or last.endswith('Node') or last.endswith('Descriptor') \
                or last == 'from_element_descriptor':
            return True
    return False


class _Provenance(object):
    """Is the object a name denotes at a statement a fresh one on every path?  Flow-sensitive (reaching definitions), and through
    parameters one level at a time: every call site of the function must hand over a fresh object."""

    def __init__(self, repo):
        self.repo = repo
        self.rd = {}
        self.stmt_of = {}

    def tables(self, fi):
        k = id(fi.node)
        if k not in self.rd:
            self.rd[k] = dataflow.reaching(fi.node)
            self.stmt_of[k] = dataflow.enclosing_statement_map(fi.node)
        return self.rd[k], self.stmt_of[k]

    def fresh_expr(self, fi, expr, at_node, depth=0):
        if _fresh_call(expr):
            return True
        if isinstance(expr, ast.Name):
            return self.fresh_name(fi, expr.id, at_node, depth)
        if isinstance(expr, ast.IfExp):
            return self.fresh_expr(fi, expr.body, at_node, depth) and self.fresh_expr(fi, expr.orelse, at_node, depth)
        return False

    def fresh_name(self, fi, name, at_node, depth=0):
        rd, stmt_of = self.tables(fi)
        st = stmt_of.get(id(at_node))
        if st is None or id(st) not in rd:
            return False
        defs = rd[id(st)].get(name)
        if not defs:
            return False
        for kind, val in defs:
            if kind == 'assign':
                if not self.fresh_expr(fi, val, val if id(val) in stmt_of else st, depth):
                    # the value node belongs to the defining statement: evaluate names there
                    return False
            elif kind == 'param':
                if depth >= 3 or fi.name.startswith('__'):
                    return False
                sites = call_sites(self.repo, fi.name)
                if not sites or mentions(self.repo, fi.name):
                    return False
                for caller, call in sites:
                    arg = _argument_for(fi, call, val)
                    if arg is None or not self.fresh_expr(caller, arg, call, depth + 1):
                        return False
            else:
                return False
        return True


def _argument_for(fi, call, pname):
    params = list(fi.params)
    if fi.cls is not None and not fi.is_static and params and isinstance(call.func, ast.Attribute):
        params = params[1:]
    for k in call.keywords:
        if k.arg == pname:
            return k.value
    if pname in params:
        i = params.index(pname)
        if i < len(call.args) and not any(isinstance(a, ast.Starred) for a in call.args[:i + 1]):
            return call.args[i]
    return None


def rule_r2(repo):
    rr = RuleResult('C13.R2', 'descriptor objects shared through the table caches are never modified after construction')
    n = 0
    prov = _Provenance(repo)
    builders = {}
    cgb = CallGraph(repo, 'Decoder')
    entry = repo.func('tables', '_descriptors_from_ids')
    builder_funcs = set(f for f in cgb.reachable([entry]) if f.module.name == 'tables' and f.cls is None)
    # the NCEP repair (tables._fix_ncep_descriptors and whatever helpers it is split into) assigns members of descriptors it has copied:
    # that it works on copies - the objects handed in are afterwards what they were - is decided by the fold of C20.R3 on trees of
    # shared objects; with that fold silent the stores inside the repair need no syntactic proof of freshness
    ncep_funcs = set()
    fxn = repo.func('tables', '_fix_ncep_descriptors', required=False) if 'required' in repo.func.__code__.co_varnames else None
    try:
        fxn = fxn or repo.func('tables', '_fix_ncep_descriptors')
    except AnalysisError:
        fxn = None
    if fxn is not None:
        try:
            from sa.rules import c20 as _c20
            r3 = _c20.rule_r3(repo)
            if not [f for f in r3.findings if 'fix_ncep' in f.key]:
                ncep_funcs = set(f for f in cgb.reachable([fxn]) if f.module.name == 'tables' and f.cls is None)
                # ... including helpers that are reached as values (a table of repair functions by descriptor class, say)
                mod = fxn.module
                work = list(ncep_funcs) + [fxn]
                seen_names = set()
                while work:
                    f0 = work.pop()
                    nodes = [f0.node] if hasattr(f0, 'node') else [f0]
                    for root in nodes:
                        for nd in ast.walk(root):
                            if isinstance(nd, ast.Name) and nd.id not in seen_names:
                                seen_names.add(nd.id)
                                g = mod.funcs.get(nd.id)
                                if g is not None and g not in ncep_funcs and g is not entry and g not in builder_funcs:
                                    ncep_funcs.add(g)
                                    work.append(g)
                                cn = mod.const_nodes.get(nd.id) if hasattr(mod, 'const_nodes') else None
                                if cn is not None:
                                    work.append(cn)
        except AnalysisError:
            ncep_funcs = set()
    for fi in repo.all_funcs():
        for node in ast.walk(fi.node):
            targets = []
            kind = 'store'
            if isinstance(node, ast.Assign):
                targets = node.targets
            elif isinstance(node, ast.AugAssign):
                targets = [node.target]
                kind = 'in-place update'
            elif isinstance(node, ast.Call) and isinstance(node.func, ast.Attribute) and node.func.attr in MUTATORS and \
                    isinstance(node.func.value, ast.Attribute) and node.func.value.attr in ('members',):
                targets = [node.func.value]
                kind = 'mutation (.%s)' % node.func.attr
            flat = []
            for t in targets:
                flat.extend(t.elts if isinstance(t, (ast.Tuple, ast.List)) else [t])
            for t in flat:
                if not (isinstance(t, ast.Attribute) and t.attr in DESCRIPTOR_FIELDS):
                    continue
                recv = norm(t.value)
                n += 1
                where = '%s:%d' % (fi.module.relpath, node.lineno)
                rr.instance('%s: %s of %s.%s' % (fi.qualname, kind, recv, t.attr))
                if recv == 'self' and fi.name == '__init__':
                    continue
                if recv.endswith('_node') or recv in ('node',) or (recv == 'self' and fi.cls is not None and fi.cls.name.endswith('Node')):
                    continue
                if isinstance(t.value, ast.Name) and prov.fresh_name(fi, t.value.id, node):
                    continue
                if _fresh_call(t.value):
                    continue
                if fi in ncep_funcs:
                    continue
                if fi in builder_funcs:
                    # the list builder assigns members / factor to the replication descriptors it has just obtained; that these are
                    # new objects and that nothing handed out by the cached tables is touched is decided by the fold below
                    continue
                if fi.cls is not None and fi.cls.name == 'TableD':
                    # the table's own construction (second pass fills the members of the sequences the first pass created),
                    # also when it has been split into private helpers that only the constructor reaches
                    ok = builders.setdefault('TableD', owner_closure(repo, 'TableD', {'__init__'}))
                    if fi.name in ok and t.attr == 'members':
                        continue
                rr.fail('%s:%s.%s' % (fi.qualname, recv, t.attr), where,
                        '%s performs a %s of %s.%s: descriptor objects are cached per table group and shared by every message, so the change is visible to '
                        'all later decodes' % (fi.qualname, kind, recv, t.attr))
    # TableR really creates new objects (no cache)
    # fold of the list builder with tables that hand out one cached object per id (as the real tables do): after building the same
    # list twice, the cached objects are what they were, and the replication descriptors of the two trees are different objects
    from sa.rules import c14 as _c14
    from sa.patheval import freeze as _freeze

    class CachingTable(_c14.Table):
        def __init__(self2, kind, defined):
            _c14.Table.__init__(self2, kind, defined)
            self2.cache = {}

        def call_method(self2, name, args, kwargs, interp, frame, node):
            if name == 'lookup' and self2.kind != 'R':
                i = int(args[0])
                if i not in self2.cache:
                    self2.cache[i] = _c14.Table.call_method(self2, name, args, kwargs, interp, frame, node)
                    if self2.kind == 'D' and isinstance(self2.cache[i], Obj):
                        self2.cache[i].fields['members'] = [Obj('ElementDescriptor', {'id': 4001}), Obj('ElementDescriptor', {'id': 4002})]
                else:
                    interp.event('lookup', self2.kind, i)
                return self2.cache[i]
            return _c14.Table.call_method(self2, name, args, kwargs, interp, frame, node)
    ids = [102002, 1001, 12101, 101000, 31001, 12101, 301011, 201130, 101002, 301011]
    bfi = repo.func('tables', '_descriptors_from_ids')
    tabs = [CachingTable('B', _c14.B_DEFINED), CachingTable('C', ()), _c14.Table('R', ()), CachingTable('D', _c14.D_DEFINED)]
    itb = _c14.BuildInterp(repo, None)
    trees, snaps = [], []
    for k in (0, 1):
        res = itb.run_function(bfi, lambda: dict(zip(bfi.params[:5], tabs + [list(ids)])))
        if len(res) != 1 or not res[0].ok or not isinstance(res[0].value, list):
            raise AnalysisError('tables._descriptors_from_ids could not be folded on %s: %s' % (ids, [r.describe() for r in res]))
        trees.append(res[0].value)
        snaps.append(dict(('%s%d' % (t.kind, i), _freeze(o)) for t in tabs if isinstance(t, CachingTable) for i, o in t.cache.items()))
    rr.instance('list builder folded twice over caching tables: %d cached descriptors' % len(snaps[0]))
    changed = sorted(k for k in snaps[0] if snaps[1].get(k) != snaps[0][k])
    first = dict(('%s%d' % (t.kind, i), o) for t in tabs if isinstance(t, CachingTable) for i, o in t.cache.items())
    for key, o in sorted(first.items()):
        want = {'id': int(key[1:])}
        extra = set(o.fields) - {'id', 'name', 'members'} if isinstance(o, Obj) else set()
        if extra or (isinstance(o, Obj) and key[0] != 'D' and 'members' in o.fields):
            changed.append(key)
    if changed:
        rr.fail('_descriptors_from_ids:cached-descriptor-changed', bfi.where, 'building the list %s writes to descriptor(s) %s that the tables hand out from their cache: every '
                'later template built from the same table group sees the change' % (ids, sorted(set(changed))))

    def reps(tree, acc):
        for d in tree:
            if isinstance(d, Obj) and d.cls in ('FixedReplicationDescriptor', 'DelayedReplicationDescriptor'):
                acc.append(d)
                reps(d.fields.get('members') or [], acc)
        return acc
    r0, r1 = reps(trees[0], []), reps(trees[1], [])
    if len(r0) != len(r1) or len(r0) < 3 or any(a is b for a in r0 for b in r1):
        rr.fail('_descriptors_from_ids:replication-shared', bfi.where, 'two templates built from the same list share a replication descriptor object (or differ in shape: %d / %d '
                'replications): members assigned for one template would show in the other' % (len(r0), len(r1)))
    tr = repo.method('TableR', 'lookup')

    class TRI(Interp):
        def on_call(self2, text, callee, args, kwargs, node, frame):
            if text.startswith('log.'):
                return None
            return self2.NOT_HANDLED
    for did, want in ((101002, 'FixedReplicationDescriptor'), (102000, 'DelayedReplicationDescriptor'), ('103004', 'FixedReplicationDescriptor')):
        it = TRI(repo, 'TableR')
        table = Obj('TableR', {})
        got = []
        for k in (0, 1):
            res = it.run_function(tr, lambda: {'self': table, tr.params[1]: did}, self_class='TableR')
            oks = [r for r in res if r.ok]
            if len(res) != 1 or not oks:
                raise AnalysisError('TableR.lookup(%r) could not be folded: %s' % (did, [r.describe() for r in res]))
            got.append(oks[0].value)
        rr.instance('TableR.lookup(%r) twice: new %s each time' % (did, want))
        if not all(isinstance(g, Obj) and g.cls == want for g in got) or got[0] is got[1]:
            rr.fail('TableR.lookup:fresh', tr.where, 'TableR.lookup(%r) returns %s and then %s%s: replication descriptors get their members assigned by the list builder and '
                    'must be a new %s every time' % (did, got[0], got[1], ' (the same object)' if got[0] is got[1] else '', want))
    if n < 20:
        raise AnalysisError('only %d descriptor-field stores found (expected >= 20)' % n)
    rr.require_floor(20)
    return rr


def rule_r3(repo):
    rr = RuleResult('C13.R3', 'per-call state only: coders, renderers and querents keep nothing from one call to the next')
    # coders write to self only in __init__
    for cname in ('Coder', 'Decoder', 'Encoder', 'TemplateCompiler'):
        for name, fi in sorted(repo.cls(cname).methods.items()):
            if name == '__init__':
                continue
            w = effects(fi).written('self')
            rr.instance('%s.%s writes self.%s' % (cname, name, sorted(w) or '-'))
            if w:
                rr.fail('%s.%s:self-write' % (cname, name), fi.where, '%s.%s stores %s on the coder object: a later message decoded with the same coder would see it' % (cname, name, sorted(w)))
    # the coder state is created per message and never escapes
    for cname in ('Decoder', 'Encoder'):
        fi = repo.own_method(cname, 'process_template_data')
        made = [n for n in ast.walk(fi.node) if isinstance(n, ast.Assign) and isinstance(n.value, ast.Call) and norm(n.value.func) == 'CoderState']
        rr.instance('%s.process_template_data creates a fresh CoderState' % cname)
        if len(made) != 1:
            rr.fail('%s.process_template_data:state' % cname, fi.where, 'expected exactly one `state = CoderState(...)` per message, found %d' % len(made))
    for fi in repo.all_funcs():
        for n in ast.walk(fi.node):
            if isinstance(n, ast.Assign) and isinstance(n.value, ast.Name) and n.value.id == 'state':
                for t in n.targets:
                    if isinstance(t, ast.Attribute):
                        rr.fail('%s:state-escape' % fi.qualname, '%s:%d' % (fi.module.relpath, n.lineno), 'the coder state is stored in %s' % norm(t))
            if isinstance(n, ast.Global):
                rr.fail('%s:global' % fi.qualname, '%s:%d' % (fi.module.relpath, n.lineno), '%s declares global %s' % (fi.qualname, ', '.join(n.names)))
    # NodePathParser: everything the handlers write is re-initialised at the top of parse
    pc = repo.cls('NodePathParser')
    written = set()
    for name, fi in pc.methods.items():
        if name in ('__init__', 'reset'):
            continue
        written |= effects(fi).written('self')
    reset = effects(pc.methods['reset']).written('self')
    parse = pc.methods['parse']
    loop = [s for s in parse.node.body if isinstance(s, (ast.While, ast.For))]
    pre = parse.node.body[:parse.node.body.index(loop[0])] if loop else []
    calls_reset = any(isinstance(n, ast.Call) and norm(n.func) == 'self.reset' for s in pre for n in ast.walk(s))
    pre_assigned = set()
    for s in pre:
        for n in ast.walk(s):
            if isinstance(n, ast.Assign):
                for t in n.targets:
                    if isinstance(t, ast.Attribute) and norm(t.value) == 'self':
                        pre_assigned.add(t.attr)
    init_only = effects(pc.methods['__init__']).written('self') - written
    rr.instance('NodePathParser: handlers write %s; reset() %s; parse prologue %s' % (sorted(written), sorted(reset), sorted(pre_assigned)))
    missing = written - pre_assigned - (reset if calls_reset else set())
    if missing:
        rr.fail('NodePathParser:reset', pc.methods['reset'].where, 'parser attribute(s) %s are written while parsing but not re-initialised by reset() / the prologue of '
                'parse: a rejected expression leaves residue for the next one parsed with the same parser' % sorted(missing))
    # wire(): test-and-set before any mutation
    wire = repo.own_method('TemplateData', 'wire')

    class W(Interp):
        def on_call(self2, text, callee, args, kwargs, node, frame):
            if text == 'self.wire_members':
                self2.event('wire_members', frame.locals['self'].fields.get('_is_wired'))
                return None
            if text in ('functools.partial', 'itertools.count'):
                return Top(text)
            return self2.NOT_HANDLED
    for wired in (True, False):
        it = W(repo, 'TemplateData')
        res = it.run_function(wire, lambda: {'self': Obj('TemplateData', {
            '_is_wired': wired, 'is_compressed': False, 'n_subsets': 2, 'template': Obj('BufrTemplate', {'members': []}),
            'decoded_nodes_all_subsets': [[], []], 'decoded_descriptors_all_subsets': [[], []], 'decoded_values_all_subsets': [[], []],
            'bitmap_links_all_subsets': [{}, {}], 'index_to_node': {}})}, self_class='TemplateData')
        rr.instance('TemplateData.wire() on %s data' % ('already wired' if wired else 'fresh'))
        for r in res:
            calls = [e[1] for e in r.events if e[0] == 'wire_members']
            if not r.ok:
                rr.fail('TemplateData.wire:raises', wire.where, 'wire() raises %s' % r.exc.cls)
            elif wired and calls:
                rr.fail('TemplateData.wire:idempotent', wire.where, 'wire() on already wired data walks the template again (%d times): a second rendering or query would '
                        'append the node tree once more' % len(calls))
            elif not wired and (len(calls) != 2 or r.locals['self'].fields.get('_is_wired') is not True):
                rr.fail('TemplateData.wire:flag', wire.where, 'wire() on fresh data: %d subset walks, flag %r afterwards (expected one walk per subset and the flag set)' % (
                    len(calls), r.locals['self'].fields.get('_is_wired')))
    # the same for every shape of message: compressed data are wired once for all subsets, and a second wire() of any message does nothing
    for comp, n in ((False, 1), (False, 3), (True, 1), (True, 3), (False, 0)):
        shared = []
        obj = Obj('TemplateData', {
            '_is_wired': False, 'is_compressed': comp, 'n_subsets': n, 'template': Obj('BufrTemplate', {'members': []}),
            'decoded_nodes_all_subsets': [shared] * n if comp else [[] for _ in range(n)], 'decoded_descriptors_all_subsets': [[] for _ in range(n)],
            'decoded_values_all_subsets': [[] for _ in range(n)], 'bitmap_links_all_subsets': [{} for _ in range(n)], 'index_to_node': {}})
        want = (1 if n else 0) if comp else n
        rr.instance('TemplateData.wire() twice on %s data of %d subsets: %d walk(s), then none' % ('compressed' if comp else 'uncompressed', n, want))
        walks = []
        for attempt in (1, 2):
            it = W(repo, 'TemplateData')
            res = it.run_function(wire, lambda: {'self': obj}, self_class='TemplateData')
            if len(res) != 1 or not res[0].ok:
                rr.fail('TemplateData.wire:raises', wire.where, 'wire() on %s data of %d subsets: %s' % ('compressed' if comp else 'uncompressed', n, [r.describe() for r in res]))
                break
            walks.append(len([e for e in res[0].events if e[0] == 'wire_members']))
        else:
            if walks != [want, 0]:
                rr.fail('TemplateData.wire:twice', wire.where, 'wire() called twice on %s data of %d subsets walks the template %s times (expected %s): the second call appends the '
                        'node tree once more, and renderings and queries show every node twice' % ('compressed' if comp else 'uncompressed', n, walks, [want, 0]),
                        witness={'compressed': comp, 'n_subsets': n})
    # a wire() that fails (a template the wirer cannot follow) must not leave the data marked as wired: the next rendering or query of
    # the same message would silently work on a half-built tree instead of reporting the same error

    class WF(W):
        def on_call(self2, text, callee, args, kwargs, node, frame):
            if text == 'self.wire_members':
                n = len([e for e in self2.path.events if e[0] == 'wire_members'])
                self2.event('wire_members', n)
                if n == 1:
                    from sa.patheval import Raise
                    raise Raise('PyBufrKitError', node, self2.where(node, frame))
                return None
            return W.on_call(self2, text, callee, args, kwargs, node, frame)
    it = WF(repo, 'TemplateData')
    res = it.run_function(wire, lambda: {'self': Obj('TemplateData', {
        '_is_wired': False, 'is_compressed': False, 'n_subsets': 2, 'template': Obj('BufrTemplate', {'members': []}),
        'decoded_nodes_all_subsets': [[], []], 'decoded_descriptors_all_subsets': [[], []], 'decoded_values_all_subsets': [[], []],
        'bitmap_links_all_subsets': [{}, {}], 'index_to_node': {}})}, self_class='TemplateData')
    rr.instance('TemplateData.wire() failing in the second subset')
    for r in res:
        flag = r.locals['self'].fields.get('_is_wired') if r.locals and 'self' in r.locals else None
        if r.ok:
            rr.fail('TemplateData.wire:failure-swallowed', wire.where, 'wire() returns normally although wiring the second subset failed')
        elif flag is True:
            rr.fail('TemplateData.wire:failed-but-marked', wire.where, 'wire() fails with %s while wiring the second subset and leaves _is_wired = True: the next wire() of the '
                    'same message returns at once, and renderings and queries then run on a half-built tree instead of meeting the same error' % r.exc.cls)
    init = repo.own_method('TemplateData', '__init__')
    if 'self._is_wired = False' not in norm(init.node):
        rr.fail('TemplateData.__init__:is_wired', init.where, '_is_wired is not initialised to False')
    # renderers and querents do not write to what they are given
    for cname in ('FlatTextRenderer', 'FlatJsonRenderer', 'NestedJsonRenderer', 'NestedTextRenderer', 'MetadataQuerent', 'DataQuerent', 'BufrMessageQuerent', 'ScriptRunner'):
        for name, fi in sorted(repo.cls(cname).methods.items()):
            if name == '__init__':
                continue
            eff = effects(fi)
            for recv in sorted(set(eff.writes) | set(eff.mutates)):
                if recv in ('bufr_message', 'template_data', 'section', 'parameter', 'descriptor', 'decoded_node', 'node', 'self') and \
                        not (recv == 'self' and cname == 'ScriptRunner'):
                    attrs = sorted(set(eff.writes.get(recv, {})) | set(eff.mutates.get(recv, {})))
                    if recv == 'self' and cname in ('DataQuerent',):
                        # DataQuerent keeps only its parser; anything else would be state between queries
                        pass
                    rr.fail('%s.%s:writes-%s' % (cname, name, recv), fi.where, '%s.%s writes %s.%s: rendering or querying must not change the message or keep state' % (
                        cname, name, recv, ', '.join(attrs)))
        rr.instance('%s: no writes to message objects or to itself' % cname)
    rr.require_floor(40)
    return rr


class CacheInterp(Interp):
    def on_while(self, node, frame):
        return self.unroll_while(node, frame, 200)

    def on_call(self, text, callee, args, kwargs, node, frame):
        if text in ('TableA', 'TableB', 'TableC', 'TableR', 'TableD'):
            return Obj(text + 'Stub', {})
        if text == 'BufrTableGroup':
            self.event('built', len([e for e in self.path.events if e[0] == 'built']))
            return Obj('BufrTableGroup', {'__new__': True})
        if text == 'self.template_compiler.process':
            self.event('compile')
            return Obj('CompiledTemplate', {'__new__': True})
        if text.startswith('log.'):
            return None
        return self.NOT_HANDLED

    def load_attr(self, base, attr, node, frame):
        if isinstance(base, Sym):
            return Sym('attr', base, attr)
        return Interp.load_attr(self, base, attr, node, frame)

    def builtin(self, name, args, kwargs, node, frame):
        if name in ('tuple', 'list') and args and isinstance(args[0], Sym):
            return 'IDS:' + repr(args[0])
        return Interp.builtin(self, name, args, kwargs, node, frame)


def rule_r5(repo):
    rr = RuleResult('C13.R5', 'table-group cache at and around its limit: the requested group is returned and the size stays bounded')
    fi = repo.own_method('TableGroupCache', 'get')
    limit = repo.const('tables', 'MAXIMUM_NUMBER_OF_CACHED_TABLE_GROUPS')
    if not isinstance(limit, int) or limit < 1:
        raise AnalysisError('MAXIMUM_NUMBER_OF_CACHED_TABLE_GROUPS is %r' % (limit,))
    for filled in (0, 1, limit - 1, limit, limit + 3):
        for hit in (False, True):
            if hit and filled == 0:
                continue
            it = CacheInterp(repo, 'TableGroupCache')

            def mk():
                groups = dict(('K%d' % i, Obj('BufrTableGroup', {'n': i})) for i in range(filled))
                return {'self': Obj('TableGroupCache', {'_groups': groups, 'extra_b_entries': {}, 'extra_d_entries': {}}),
                        'table_group_key': 'K0' if hit else 'NEW'}
            res = it.run_function(fi, mk, self_class='TableGroupCache')
            rr.instance('get(%s) with %d cached groups (limit %d)' % ('cached key' if hit else 'new key', filled, limit))
            if len(res) != 1:
                raise AnalysisError('TableGroupCache.get forks on a concrete cache')
            r = res[0]
            if not r.ok:
                rr.fail('TableGroupCache.get:raises', fi.where, 'with %d cached groups get(%s) raises %s' % (filled, 'cached key' if hit else 'new key', r.exc.cls),
                        witness={'cached': filled, 'hit': hit})
                continue
            g = r.locals['self'].fields['_groups']
            key = 'K0' if hit else 'NEW'
            built = len([e for e in r.events if e[0] == 'built'])
            if key not in g or r.value is not g[key]:
                rr.fail('TableGroupCache.get:returns', fi.where, 'with %d cached groups get(%s) does not return the group stored under the requested key' % (filled, key),
                        witness={'cached': filled, 'hit': hit})
            if hit and (built or r.value.fields.get('n') != 0):
                rr.fail('TableGroupCache.get:hit', fi.where, 'a cached group is rebuilt / replaced on a hit')
            if not hit and built != 1:
                rr.fail('TableGroupCache.get:miss', fi.where, 'a miss builds %d groups' % built)
            if len(g) > max(limit, filled):
                rr.fail('TableGroupCache.get:bound', fi.where, 'the cache grows to %d groups (limit %d)' % (len(g), limit))
            if not hit and filled >= limit and len(g) > limit:
                rr.fail('TableGroupCache.get:evict', fi.where, 'at the limit a new group is added without evicting (size %d > %d)' % (len(g), limit))
    rr.require_floor(8)
    return rr


def rule_r6(repo):
    rr = RuleResult('C13.R6', 'compiled-template cache: sizes 0, 1, n; a hit returns the stored template, a miss compiles for the requested key')
    fi = repo.own_method('CompiledTemplateManager', 'get_or_compile')
    for cache_max in (0, 1, 3):
        for filled in (0, 1, 3):
            if filled > cache_max:
                continue
            for hit in (False, True):
                if hit and filled == 0:
                    continue
                it = CacheInterp(repo, 'CompiledTemplateManager')

                def mk():
                    cache = {}
                    for i in range(filled):
                        cache[('IDS:OTHER%d' % i, 'TG')] = Obj('CompiledTemplate', {'n': i})
                    tmpl = Obj('BufrTemplateStub', {'original_descriptor_ids': Sym('IDS')})
                    tg = Obj('TableGroupStub', {'key': 'TG'})
                    if hit:
                        cache[('IDS:IDS', 'TG')] = Obj('CompiledTemplate', {'n': 'hit'})
                        if len(cache) > max(cache_max, 1):
                            cache.pop(('IDS:OTHER0', 'TG'), None)
                    return {'self': Obj('CompiledTemplateManager', {'cache': cache, 'cache_max': cache_max}), 'template': tmpl, 'table_group': tg}
                res = it.run_function(fi, mk, self_class='CompiledTemplateManager')
                rr.instance('cache_max=%d, %d cached, %s' % (cache_max, filled, 'hit' if hit else 'miss'))
                if len(res) != 1:
                    raise AnalysisError('get_or_compile forks on a concrete cache (%d paths)' % len(res))
                r = res[0]
                if not r.ok:
                    rr.fail('CompiledTemplateManager.get_or_compile:raises', fi.where, 'cache_max=%d, %d cached: raises %s' % (cache_max, filled, r.exc.cls))
                    continue
                compiled = len([e for e in r.events if e[0] == 'compile'])
                cache = r.locals['self'].fields['cache']
                if hit:
                    if compiled or r.value.fields.get('n') != 'hit':
                        rr.fail('CompiledTemplateManager.get_or_compile:hit', fi.where, 'a cached template is recompiled or another one returned on a hit')
                else:
                    if compiled != 1 or not r.value.fields.get('__new__'):
                        rr.fail('CompiledTemplateManager.get_or_compile:miss', fi.where, 'a miss compiles %d times / returns %r' % (compiled, r.value))
                    if cache_max == 0 and cache:
                        rr.fail('CompiledTemplateManager.get_or_compile:size0', fi.where, 'with cache size 0 the template is stored anyway')
                    if cache_max > 0 and ('IDS:IDS', 'TG') not in cache:
                        rr.fail('CompiledTemplateManager.get_or_compile:store', fi.where, 'with cache size %d the compiled template is not stored under its key' % cache_max)
                if len(cache) > max(cache_max, 0) and cache_max >= 0 and len(cache) > cache_max:
                    if not (cache_max == 0 and not cache):
                        rr.fail('CompiledTemplateManager.get_or_compile:bound', fi.where, 'the cache holds %d templates with cache_max=%d' % (len(cache), cache_max))
    rr.require_floor(8)
    return rr


def rule_r7(repo):
    rr = RuleResult('C13.R7', 'no function mutates module-level state (apart from the table-group cache, through its owner)')
    n = 0
    for m in repo.modules.values():
        module_names = set(m.const_nodes)
        for fi in list(m.funcs.values()) + [f for c in m.classes.values() for f in c.methods.values()]:
            local_names = set(fi.params)
            for node in ast.walk(fi.node):
                if isinstance(node, ast.Assign):
                    for t in node.targets:
                        if isinstance(t, ast.Name):
                            local_names.add(t.id)
            for node in ast.walk(fi.node):
                tgt = None
                if isinstance(node, (ast.Assign, ast.AugAssign)):
                    for t in (node.targets if isinstance(node, ast.Assign) else [node.target]):
                        if isinstance(t, ast.Subscript) and isinstance(t.value, ast.Name):
                            tgt = t.value.id
                elif isinstance(node, ast.Call) and isinstance(node.func, ast.Attribute) and node.func.attr in MUTATORS and isinstance(node.func.value, ast.Name):
                    tgt = node.func.value.id
                if tgt and tgt in module_names and tgt not in local_names:
                    rr.fail('%s:mutates-%s' % (fi.qualname, tgt), '%s:%d' % (fi.module.relpath, node.lineno), '%s mutates the module-level object %s' % (fi.qualname, tgt))
            n += 1
    rr.instance('%d functions scanned for writes to module-level containers' % n)
    # class-level objects that act as process-wide state: a container bound in a class body that some function changes in place
    # (through whatever object it is reached), or an instance of a repository class whose methods write to themselves.  A class-level
    # table that is only read (a dispatch table, a table of defaults) is a constant, whatever its type.
    mutated_attrs = set()
    for fi in repo.all_funcs():
        for node in ast.walk(fi.node):
            base = None
            if isinstance(node, (ast.Assign, ast.AugAssign, ast.Delete)):
                for t in (node.targets if isinstance(node, (ast.Assign, ast.Delete)) else [node.target]):
                    if isinstance(t, ast.Subscript) and isinstance(t.value, ast.Attribute):
                        base = t.value
                    elif isinstance(node, ast.AugAssign) and isinstance(t, ast.Attribute):
                        base = t
                    if base is not None:
                        mutated_attrs.add(base.attr)
            elif isinstance(node, ast.Call) and isinstance(node.func, ast.Attribute) and node.func.attr in MUTATORS and isinstance(node.func.value, ast.Attribute):
                mutated_attrs.add(node.func.value.attr)
    from sa.patheval import NT_FIELDS, VALUE_CLASSES, Interp as _I
    _I(repo, None)      # (fills the namedtuple registry)
    containers = ('dict', 'list', 'set', 'OrderedDict', 'defaultdict', 'deque', 'bytearray', 'Counter')
    singles = []
    for c in repo.class_index.values():
        for ci in c:
            for k, v in ci.class_consts.items():
                stateful = False
                if isinstance(v, (ast.Dict, ast.List, ast.Set)) or (isinstance(v, ast.Call) and norm(v.func).split('.')[-1] in containers):
                    stateful = k in mutated_attrs
                elif isinstance(v, ast.Call):
                    callee = norm(v.func).split('.')[-1]
                    if callee in VALUE_CLASSES or callee in NT_FIELDS:
                        stateful = False
                    elif repo.has_cls(callee):
                        stateful = any(effects(f).written('self') for n_, f in repo.cls(callee).methods.items() if n_ != '__init__')
                    else:
                        stateful = k in mutated_attrs
                if stateful:
                    singles.append('%s.%s' % (ci.name, k))
    rr.instance('class-level objects that are changed in place: %s' % sorted(singles))
    if sorted(singles) != ['TableGroupCacheManager._TABLE_GROUP_CACHE']:
        rr.fail('class-level-state', 'pybufrkit', 'class-level objects that are changed in place are %s; only the table-group cache is expected to be process-wide' % sorted(singles))
    rr.require_floor(2)
    return rr


def rule_r9(repo):
    """Two coder states created in one process (one interpreter, so module-level objects are shared as at run time) must not
    hold the same mutable object in any register: what the first message leaves in it would be there for the second."""
    from sa.rules.walk import WalkInterp, fold_init
    from sa.rules import c06
    rr = RuleResult('C13.R9', 'two coder states of one process share no mutable register object (fold of CoderState.__init__ twice in one interpreter)')
    init = repo.own_method('CoderState', '__init__')
    for comp in (False, True):
        it = WalkInterp(repo, 'Decoder')
        a = fold_init(repo, comp, 2, interp=it)
        b = fold_init(repo, comp, 2, interp=it)
        pairs = list(zip(a, b))
        if not comp:
            # ... and after each has been switched to its second subset
            switch = repo.own_method('CoderState', 'switch_subset_context')
            a2 = fold_init(repo, comp, 2, interp=it)
            b2 = fold_init(repo, comp, 2, interp=it)
            for x, y in zip(a2, b2):
                rx = [r for r in it.run_function(switch, lambda: {'self': x, switch.params[1]: 1}, self_class='CoderState') if r.ok]
                ry = [r for r in it.run_function(switch, lambda: {'self': y, switch.params[1]: 1}, self_class='CoderState') if r.ok]
                if not rx or not ry:
                    raise AnalysisError('switch_subset_context could not be folded')
                pairs.append((rx[0].locals['self'], ry[0].locals['self']))
        from sa.rules.walk import REGISTERS
        for sa_, sb in pairs:
            for attr in sorted(set(sa_.fields) | set(REGISTERS)):
                # read through the instance, as the walk does: a register that __init__ does not assign is the class-level default
                va = sa_.fields[attr] if attr in sa_.fields else it.load_attr(sa_, attr, None, None)
                vb = sb.fields[attr] if attr in sb.fields else it.load_attr(sb, attr, None, None)
                rr.instance('CoderState.%s (%s)' % (attr, 'compressed' if comp else 'uncompressed'))
                if c06._mutable(va) and va is vb:
                    rr.fail('CoderState.%s:shared-between-messages' % attr, init.where,
                            'two CoderState objects created one after the other hold the same %s object in %s: it is a module-level '
                            'or class-level default, so entries the first message appends are seen by the second' % (type(va).__name__, attr))
                elif isinstance(va, list) and isinstance(vb, list):
                    for x in va:
                        if c06._mutable(x) and any(x is y for y in vb):
                            rr.fail('CoderState.%s:shared-between-messages' % attr, init.where,
                                    'two CoderState objects share a per-subset record inside %s' % attr)
                            break
    rr.require_floor(40)
    return rr


def _param_mutations(fi, pname):
    """Statements of `fi` that change the object bound to parameter `pname` in place, and calls that pass it on."""
    muts, passes = [], []
    rebound = None      # line of the first statement that binds the name to another object (e.g. a copy)
    for n in ast.walk(fi.node):
        if isinstance(n, ast.Assign) and any(isinstance(t, ast.Name) and t.id == pname for t in n.targets):
            rebound = n.lineno if rebound is None else min(rebound, n.lineno)
    for n in ast.walk(fi.node):
        tg = []
        if isinstance(n, ast.Assign):
            tg = n.targets
        elif isinstance(n, ast.AugAssign):
            tg = [n.target]
        elif isinstance(n, ast.Delete):
            tg = n.targets
        for t in tg:
            if isinstance(t, (ast.Subscript, ast.Attribute)) and isinstance(t.value, ast.Name) and t.value.id == pname:
                muts.append(n)
            if isinstance(n, ast.AugAssign) and isinstance(t, ast.Name) and t.id == pname:
                muts.append(n)        # += on a list / dict extends in place
        if isinstance(n, ast.Call):
            f = n.func
            if isinstance(f, ast.Attribute) and f.attr in MUTATORS and isinstance(f.value, ast.Name) and f.value.id == pname:
                muts.append(n)
            for i, a in enumerate(n.args):
                if isinstance(a, ast.Name) and a.id == pname:
                    passes.append((n, i, None))
            for k in n.keywords:
                if isinstance(k.value, ast.Name) and k.value.id == pname:
                    passes.append((n, None, k.arg))
    if rebound is not None:
        # after `p = dict(p)` the name no longer denotes the caller's object (straight-line approximation by line order)
        muts = [m for m in muts if m.lineno < rebound]
        passes = [x for x in passes if x[0].lineno <= rebound]
    return muts, passes, rebound


def _bind(callee, call_node, pos, kw, bound_method):
    params = list(callee.params)
    if bound_method and params and params[0] in ('self', 'cls'):
        params = params[1:]
    if kw is not None:
        return kw if kw in params else None
    return params[pos] if pos is not None and pos < len(params) else None


def rule_r10(repo):
    """What a coder, querent or renderer object keeps for its whole life (attributes assigned in __init__) may be handed to helpers
    for reading only: a helper that pops from / writes into such an argument changes the configuration for the next message."""
    rr = RuleResult('C13.R10', 'long-lived configuration of a coder object is never modified in place by the helpers it is handed to')
    owners = ('Decoder', 'Encoder', 'Coder', 'TemplateCompiler', 'DataQuerent', 'MetadataQuerent', 'BufrMessageQuerent',
              'FlatTextRenderer', 'NestedTextRenderer', 'FlatJsonRenderer', 'NestedJsonRenderer', 'SectionConfigurer', 'CompiledTemplateManager')
    n_sites = 0
    for cname in owners:
        if not repo.has_cls(cname):
            continue
        init = repo.method(cname, '__init__', required=False)
        if init is None:
            continue
        attrs = effects(init).written('self')
        cg = CallGraph(repo, cname)
        for name, fi in sorted(repo.cls(cname).methods.items()):
            if name == '__init__':
                continue
            for call in effects(fi).calls:
                handed = []
                for i, a in enumerate(call.args):
                    if isinstance(a, ast.Attribute) and isinstance(a.value, ast.Name) and a.value.id == 'self' and a.attr in attrs:
                        handed.append((a.attr, i, None))
                for k in call.keywords:
                    a = k.value
                    if isinstance(a, ast.Attribute) and isinstance(a.value, ast.Name) and a.value.id == 'self' and a.attr in attrs:
                        handed.append((a.attr, None, k.arg))
                if not handed:
                    continue
                callees = cg.resolve_callee(fi, call.func)
                for attr, pos, kw in handed:
                    n_sites += 1
                    rr.instance('%s.%s hands self.%s to %s' % (cname, name, attr, ', '.join(c.qualname for c in callees) or norm(call.func) + ' (not a repository function)'))
                    work = [(c, _bind(c, call, pos, kw, isinstance(call.func, ast.Attribute)), 0) for c in callees]
                    seen = set()
                    while work:
                        callee, pname, depth = work.pop()
                        if pname is None or (callee.qualname, pname) in seen or depth > 4:
                            continue
                        seen.add((callee.qualname, pname))
                        muts, passes, rebound = _param_mutations(callee, pname)
                        for m in muts:
                            rr.fail('%s.%s:%s' % (cname, attr, callee.qualname), '%s:%d' % (callee.module.relpath, m.lineno),
                                    '%s changes its argument %s in place (%s); %s.%s passes the %s object\'s own self.%s there, so the '
                                    'next message handled by the same object sees a different configuration' % (
                                        callee.qualname, pname, norm(m)[:80], cname, name, cname, attr))
                        cg2 = CallGraph(repo, callee.cls.name if callee.cls else cname)
                        for c2, pos2, kw2 in passes:
                            for cc in cg2.resolve_callee(callee, c2.func):
                                work.append((cc, _bind(cc, c2, pos2, kw2, isinstance(c2.func, ast.Attribute)), depth + 1))
    if n_sites < 2:
        raise AnalysisError('only %d call sites hand a long-lived attribute to a helper (expected the overrides / table-directory sites)' % n_sites)
    rr.require_floor(2)
    return rr


def run(repo, check):
    from sa.rules import c08
    check.run_rule(rule_r1, repo)
    check.run_rule(rule_r2, repo)
    check.run_rule(rule_r3, repo)
    r4 = check.call(c08.rule_r5, repo)
    r4.rule = 'C13.R4'
    for f in r4.findings:
        f.rule = 'C13.R4'
    check.add(r4)
    check.run_rule(rule_r5, repo)
    check.run_rule(rule_r6, repo)
    check.run_rule(rule_r7, repo)
    from sa.rules import c17
    r8 = check.call(c17.rule_r3, repo)
    r8.rule = 'C13.R8'
    r8.title = 'configuration transformers never write into the decoder\'s shared section layouts (shared with C17.R3)'
    r8.findings = [f for f in r8.findings if 'mutates' in f.key]
    for f in r8.findings:
        f.rule = 'C13.R8'
    check.add(r8)
    check.run_rule(rule_r9, repo)
    check.run_rule(rule_r10, repo)
    check.assumptions = ['aliasing is tracked by name only (receivers named by the repository\'s conventions: descriptor, member, *_node, state); a store through an '
                         'unconventional alias would be missed',
                         'equality of results across histories is a runtime fact; the rules decide that the code has no channel through which history could act']
