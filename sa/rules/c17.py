"""
C17  Metadata queries and metadata-only decoding agree with the full decode (structural part).

R1 MetadataExprParser.parse folded over a family of expressions: result / MetadataExprParsingError only
R2 MetadataQuerent.query: first match in section order, explicit index by the section's `index` metadata
R3 configuration transformers: info mode truncates before the data section and ends the message there;
   transformers never modify the shared configuration; Decoder.process applies them as requested
R4 layout / code agreement for editions 2, 3, 4: every message-level parameter the code reads is provided
"""
from __future__ import print_function

import ast
import copy

from sa.model import AnalysisError, norm, effects
from sa.patheval import Interp, Obj, Sym, Top, FuncRef
from sa.report import RuleResult
from sa.rules.c04 import SectionModel, SecInterp, param, ProcInterp

ERR = 'MetadataExprParsingError'


def ref_parse(expr):
    s = expr.strip()
    if not s.startswith('%'):
        return 'error'
    body = s[1:]
    if '.' in body:
        idx, name = body.split('.', 1)
        try:
            return (int(idx), name)
        except ValueError:
            return 'error'
    return (None, body)


def rule_r1(repo):
    rr = RuleResult('C17.R1', 'metadata expression parsing: (section index, name) or MetadataExprParsingError, folded over expression shapes')
    fi = repo.own_method('MetadataExprParser', 'parse')
    exprs = ['', ' ', '%length', ' %length ', '%1.year', '%0.length', '%5.x', '%x.y', '%1.2.x', 'length', '$length', '%', '%.x', '%-1.x', '% 1.x',
             '%1 .x', '%12.n_subsets', 'a%b', '.%x', '%1.', '%n_subsets\n', '\t%3.n_subsets', '%1e3.x', '%0x1.y', '%+2.z', '%１.x', '%%', '%a.b.c',
             # wave 9 (C17-23): the indicator is required whether or not a section index follows
             '$0.length', '10.length', '#1.section_length', '1.year', ' .x', '.length', 'x1.year', '/1.year', '0.%length']
    it = Interp(repo, 'MetadataExprParser')
    for e in exprs:
        res = it.run_function(fi, lambda: {'self': Obj('MetadataExprParser', {}), 'metadata_expr': e}, self_class='MetadataExprParser')
        want = ref_parse(e)
        rr.instance('parse(%r) -> %r' % (e, want))
        if len(res) != 1:
            raise AnalysisError('MetadataExprParser.parse(%r) forks into %d paths on a concrete string' % (e, len(res)))
        r = res[0]
        if not r.ok:
            if r.exc.cls != ERR:
                rr.fail('MetadataExprParser.parse:foreign-error', fi.where, 'parse(%r) raises %s; the only error allowed is %s' % (e, r.exc.cls, ERR), witness={'expr': e})
            elif want != 'error':
                rr.fail('MetadataExprParser.parse:rejects', fi.where, 'parse(%r) is rejected; the documented result is %r' % (e, want), witness={'expr': e})
            continue
        got = r.value
        if want == 'error':
            rr.fail('MetadataExprParser.parse:accepts', fi.where, 'parse(%r) returns %r; an expression not starting with %% or with a non-numeric section index must be rejected' % (e, got),
                    witness={'expr': e})
        elif tuple(got) != want:
            rr.fail('MetadataExprParser.parse:result', fi.where, 'parse(%r) returns %r, expected %r' % (e, got, want), witness={'expr': e})
    # explicit raises are the metadata error
    from sa.model import exception_class_of_raise
    for r in effects(fi).raises:
        c = exception_class_of_raise(repo, fi, r)
        rr.instance('explicit raise %s' % c)
        if c != ERR:
            rr.fail('MetadataExprParser.parse:raise-class', '%s:%d' % (fi.module.relpath, r.lineno), 'explicit raise of %s' % c)
    rr.require_floor(25)
    return rr


def message_without_section2():
    def sec(idx, ps):
        return SectionModel(ps, {'index': idx})
    secs = [
        sec(0, [param('start_signature', 32, 'bytes', value=b'BUFR'), param('length', 24, value=1000), param('edition', 8, value=4)]),
        sec(1, [param('section_length', 24, value=22), param('year', 16, value=2020), param('is_section2_presents', 1, 'bool', value=False)]),
        sec(3, [param('section_length', 24, value=9), param('n_subsets', 16, value=7), param('is_compressed', 1, 'bool', value=True)]),
        sec(4, [param('section_length', 24, value=500), param('template_data', 0, 'template_data', value=Sym('TD'))]),
        sec(5, [param('stop_signature', 32, 'bytes', value=b'7777')]),
    ]
    return Obj('BufrMessage', {'sections': secs})


def rule_r2(repo):
    rr = RuleResult('C17.R2', 'metadata lookup: first section (in order) holding the name; %k.name looks in the section whose index is k')
    fi = repo.own_method('MetadataQuerent', 'query')
    cases = [('%length', 1000), ('%section_length', 22), ('%1.section_length', 22), ('%3.section_length', 9), ('%4.section_length', 500),
             ('%2.section_length', None), ('%n_subsets', 7), ('%3.n_subsets', 7), ('%1.n_subsets', None), ('%0.edition', 4), ('%5.stop_signature', b'7777'),
             ('%9.length', None), ('%nothing', None), ('%4.template_data', 'TD'), ('%year', 2020), ('%0.year', None)]

    class Q(SecInterp):
        def on_load_attr(self, base, attr, node, frame):
            if isinstance(base, Obj) and base.cls == 'MetadataQuerent' and attr == 'metadata_expr_parser':
                return Obj('MetadataExprParser', {})
            return self.NOT_HANDLED
    for expr, want in cases:
        it = Q(repo, 'MetadataQuerent')
        res = it.run_function(fi, lambda: {'self': Obj('MetadataQuerent', {}), 'bufr_message': message_without_section2(), 'metadata_expr': expr},
                              self_class='MetadataQuerent')
        rr.instance('query(%r) on a message without section 2 -> %r' % (expr, want))
        if len(res) != 1 or not res[0].ok:
            rr.fail('MetadataQuerent.query:outcome', fi.where, 'query(%r): %s' % (expr, [r.describe() for r in res]), witness={'expr': expr})
            continue
        got = res[0].value
        g = repr(got) if isinstance(got, Sym) else got
        if g != want:
            rr.fail('MetadataQuerent.query:value', fi.where,
                    'query(%r) on sections [0, 1, 3, 4, 5] returns %r, expected %r (first match in section order; an explicit index selects the section '
                    'with that index, not the k-th section present)' % (expr, g, want), witness={'expr': expr})
    rr.require_floor(14)
    return rr


def rule_r2_full(repo):
    """Thorough tier: the property's own quantifier -- every parameter name of the bundled layouts x editions 2,3,4 x section 2
    present / absent x explicit section index 0..5 and out of range."""
    rr = RuleResult('C17.R2t', 'metadata lookup folded over every parameter name x edition x section 2 present/absent x section index')
    fi = repo.own_method('MetadataQuerent', 'query')

    class Q(SecInterp):
        def on_load_attr(self, base, attr, node, frame):
            if isinstance(base, Obj) and base.cls == 'MetadataQuerent' and attr == 'metadata_expr_parser':
                return Obj('MetadataExprParser', {})
            return self.NOT_HANDLED
    n = 0
    for ed in (2, 3, 4):
        for present in (True, False):
            secs = []
            values = {}
            for idx in repo.section_indices():
                if idx == 2 and not present:
                    continue
                lay = repo.layout(idx, ed)
                ps = []
                for k, pr in enumerate(lay.get('parameters', [])):
                    v = 'v%d_%d' % (idx, k)
                    values[(idx, pr['name'])] = v
                    ps.append(param(pr['name'], pr.get('nbits', 0), pr.get('type', 'uint'), value=v))
                secs.append((idx, ps))
            names = sorted(set(nm for (_, nm) in values))

            def msg():
                return Obj('BufrMessage', {'sections': [SectionModel([Obj(p.cls, dict(p.fields)) for p in ps], {'index': i}) for i, ps in secs]})
            order = [i for i, _ in secs]
            for nm in names:
                exprs = [('%' + nm, None)] + [('%%%d.%s' % (k, nm), k) for k in (0, 1, 2, 3, 4, 5, 6, 9)]
                for expr, k in exprs:
                    if k is None:
                        want = None
                        for i in order:
                            if (i, nm) in values:
                                want = values[(i, nm)]
                                break
                    else:
                        want = values.get((k, nm)) if k in order else None
                    it = Q(repo, 'MetadataQuerent')
                    res = it.run_function(fi, lambda: {'self': Obj('MetadataQuerent', {}), 'bufr_message': msg(), 'metadata_expr': expr}, self_class='MetadataQuerent')
                    n += 1
                    if len(res) != 1 or not res[0].ok or res[0].value != want:
                        rr.fail('MetadataQuerent.query:full', fi.where, 'edition %d, section 2 %s: query(%r) gives %s, expected %r' % (
                            ed, 'present' if present else 'absent', expr, [r.value if r.ok else r.describe() for r in res], want),
                            witness={'edition': ed, 'section2': present, 'expr': expr})
            rr.instance('edition %d, section 2 %s: %d names x 9 forms' % (ed, 'present' if present else 'absent', len(names)))
    rr.extra = {'queries_folded': n}
    rr.require_floor(6)
    return rr


def rule_r3(repo):
    rr = RuleResult('C17.R3', 'metadata-only decoding stops before the data section; configuration transformers leave the shared layouts untouched')
    info = repo.own_method('SectionConfigurer', 'info_configuration')
    ign = repo.own_method('SectionConfigurer', 'ignore_value_expectation')
    it = Interp(repo, 'SectionConfigurer')
    for (idx, ed), lay in sorted(repo.layouts.items(), key=lambda kv: (kv[0][0], kv[0][1] or 0)):
        cfg = dict((k, v) for k, v in lay.items() if k != '__file__')
        cfg = copy.deepcopy(cfg)
        snap = copy.deepcopy(cfg)
        res = it.run_function(info, lambda: {'config': cfg})
        rr.instance('info_configuration on %s' % lay['__file__'])
        types = [p['type'] for p in snap['parameters']]
        for r in res:
            if not r.ok or not isinstance(r.value, dict):
                rr.fail('SectionConfigurer.info_configuration:outcome', info.where, '%s: %s' % (lay['__file__'], r.describe()))
                continue
            out = r.value
            if 'template_data' in types:
                k = types.index('template_data')
                if [p['name'] for p in out['parameters']] != [p['name'] for p in snap['parameters'][:k]] or out.get('end_of_message') is not True:
                    rr.fail('SectionConfigurer.info_configuration:truncate', info.where,
                            '%s in info mode keeps parameters %s with end_of_message=%r; expected everything before the data section and the message ending there' % (
                                lay['__file__'], [p['name'] for p in out['parameters']], out.get('end_of_message')))
            else:
                if [p['name'] for p in out['parameters']] != [p['name'] for p in snap['parameters']] or bool(out.get('end_of_message', False)) != bool(snap.get('end_of_message', False)):
                    rr.fail('SectionConfigurer.info_configuration:other-sections', info.where, '%s is altered in info mode' % lay['__file__'])
            rd = lambda c: (c.get('index'), c.get('description', ''), bool(c.get('optional', False)))
            pv = lambda q: (q.get('name'), q.get('nbits'), q.get('type'), q.get('expected', None), bool(q.get('as_property', False)))
            other = [k for k, a_, b_ in zip(('index', 'description', 'optional'), rd(out), rd(snap)) if a_ != b_]
            kept = [p for p in out['parameters'] if pv(p) not in [pv(q) for q in snap['parameters']]]
            if other or kept:
                rr.fail('SectionConfigurer.info_configuration:other-keys', info.where, '%s in info mode also changes %s%s: only the parameters from the data section on are '
                        'dropped (and the message ends there)' % (lay['__file__'], other, ' and rewrites parameters %s' % [p.get('name') for p in kept] if kept else ''),
                        witness={'layout': lay['__file__']})
            if cfg != snap:
                rr.fail('SectionConfigurer.info_configuration:mutates', info.where, 'info_configuration modifies the shared configuration of %s' % lay['__file__'])
        cfg2 = copy.deepcopy(snap)
        res = it.run_function(ign, lambda: {'config': cfg2})
        for r in res:
            if not r.ok or not isinstance(r.value, dict):
                rr.fail('SectionConfigurer.ignore_value_expectation:outcome', ign.where, '%s: %s' % (lay['__file__'], r.describe()))
                continue
            if any(p.get('expected') is not None for p in r.value['parameters']):
                rr.fail('SectionConfigurer.ignore_value_expectation:effect', ign.where, 'expectations survive in %s' % lay['__file__'])
            # ... and nothing but the expectations changes: the section stays optional / last / indexed as its layout file says, every
            # parameter keeps its name, width, type and property flag
            # (compared as configure_section reads a configuration: index, description, optional, end_of_message with their defaults, and
            # per parameter name / nbits / type / expected / as_property with theirs - a key that is spelled out with its default, or
            # one that nothing reads, makes no difference)
            def view(c, blank):
                return {'index': c.get('index'), 'description': c.get('description', ''), 'optional': bool(c.get('optional', False)),
                        'end_of_message': bool(c.get('end_of_message', False)),
                        'parameters': [(q.get('name'), q.get('nbits'), q.get('type'), None if blank else q.get('expected', None), bool(q.get('as_property', False)))
                                       for q in c.get('parameters', []) if isinstance(q, dict)]}
            want_cfg, got_cfg = view(snap, True), view(r.value, False)
            if got_cfg != want_cfg:
                diff = sorted(k for k in set(got_cfg) | set(want_cfg) if got_cfg.get(k) != want_cfg.get(k))
                rr.fail('SectionConfigurer.ignore_value_expectation:other-keys', ign.where, 'ignoring the value expectations of %s also changes %s (%s): only the expected '
                        'values may differ - e.g. a layout that loses its "optional" marker is decoded for every message, present or not' % (
                            lay['__file__'], diff, ', '.join('%s: %r -> %r' % (k, want_cfg.get(k, '<absent>'), got_cfg.get(k, '<absent>')) for k in diff if k != 'parameters')),
                        witness={'layout': lay['__file__'], 'keys': diff})
            if cfg2 != snap:
                changed = [p['name'] for p, q in zip(cfg2['parameters'], snap['parameters']) if p != q]
                rr.fail('SectionConfigurer.ignore_value_expectation:mutates', ign.where,
                        'ignore_value_expectation writes into the shared configuration of %s (parameters %s): every later decode with the same decoder stops '
                        'validating the signatures' % (lay['__file__'], changed))
    # Decoder.process hands the requested transformers to configure_section
    fi = repo.own_method('Decoder', 'process')
    for info_only in (False, True):
        for ignore in (False, True):
            sec = Obj('BufrSectionStub', {'end_of_message': True})
            pit = ProcInterp(repo, [(sec, 64)])
            res = pit.run_function(fi, lambda: {'self': Obj('Decoder', {}), 's': Sym('S'), 'file_path': 'f', 'start_signature': None,
                                                'info_only': info_only, 'ignore_value_expectation': ignore, 'wire_template_data': True}, self_class='Decoder')
            rr.instance('Decoder.process(info_only=%s, ignore_value_expectation=%s) transformers' % (info_only, ignore))
            for r in res:
                conf = [e for e in r.events if e[0] == 'configure']
                names = []
                if conf:
                    for t in conf[0][2]:
                        names.append(t.fi.name if isinstance(t, FuncRef) else repr(t))
                want = (['info_configuration'] if info_only else []) + (['ignore_value_expectation'] if ignore else [])
                if not r.ok or names != want:
                    rr.fail('Decoder.process:transformers', fi.where, 'info_only=%s, ignore_value_expectation=%s: transformers %s (expected %s)' % (info_only, ignore, names, want))
    # configure_section applies the transformers, in order, each to the result of the one before, and builds the section from the
    # final configuration (folded with two scripted transformers; how the chain is written - loop, reduce - does not matter)
    cs = repo.own_method('SectionConfigurer', 'configure_section')
    from sa.patheval import Native, UnknownMethod
    from sa.rules.c04 import SectionModel

    class Tr(Native):
        def __init__(self2, name, log):
            self2.name, self2.log = name, log

        def __repr__(self2):
            return 'transformer ' + self2.name

        def call(self2, args, kwargs, interp, frame, node):
            cfg = args[0]
            self2.log.append((self2.name, cfg.get('__by') if isinstance(cfg, dict) else repr(cfg)))
            out = dict(cfg)
            out['__by'] = (cfg.get('__by') or ()) + (self2.name,)
            if self2.name == 't2':
                out['parameters'] = list(cfg['parameters'])[:-1]
            return out
    base_cfg = {'index': 3, 'description': 'd', 'parameters': [{'name': 'section_length', 'nbits': 24, 'type': 'uint'}, {'name': 'a', 'nbits': 8, 'type': 'uint'},
                                                            {'name': 'b', 'nbits': 8, 'type': 'uint'}]}
    log = []

    class CI(SecInterp):
        def on_call(self2, text, callee, args, kwargs, node, frame):
            if text == 'self.get_configuration' or (isinstance(callee, FuncRef) and callee.fi.name == 'get_configuration'):
                return dict(base_cfg)
            if text == 'BufrSection':
                return SectionModel([], {})
            if isinstance(callee, UnknownMethod) and isinstance(callee.recv, SectionModel):
                return Top('x')
            return SecInterp.on_call(self2, text, callee, args, kwargs, node, frame)

        def construct(self2, cname, args, kwargs, node, frame):
            o = SecInterp.construct(self2, cname, args, kwargs, node, frame)
            if cname == 'SectionParameter' and isinstance(o, Obj):
                self2.event('parameter', o.fields.get('name'))
            return o
    it3 = CI(repo, 'SectionConfigurer')
    res = it3.run_function(cs, lambda: {'self': Obj('SectionConfigurer', {}), 'bufr_message': Obj('BufrMessage', {'sections': []}), 'section_index': 3,
                                        'configuration_transformers': (Tr('t1', log), Tr('t2', log))}, self_class='SectionConfigurer')
    rr.instance('configure_section applies each transformer to the result of the one before and uses the final configuration')
    oks = [r for r in res if r.ok]
    if not oks:
        rr.fail('SectionConfigurer.configure_section:transformers', cs.where, 'configure_section with two transformers: %s' % [r.describe() for r in res])
    for r in oks:
        params = [e[1] for e in r.events if e[0] == 'parameter']
        n = len(oks)
        calls = log[:2]
        if calls != [('t1', None), ('t2', ('t1',))] or params != ['section_length', 'a']:
            rr.fail('SectionConfigurer.configure_section:transformers', cs.where, 'with the transformers (t1, t2) configure_section calls %s and builds the parameters %s; expected '
                    't1 on the stored configuration, t2 on the result of t1, and the section built from what t2 returns (section_length, a)' % (calls, params))
        del log[:]
    rr.require_floor(12)
    return rr


MESSAGE_PARAMS = ('length', 'edition', 'n_subsets', 'is_compressed', 'unexpanded_descriptors', 'template_data', 'master_table_number',
                  'originating_centre', 'originating_subcentre', 'master_table_version', 'local_table_version', 'data_category',
                  'is_section2_presents', 'year', 'month', 'day', 'hour', 'minute', 'second')


def rule_r4(repo):
    rr = RuleResult('C17.R4', 'every message-level parameter the code reads is provided by the section layouts of editions 2, 3 and 4')
    reads = {}
    for f in repo.all_funcs():
        for n in ast.walk(f.node):
            if isinstance(n, ast.Attribute) and n.attr == 'value' and isinstance(n.value, ast.Attribute) and isinstance(n.value.value, ast.Name) \
                    and n.value.value.id in ('bufr_message', 'self', 'm') and n.value.attr in MESSAGE_PARAMS:
                if n.value.value.id == 'self' and (f.cls is None or f.cls.name != 'BufrMessage'):
                    continue
                reads.setdefault(n.value.attr, '%s:%d' % (f.module.relpath, n.lineno))
    init = repo.own_method('BufrMessage', '__init__')
    defaults = set()
    for n in ast.walk(init.node):
        if isinstance(n, ast.Assign):
            for t in n.targets:
                if isinstance(t, ast.Attribute) and isinstance(t.value, ast.Name) and t.value.id == 'self' and t.attr.startswith('_'):
                    defaults.add(t.attr[1:])
    if len(reads) < 10:
        raise AnalysisError('only %d message-level parameter reads found' % len(reads))
    for ed in (2, 3, 4):
        provided = set()
        for idx in repo.section_indices():
            lay = repo.layout(idx, ed)
            for p in lay.get('parameters', []):
                if p.get('as_property'):
                    provided.add(p['name'])
        for name, where in sorted(reads.items()):
            rr.instance('edition %d provides %s' % (ed, name))
            if name not in provided and name not in defaults:
                rr.fail('layout:edition%d:%s' % (ed, name), where, 'the code reads bufr_message.%s.value (%s) but no section layout of edition %d provides it as a '
                        'message property and BufrMessage.__init__ has no default' % (name, where, ed))
        # properties exist on BufrMessage for everything the layouts expose
        bm = repo.cls('BufrMessage')
        for name in sorted(provided):
            if name not in bm.methods:
                rr.fail('BufrMessage:property:%s' % name, init.where, 'layout parameter %s is exposed as_property but BufrMessage has no such property' % name)
    rr.require_floor(30)
    return rr


def rule_r6(repo):
    """SectionConfigurer.__init__ and get_configuration folded on the bundled definition files: a message of edition e is laid out by
    the file written for section i and edition e when there is one, otherwise by the section's default file - for every section and
    editions 1..5, a message that does not know its edition yet, and edition 0."""
    import os
    from sa.patheval import Stub, ModRef
    rr = RuleResult('C17.R6', 'every section of every edition is read with the layout file written for it (SectionConfigurer folded on the bundled definitions)')
    init = repo.own_method('SectionConfigurer', '__init__')
    getc = repo.own_method('SectionConfigurer', 'get_configuration')
    L = repo.layouts
    by_file = dict((os.path.basename(v['__file__']), v) for v in L.values())
    listing = sorted(by_file) + ['README.txt', 'sections.json.bak', 'other.json']

    class I(Interp):
        def on_call(self, text, callee, args, kwargs, node, frame):
            if text == 'os.listdir':
                return list(listing)
            if text == 'os.path.join':
                return '/'.join(str(a) for a in args)
            if text == 'open':
                name = str(args[0]).split('/')[-1]
                return Stub('file', attrs={'name': name})
            if text == 'json.load':
                f = args[0]
                name = f.attrs.get('name') if isinstance(f, Stub) else None
                if name not in by_file:
                    raise AnalysisError('SectionConfigurer.__init__ opens %r, which is not a section layout file' % (name,))
                return by_file[name]
            if text.startswith('log.'):
                return None
            return self.NOT_HANDLED
    it = I(repo, 'SectionConfigurer')
    res = it.run_function(init, lambda: {'self': Obj('SectionConfigurer', {}), 'definitions_dir': '/defs'}, self_class='SectionConfigurer')
    oks = [r for r in res if r.ok]
    if len(oks) != 1:
        raise AnalysisError('SectionConfigurer.__init__ does not fold to one path: %s' % [r.describe() for r in res])
    conf = oks[0].locals['self']
    n = 0
    for idx in repo.section_indices():
        for ed in (None, 0, 1, 2, 3, 4, 5):
            want = repo.layout(idx, ed if ed else None)
            msg = Obj('BufrMessage', {'edition': None if ed is None else Obj('SectionParameter', {'name': 'edition', 'value': ed})})
            res = it.run_function(getc, lambda: {'self': conf, 'bufr_message': msg, 'section_index': idx}, self_class='SectionConfigurer')
            n += 1
            for r in res:
                got = r.value if r.ok else None
                if not r.ok or got is not want:
                    rr.fail('layout-selection:section%d' % idx, getc.where, 'section %d of a message of edition %s is read with %s; expected %s (the file for that '
                            'edition, else the default of the section)' % (idx, 'unknown yet' if ed is None else ed,
                                                                           got.get('__file__') if isinstance(got, dict) else (r.describe() if not r.ok else repr(got)[:80]), want['__file__']),
                            witness={'section': idx, 'edition': ed})
        rr.instance('section %d: editions unknown, 0..5' % idx)
    rr.extra = {'selections_folded': n}
    rr.require_floor(5)
    return rr

def rule_r7(repo):
    """Who-may-write: once a section parameter has been read, nothing on the decode side assigns to its value.  The decoder stores the
    value it reads through the local name of the parameter it is decoding; an assignment to `<object>.<parameter name>.value` (a named
    parameter of the message or of a section) anywhere in the code reachable from Decoder.process / generate_bufr_message rewrites
    what was read - the full decode then reports another value than the metadata-only decode of the same bytes."""
    import ast
    from sa.model import CallGraph
    rr = RuleResult('C17.R7', 'no code reachable from the decoder overwrites the value of a named section parameter after it was read')
    cg = CallGraph(repo, 'Decoder')
    entries = [repo.method('Decoder', 'process'), repo.func('decoder', 'generate_bufr_message')]
    for nm in ('build_template', 'wire', 'subset'):
        f = repo.method('BufrMessage', nm, required=False)
        if f is not None:
            entries.append(f)
    reach = cg.reachable(entries)
    n = 0
    for fi in reach:
        if fi.module.name in ('encoder',):
            continue
        n += 1
        alias = {}
        for node in ast.walk(fi.node):
            if isinstance(node, ast.Assign) and len(node.targets) == 1 and isinstance(node.targets[0], ast.Name) and isinstance(node.value, ast.Attribute):
                alias[node.targets[0].id] = node.value
        for node in ast.walk(fi.node):
            targets = []
            if isinstance(node, ast.Assign):
                targets = node.targets
            elif isinstance(node, (ast.AugAssign, ast.AnnAssign)):
                targets = [node.target]
            elif isinstance(node, ast.Call) and isinstance(node.func, ast.Name) and node.func.id == 'setattr' and len(node.args) == 3 \
                    and isinstance(node.args[1], ast.Constant) and node.args[1].value == 'value':
                targets = [ast.Attribute(value=node.args[0], attr='value', ctx=ast.Store())]
            for t in targets:
                for tt in (t.elts if isinstance(t, (ast.Tuple, ast.List)) else [t]):
                    if not (isinstance(tt, ast.Attribute) and tt.attr == 'value'):
                        continue
                    recv = tt.value
                    if isinstance(recv, ast.Name) and recv.id in alias and recv.id != 'self':
                        recv = alias[recv.id]
                    if isinstance(recv, ast.Attribute):
                        rr.fail('%s:%s.value' % (fi.qualname, norm(recv)), '%s:%d' % (fi.where.rsplit(':', 1)[0], node.lineno),
                                '%s assigns to %s.value: a section parameter that has already been read is rewritten on the decode side, so a full decode reports '
                                'another value for it than the metadata-only decode of the same bytes (and than the bytes themselves)' % (fi.qualname, norm(recv)))
    rr.instance('%d functions reachable from Decoder.process, generate_bufr_message and the message methods the decoder uses' % n)
    if n < 40:
        raise AnalysisError('only %d functions reachable from the decoder entry points' % n)
    rr.require_floor(1)
    return rr


def run(repo, check):
    check.run_rule(rule_r6, repo)
    check.run_rule(rule_r1, repo)
    check.run_rule(rule_r2, repo)
    if check.tier == 'thorough':
        check.run_rule(rule_r2_full, repo)
    check.run_rule(rule_r3, repo)
    check.run_rule(rule_r4, repo)
    check.run_rule(rule_r7, repo)
    from sa.rules import c11
    r5 = check.call(c11.rule_r1, repo)
    r5.rule = 'C17.R5'
    r5.title = 'metadata-only scanning takes each message\'s bytes from its declared total length (shared with C11.R1)'
    r5.findings = [f for f in r5.findings if ':info:' in f.key]
    for f in r5.findings:
        f.rule = 'C17.R5'
    check.add(r5)
    check.assumptions = ['the section layouts are read from pybufrkit/definitions as SectionConfigurer does',
                         'equality of metadata values between a full and a metadata-only decode of a particular message is a runtime fact; the rules decide that '
                         'both use the same layouts up to the data section and that the data section is unreachable in info mode (with C04.R4)']
