"""
C06  Subsets of an uncompressed message are decoded independently of each other.

R1 register lifecycle: every CoderState attribute the template walk can write is
   re-initialised by switch_subset_context with the initialiser __init__ uses.
R2 typestate of the subset loop: switch_subset_context(idx) precedes the template
   processing call on every iteration, in both coders.
R3 wiring register lifecycle: every TemplateData attribute the wiring walk writes is
   re-initialised at the top of each subset iteration of wire().
"""
from __future__ import print_function

import ast

from sa.model import AnalysisError, CallGraph, effects, norm
from sa.report import RuleResult
from sa.rules.common import (init_assignments, register_writes, same_ast, self_helper_closure)

# whole-message accumulators: deliberately shared by all subsets
ACCUMULATORS = ('n_subsets', 'is_compressed')


def is_accumulator(attr):
    return attr in ACCUMULATORS or attr.endswith('_all_subsets')


def rule_r1(repo):
    rr = RuleResult('C06.R1', 'every register written by the template walk is reset at the subset switch')
    init = repo.own_method('CoderState', '__init__')
    switch = repo.own_method('CoderState', 'switch_subset_context')
    if len(switch.params) < 2:
        raise AnalysisError('switch_subset_context takes no subset index')
    idx_param = switch.params[1]
    I = init_assignments(init)
    S = {}
    for f in self_helper_closure(repo, switch, 'CoderState'):
        for a, vals in init_assignments(f).items():
            S.setdefault(a, []).extend(vals)
    W = {}
    nreach = 0
    for entry in ('Decoder', 'Encoder'):
        w, reach, _ = register_writes(repo, entry)
        nreach = max(nreach, len(reach))
        for a, sites in w.items():
            W.setdefault(a, []).extend(sites)
    rr.extra = {'init_registers': len(I), 'written_by_walk': sorted(W), 'reset_at_switch': sorted(S),
                'functions_reached': nreach}
    if len(I) < 23:
        raise AnalysisError('CoderState.__init__ initialises %d registers, fewer than the 23 confirmed by hand' % len(I))
    for attr in sorted(W):
        fi0, n0, kind0 = W[attr][0]
        site = '%s (%s, %s:%d)' % (fi0.qualname, kind0, fi0.module.relpath, n0.lineno)
        if is_accumulator(attr):
            rr.instance('%s: whole-message accumulator (exempt)' % attr)
            continue
        rr.instance('%s written by %s' % (attr, site))
        if attr not in I and attr not in S:
            rr.fail('CoderState.%s' % attr, switch.where,
                    'attribute %s is written by the template walk (%s) but neither initialised in '
                    'CoderState.__init__ nor reset in switch_subset_context: its value leaks from one subset '
                    'into the next' % (attr, site))
            continue
        if attr not in S:
            rr.fail('CoderState.%s' % attr, switch.where,
                    'register %s is written by the template walk (%s) and initialised in __init__ but not '
                    're-initialised by switch_subset_context: subset k starts with the value subset k-1 left' % (attr, site),
                    witness={'writers': ['%s:%s' % (f.qualname, k) for f, _, k in W[attr][:6]]})
            continue
        # the reset must restore the initial value
        if attr + '_all_subsets' in I:
            ok = any(norm(v) == 'self.%s_all_subsets[%s]' % (attr, idx_param) for v in S[attr])
            want = 'self.%s_all_subsets[%s]' % (attr, idx_param)
        elif attr == 'idx_subset':
            ok = any(norm(v) == idx_param for v in S[attr])
            want = idx_param
        elif attr in I:
            ok = any(same_ast(v, i) or same_value(repo, v, i) for v in S[attr] for i in I[attr])
            want = ' | '.join(sorted(set(norm(i) for i in I[attr])))
        else:
            ok = True
            want = ''
        if not ok:
            rr.fail('CoderState.%s:init' % attr, switch.where,
                    'switch_subset_context assigns %s = %s but a fresh state has %s' % (
                        attr, ' | '.join(norm(v) for v in S[attr]), want))
    rr.require_floor(20)
    return rr


def same_value(repo, a, b):
    """Two initialiser expressions denote the same fresh value (e.g. BSRModifier(0, 0, 1) vs keyword form, a module constant vs its literal)."""
    from sa.patheval import Frame, Path, Obj
    from sa.rules.walk import WalkInterp, snapshot
    m = repo.module('coder')
    it = WalkInterp(repo, 'Decoder')
    it.path = Path([])
    out = []
    for e in (a, b):
        try:
            fr = Frame(None, m, 'CoderState', 0)
            v = it.ev(e, fr)
        except Exception:
            return False
        if isinstance(v, Obj):
            out.append((v.cls, tuple(sorted((k, repr(x)) for k, x in v.fields.items()))))
        elif isinstance(v, (list, dict)):
            out.append((type(v).__name__, repr(v)))
        else:
            out.append(repr(v))
    return out[0] == out[1] and 'Top' not in str(out[0])


def rule_r2_structural(repo):
    rr = RuleResult('C06.R2', 'switch_subset_context(idx) precedes template processing in every subset iteration')
    for cname in ('Decoder', 'Encoder'):
        fi = repo.own_method(cname, 'process_template_data')
        # names bound to the processing function
        proc_names = set()
        for n in ast.walk(fi.node):
            if isinstance(n, ast.Assign) and len(n.targets) == 1 and isinstance(n.targets[0], ast.Name):
                v = n.value
                t = norm(v)
                if 'process_template' in t or 'process_compiled_template' in t:
                    proc_names.add(n.targets[0].id)

        def is_proc_call(c):
            t = norm(c.func)
            return t in proc_names or t in ('self.process_template', 'process_compiled_template')

        loops = [n for n in ast.walk(fi.node) if isinstance(n, ast.For) and 'n_subsets' in norm(n.iter)]
        if len(loops) != 1:
            raise AnalysisError('%s.process_template_data: expected one loop over n_subsets, found %d' % (cname, len(loops)))
        loop = loops[0]
        if not isinstance(loop.target, ast.Name) or not norm(loop.iter).startswith('range('):
            raise AnalysisError('%s.process_template_data: subset loop is not `for i in range(n_subsets)`' % cname)
        var = loop.target.id
        idx_switch = idx_proc = None
        for i, s in enumerate(loop.body):
            calls = [c for c in ast.walk(s) if isinstance(c, ast.Call)]
            for c in calls:
                if norm(c.func) == 'state.switch_subset_context':
                    if not isinstance(s, ast.Expr):
                        raise AnalysisError('%s: switch_subset_context is not a top-level statement of the subset loop' % cname)
                    if idx_switch is None:
                        idx_switch = i
                        if not (len(c.args) == 1 and isinstance(c.args[0], ast.Name) and c.args[0].id == var):
                            rr.fail('%s.process_template_data:switch-arg' % cname, '%s:%d' % (fi.module.relpath, c.lineno),
                                    'switch_subset_context is called with %s, not the loop variable %s' % (
                                        ', '.join(norm(a) for a in c.args), var))
                if is_proc_call(c) and idx_proc is None:
                    idx_proc = i
        rr.instance('%s.process_template_data: loop over %s' % (cname, norm(loop.iter)))
        if idx_proc is None:
            raise AnalysisError('%s.process_template_data: no template processing call inside the subset loop' % cname)
        if idx_switch is None:
            rr.fail('%s.process_template_data:no-switch' % cname, '%s:%d' % (fi.module.relpath, loop.lineno),
                    'the subset loop processes the template without calling state.switch_subset_context first')
        elif idx_switch >= idx_proc:
            rr.fail('%s.process_template_data:order' % cname, '%s:%d' % (fi.module.relpath, loop.lineno),
                    'switch_subset_context is called after the template processing call in the subset loop')
        # the loop must be on the uncompressed arm and range over the declared number of subsets
        rr.instance('%s.process_template_data: switch at body[%s], processing at body[%s]' % (cname, idx_switch, idx_proc))
        # exactly one processing call per iteration
        nproc = sum(1 for s in loop.body for c in ast.walk(s) if isinstance(c, ast.Call) and is_proc_call(c))
        if nproc != 1:
            rr.fail('%s.process_template_data:nproc' % cname, '%s:%d' % (fi.module.relpath, loop.lineno),
                    'the subset loop calls the template processing function %d times per subset' % nproc)
    rr.require_floor(4)
    return rr


# TemplateData attributes that the wiring walk writes but that need no per-subset reset (name -- reason)
WIRE_EXEMPT = {
    'associated_field_meaning': 'assigned by the 031021 that FM-94 requires directly after 204YYY, before any use in the same subset',
    'first_order_stats_meaning': 'assigned by the 008023 that follows 224000, before any 224255 of the same subset',
    'difference_stats_meaning': 'assigned by the 008024 that follows 225000, before any 225255 of the same subset',
    'attributes': 'field of a node created in this subset, not of the TemplateData object',
}


def rule_r3(repo):
    rr = RuleResult('C06.R3', 'every wiring register is re-initialised at the top of each subset iteration of wire()')
    wire = repo.own_method('TemplateData', 'wire')
    loops = [n for n in ast.walk(wire.node) if isinstance(n, ast.For)]
    if len(loops) != 1:
        raise AnalysisError('TemplateData.wire: expected exactly one subset loop')
    loop = loops[0]
    # statements before the wire_members call
    reset = {}
    idx_call = None
    for i, s in enumerate(loop.body):
        if any(isinstance(c, ast.Call) and norm(c.func) == 'self.wire_members' for c in ast.walk(s)):
            idx_call = i
            break
        if isinstance(s, ast.Assign):
            for t in s.targets:
                if isinstance(t, ast.Attribute) and isinstance(t.value, ast.Name) and t.value.id == 'self':
                    reset[t.attr] = s.value
    if idx_call is None:
        raise AnalysisError('TemplateData.wire: no self.wire_members(...) call in the subset loop')
    cg = CallGraph(repo, 'TemplateData')
    reach = cg.reachable([repo.own_method('TemplateData', 'wire_members')])
    W = {}
    for fi in reach:
        if fi.cls is None or fi.cls.name != 'TemplateData':
            continue
        eff = effects(fi)
        for a, nodes in list(eff.writes.get('self', {}).items()) + list(eff.mutates.get('self', {}).items()):
            W.setdefault(a, []).append((fi, nodes[0]))
    rr.extra = {'written_by_wiring': sorted(W), 'reset_per_subset': sorted(reset)}
    for a in sorted(W):
        fi0, n0 = W[a][0]
        rr.instance('%s written by %s' % (a, fi0.qualname))
        if a in reset:
            continue
        if a in WIRE_EXEMPT:
            continue
        rr.fail('TemplateData.%s' % a, wire.where,
                'wiring register %s is written by %s but not re-initialised per subset in wire(): the structure '
                'built for subset k depends on subset k-1' % (a, fi0.qualname))
    # flags and counters must be reset to a constant / fresh container, not carried
    for a, v in sorted(reset.items()):
        if a in W and not isinstance(v, (ast.Constant, ast.List, ast.Dict, ast.Call, ast.Subscript)):
            rr.fail('TemplateData.%s:init' % a, wire.where, 'per-subset initialiser of %s is %s' % (a, norm(v)))
    rr.require_floor(6)
    return rr


def run(repo, check):
    check.run_rule(rule_r1, repo)
    from sa.rules import c05
    check.run_rule(c05.rule_state_mode, repo, 'C06.R2')
    check.run_rule(rule_r3, repo)
    from sa.rules import c07
    r4 = c07.rule_r6(repo)
    r4.rule = 'C06.R4'
    r4.title = 'a bitmap is built from the bits of the subset being processed, never from subset 0 (shared with C07.R6)'
    for f in r4.findings:
        f.rule = 'C06.R4'
    check.add(r4)
    check.assumptions = ['the receiver named `state` denotes the CoderState (confirmed by reading; DESIGN 2.2)',
                         'registers are attributes of CoderState / TemplateData; no module-level mutable state is used by the walk (checked under C13)']
