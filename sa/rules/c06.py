"""
C06  Subsets of an uncompressed message are decoded independently of each other.

R1 register lifecycle: every CoderState attribute the template walk can write is
   re-initialised by switch_subset_context with the initialiser __init__ uses.
R2 typestate of the subset loop: switch_subset_context(idx) precedes the template
   processing call on every iteration, in both coders.
R3 wiring register lifecycle: every TemplateData attribute the wiring walk writes is
   re-initialised at the top of each subset iteration of wire().
"""
from __future__ import print_function

import ast

from sa.model import AnalysisError, CallGraph, effects, norm
from sa.report import RuleResult
from sa.rules.common import (init_assignments, register_writes, same_ast, self_helper_closure)

# whole-message accumulators: deliberately shared by all subsets
ACCUMULATORS = ('n_subsets', 'is_compressed')


def is_accumulator(attr):
    return attr in ACCUMULATORS or attr.endswith('_all_subsets')


def _mutable(v):
    from sa.patheval import Obj, Native
    return isinstance(v, (list, dict, Native)) or (isinstance(v, Obj) and v.cls not in ('BSRModifier',))


def _dirty(st, attr):
    """Leave the trace a previous subset would leave in register `attr` (in place for containers, so a reset by clearing counts too)."""
    from sa.patheval import Tok
    v = st.fields.get(attr)
    if isinstance(v, list):
        v.append(Tok('left-by-previous-subset:' + attr))
    elif isinstance(v, dict):
        v[Tok('left-by-previous-subset:' + attr)] = 1
    else:
        st.fields[attr] = Tok('left-by-previous-subset:' + attr)


def rule_r1(repo, rule='C06.R1'):
    """Folds CoderState.__init__ and switch_subset_context (PathEval): a state dirtied in every register the template walk can
    write is switched to the next subset and compared, register by register, with a fresh state; container registers must also
    be new objects at each switch (a shared default object would carry appended entries over)."""
    from sa.patheval import freeze
    from sa.rules.walk import WalkInterp, fold_init
    rr = RuleResult(rule, 'every register written by the template walk is reset at the subset switch (fold of __init__ and switch_subset_context)')
    switch = repo.own_method('CoderState', 'switch_subset_context')
    if len(switch.params) < 2:
        raise AnalysisError('switch_subset_context takes no subset index')
    W = {}
    nreach = 0
    for entry in ('Decoder', 'Encoder'):
        w, reach, _ = register_writes(repo, entry)
        nreach = max(nreach, len(reach))
        for a, sites in w.items():
            W.setdefault(a, []).extend(sites)
    n_sub = 3
    fresh_states = fold_init(repo, False, n_sub)
    regs = sorted(a for a in W if not is_accumulator(a))
    rr.extra = {'written_by_walk': sorted(W), 'functions_reached': nreach, 'init_paths': len(fresh_states)}
    if len(regs) < 18:
        raise AnalysisError('the template walk writes %d registers, fewer than the 18 confirmed by hand' % len(regs))
    for attr in sorted(W):
        fi0, n0, kind0 = W[attr][0]
        if is_accumulator(attr):
            rr.instance('%s: whole-message accumulator (exempt)' % attr)
    n_init = len(fresh_states)
    for k in range(n_init):
        it = WalkInterp(repo, 'Decoder')
        captured = {}

        def mk():
            st = fold_init(repo, False, n_sub)[k]
            for a in regs:
                if a not in st.fields:
                    continue
                if a + '_all_subsets' in st.fields:
                    continue            # subset 0's own record: subset 1 must get its own (identity checked below)
                _dirty(st, a)
            st.fields['idx_value'] = 7
            captured['state'] = st
            return {'self': st, switch.params[1]: 1}

        res = it.run_function(switch, mk, self_class='CoderState')
        ok_res = [r for r in res if r.ok]
        if not ok_res:
            raise AnalysisError('switch_subset_context could not be folded: %s' % [r.describe() for r in res][:2])
        for r in ok_res:
            st = r.locals['self']
            fresh = fold_init(repo, False, n_sub)[k]
            first = dict(st.fields)
            # a second switch, to the following subset, for the identity obligations
            it2 = WalkInterp(repo, 'Decoder')
            it2.__dict__['_module_values'] = it.__dict__.get('_module_values', {})
            res2 = [x for x in it2.run_function(switch, lambda: {'self': st, switch.params[1]: 2}, self_class='CoderState') if x.ok]
            if not res2:
                raise AnalysisError('second switch_subset_context could not be folded')
            second = res2[0].locals['self'].fields
            for attr in regs:
                fi0, n0, kind0 = W[attr][0]
                site = '%s (%s, %s:%d)' % (fi0.qualname, kind0, fi0.module.relpath, n0.lineno)
                if k == 0:
                    rr.instance('%s written by %s' % (attr, site))
                if attr not in first:
                    rr.fail('CoderState.%s' % attr, switch.where,
                            'attribute %s is written by the template walk (%s) but neither initialised in CoderState.__init__ '
                            'nor reset in switch_subset_context: its value leaks from one subset into the next' % (attr, site))
                    continue
                if attr + '_all_subsets' in first:
                    al = first[attr + '_all_subsets']
                    if not (isinstance(al, list) and len(al) == n_sub and first[attr] is al[1]):
                        rr.fail('CoderState.%s:init' % attr, switch.where,
                                'after switch_subset_context(1) register %s is not the record of subset 1 (%s_all_subsets[1])' % (attr, attr))
                    elif second[attr] is not second[attr + '_all_subsets'][2]:
                        rr.fail('CoderState.%s:init' % attr, switch.where,
                                'after switch_subset_context(2) register %s is not the record of subset 2' % attr)
                    continue
                if attr == 'idx_subset':
                    if first[attr] != 1 or second[attr] != 2:
                        rr.fail('CoderState.idx_subset:init', switch.where, 'switch_subset_context(k) leaves idx_subset = %r' % (first[attr],))
                    continue
                want = fresh.fields.get(attr)
                if attr not in fresh.fields:
                    # never initialised: it must at least not keep the previous subset's value
                    want = first[attr]
                if freeze(first[attr]) != freeze(want) or 'left-by-previous-subset' in repr(first[attr]):
                    how = 'keeps what the previous subset left' if 'left-by-previous-subset' in repr(first[attr]) else \
                        'is %r where a fresh state has %r' % (first[attr], want)
                    rr.fail('CoderState.%s' % attr if 'left-by' in repr(first[attr]) else 'CoderState.%s:init' % attr, switch.where,
                            'register %s is written by the template walk (%s); after switch_subset_context it %s: subset k starts '
                            'with a value subset k-1 determined' % (attr, site, how),
                            witness={'writers': ['%s:%s' % (f.qualname, kk) for f, _, kk in W[attr][:6]]})
                    continue
                if _mutable(first[attr]) and first[attr] is second[attr]:
                    rr.fail('CoderState.%s:shared' % attr, switch.where,
                            'switch_subset_context installs the same %s object in register %s at every subset switch: what the walk '
                            'appends to it in one subset (%s) is still there in the next' % (type(first[attr]).__name__, attr, site))
    rr.require_floor(20)
    return rr


def rule_alias(repo, rule='C05.R3', modes=(False, True)):
    """Folds CoderState.__init__ and TemplateData.__init__: the per-subset records are one shared object when compressed
    (descriptors, bitmap links, nodes) and distinct objects otherwise; the value lists are distinct in both modes."""
    from sa.patheval import Interp, Obj
    from sa.rules.walk import fold_init
    rr = RuleResult(rule, 'per-subset records: one object per subset when uncompressed, one shared object when compressed (fold of the two __init__)')

    def judge(owner, where, comp, n, attr, al, cur, values_like):
        key = '%s.%s_all_subsets:%s' % (owner, attr, 'compressed' if comp else 'uncompressed')
        rr.instance('%s n_subsets=%d' % (key, n))
        if not isinstance(al, list) or len(al) != n:
            rr.fail(key + ':length', where, '%s_all_subsets does not hold one record per subset for n_subsets=%d: %r' % (attr, n, al))
            return
        shared = any(al[i] is al[j] for i in range(n) for j in range(i))
        all_shared = all(al[i] is al[0] for i in range(n))
        if comp and not values_like:
            if not all_shared:
                rr.fail(key, where, 'compressed: the %s records of the subsets are not one shared object, so what the single template walk '
                        'records is missing from the other subsets' % attr)
        elif shared:
            rr.fail(key, where, '%s: two subsets share one %s record: what one subset appends shows up in the other' % (
                'compressed' if comp else 'uncompressed', attr))
        if cur is not al[0]:
            rr.fail(key + ':first', where, 'a fresh object does not start on the record of subset 0 for %s' % attr)

    init = repo.own_method('CoderState', '__init__')
    tinit = repo.own_method('TemplateData', '__init__')
    for comp in modes:
        for n in (1, 2, 3):
            for st in fold_init(repo, comp, n):
                # the state works in the mode and with the subset count it is created with, whatever the count is (a compressed
                # message of one subset is still laid out as minimum / width / increments)
                rr.instance('CoderState(is_compressed=%s, n_subsets=%d) keeps mode and count' % (comp, n))
                if st.fields.get('is_compressed') is not comp or st.fields.get('n_subsets') != n:
                    rr.fail('CoderState.__init__:mode', init.where, 'CoderState(is_compressed=%s, n_subsets=%d) works with is_compressed=%r, n_subsets=%r: the data '
                            'section would be read / written in the other layout' % (comp, n, st.fields.get('is_compressed'), st.fields.get('n_subsets')),
                            witness={'is_compressed': comp, 'n_subsets': n})
            if n == 1:
                continue
            for st in fold_init(repo, comp, n):
                for attr in ('decoded_descriptors', 'bitmap_links', 'decoded_values'):
                    judge('CoderState', init.where, comp, n, attr, st.fields.get(attr + '_all_subsets'), st.fields.get(attr), attr == 'decoded_values')
            res = Interp(repo, 'TemplateData').run_function(tinit, lambda: {
                'self': Obj('TemplateData', {}), 'template': Obj('BufrTemplate', {'members': []}), 'is_compressed': comp,
                'decoded_descriptors_all_subsets': [[] for _ in range(n)], 'decoded_values_all_subsets': [[] for _ in range(n)],
                'bitmap_links_all_subsets': [{} for _ in range(n)]}, self_class='TemplateData')
            oks = [r for r in res if r.ok]
            if not oks:
                raise AnalysisError('TemplateData.__init__ could not be folded')
            for r in oks:
                td = r.locals['self']
                judge('TemplateData', tinit.where, comp, n, 'decoded_nodes', td.fields.get('decoded_nodes_all_subsets'), td.fields.get('decoded_nodes'), False)
                if td.fields.get('_is_wired') is not False:
                    rr.fail('TemplateData.__init__:is_wired', tinit.where, '_is_wired is not initialised to False')
    rr.require_floor(8 * len(modes))
    return rr


def rule_r2_structural(repo):
    rr = RuleResult('C06.R2', 'switch_subset_context(idx) precedes template processing in every subset iteration')
    for cname in ('Decoder', 'Encoder'):
        fi = repo.own_method(cname, 'process_template_data')
        # names bound to the processing function
        proc_names = set()
        for n in ast.walk(fi.node):
            if isinstance(n, ast.Assign) and len(n.targets) == 1 and isinstance(n.targets[0], ast.Name):
                v = n.value
                t = norm(v)
                if 'process_template' in t or 'process_compiled_template' in t:
                    proc_names.add(n.targets[0].id)

        def is_proc_call(c):
            t = norm(c.func)
            return t in proc_names or t in ('self.process_template', 'process_compiled_template')

        loops = [n for n in ast.walk(fi.node) if isinstance(n, ast.For) and 'n_subsets' in norm(n.iter)]
        if len(loops) != 1:
            raise AnalysisError('%s.process_template_data: expected one loop over n_subsets, found %d' % (cname, len(loops)))
        loop = loops[0]
        if not isinstance(loop.target, ast.Name) or not norm(loop.iter).startswith('range('):
            raise AnalysisError('%s.process_template_data: subset loop is not `for i in range(n_subsets)`' % cname)
        var = loop.target.id
        idx_switch = idx_proc = None
        for i, s in enumerate(loop.body):
            calls = [c for c in ast.walk(s) if isinstance(c, ast.Call)]
            for c in calls:
                if norm(c.func) == 'state.switch_subset_context':
                    if not isinstance(s, ast.Expr):
                        raise AnalysisError('%s: switch_subset_context is not a top-level statement of the subset loop' % cname)
                    if idx_switch is None:
                        idx_switch = i
                        if not (len(c.args) == 1 and isinstance(c.args[0], ast.Name) and c.args[0].id == var):
                            rr.fail('%s.process_template_data:switch-arg' % cname, '%s:%d' % (fi.module.relpath, c.lineno),
                                    'switch_subset_context is called with %s, not the loop variable %s' % (
                                        ', '.join(norm(a) for a in c.args), var))
                if is_proc_call(c) and idx_proc is None:
                    idx_proc = i
        rr.instance('%s.process_template_data: loop over %s' % (cname, norm(loop.iter)))
        if idx_proc is None:
            raise AnalysisError('%s.process_template_data: no template processing call inside the subset loop' % cname)
        if idx_switch is None:
            rr.fail('%s.process_template_data:no-switch' % cname, '%s:%d' % (fi.module.relpath, loop.lineno),
                    'the subset loop processes the template without calling state.switch_subset_context first')
        elif idx_switch >= idx_proc:
            rr.fail('%s.process_template_data:order' % cname, '%s:%d' % (fi.module.relpath, loop.lineno),
                    'switch_subset_context is called after the template processing call in the subset loop')
        # the loop must be on the uncompressed arm and range over the declared number of subsets
        rr.instance('%s.process_template_data: switch at body[%s], processing at body[%s]' % (cname, idx_switch, idx_proc))
        # exactly one processing call per iteration
        nproc = sum(1 for s in loop.body for c in ast.walk(s) if isinstance(c, ast.Call) and is_proc_call(c))
        if nproc != 1:
            rr.fail('%s.process_template_data:nproc' % cname, '%s:%d' % (fi.module.relpath, loop.lineno),
                    'the subset loop calls the template processing function %d times per subset' % nproc)
    rr.require_floor(4)
    return rr


# TemplateData attributes that the wiring walk writes but that need no per-subset reset (name -- reason)
WIRE_EXEMPT = {
    'associated_field_meaning': 'assigned by the 031021 that FM-94 requires directly after 204YYY, before any use in the same subset',
    'first_order_stats_meaning': 'assigned by the 008023 that follows 224000, before any 224255 of the same subset',
    'difference_stats_meaning': 'assigned by the 008024 that follows 225000, before any 225255 of the same subset',
    'attributes': 'field of a node created in this subset, not of the TemplateData object',
}


def wiring_registers(repo):
    cg = CallGraph(repo, 'TemplateData')
    entries = [repo.own_method('TemplateData', 'wire_members')]
    # methods the walk reaches by name (a table of method names per descriptor class, dispatched with getattr): every string constant
    # in the class that is the name of one of its methods counts as reached
    cls = repo.cls('TemplateData')
    names = set()
    for nd in ast.walk(cls.node):
        if isinstance(nd, ast.Constant) and isinstance(nd.value, str) and nd.value in cls.methods:
            names.add(nd.value)
    entries += [cls.methods[n] for n in sorted(names)]
    reach = cg.reachable(entries)
    W = {}
    for fi in reach:
        if fi.cls is None or fi.cls.name != 'TemplateData':
            continue
        eff = effects(fi)
        for a, nodes in list(eff.writes.get('self', {}).items()) + list(eff.mutates.get('self', {}).items()):
            W.setdefault(a, []).append((fi, nodes[0]))
    return W


RECORDS = ('decoded_nodes', 'decoded_descriptors', 'decoded_values', 'bitmap_links')


def rule_r3(repo, rule='C06.R3', modes=(False,)):
    """Folds TemplateData.wire() over three uncompressed subsets of identical layout with the walk replaced by a stub that
    records the registers it is entered with and then leaves every one of them dirty: each subset must be walked, on its own
    records, with the registers the first subset started with."""
    from sa.patheval import Interp, Obj, Tok, Top, freeze
    rr = RuleResult(rule, 'every subset is wired by its own walk, on its own records, from re-initialised wiring registers (fold of wire())')
    wire = repo.own_method('TemplateData', 'wire')
    W = wiring_registers(repo)
    regs = sorted(a for a in W if a not in WIRE_EXEMPT and a not in RECORDS)
    rr.extra = {'written_by_wiring': sorted(W), 'registers_checked': regs}
    if len(regs) < 6:
        raise AnalysisError('the wiring walk writes %d registers, fewer than the 6 confirmed by hand' % len(regs))

    class WI(Interp):
        def on_call(self2, text, callee, args, kwargs, node, frame):
            if text == 'self.wire_members':
                me = frame.locals['self']
                snap = {}
                for a in regs:
                    snap[a] = freeze(me.fields[a]) if a in me.fields else '<unset>'
                ident = {}
                for a in RECORDS:
                    al = me.fields.get(a + '_all_subsets')
                    cur = me.fields.get(a)
                    ident[a] = [i for i, x in enumerate(al) if x is cur] if isinstance(al, list) else None
                self2.event('walk', snap, ident)
                for a in regs:
                    if a in me.fields:
                        _dirty(me, a)
                    else:
                        me.fields[a] = Tok('left-by-previous-subset:' + a)
                return None
            if text in ('functools.partial', 'itertools.count'):
                return Top(text)
            return self2.NOT_HANDLED

    for comp in modes:
        n = 3
        d = Tok('same-layout')

        def mk():
            nodes = [[]] * n if comp else [[] for _ in range(n)]
            descs = [[d]] * n if comp else [[d] for _ in range(n)]
            links = [{}] * n if comp else [{} for _ in range(n)]
            return {'self': Obj('TemplateData', {
                '_is_wired': False, 'is_compressed': comp, 'n_subsets': n, 'template': Obj('BufrTemplate', {'members': []}),
                'decoded_nodes_all_subsets': nodes, 'decoded_descriptors_all_subsets': descs,
                'decoded_values_all_subsets': [[1] for _ in range(n)], 'bitmap_links_all_subsets': links})}

        res = WI(repo, 'TemplateData').run_function(wire, mk, self_class='TemplateData')
        mode = 'compressed' if comp else 'uncompressed'
        for r in res:
            if not r.ok:
                rr.fail('TemplateData.wire:raises', wire.where, 'wire() raises %s on %s data' % (r.exc.cls, mode))
                continue
            walks = [e for e in r.events if e[0] == 'walk']
            want = 1 if comp else n
            rr.instance('wire() %s, %d subsets of equal layout: %d walk(s)' % (mode, n, len(walks)))
            if len(walks) != want:
                rr.fail('TemplateData.wire:walks:%s' % mode, wire.where,
                        'wire() walks the template %d time(s) for %d %s subsets of equal layout (expected %d): %s' % (
                            len(walks), n, mode, want,
                            'a subset takes over what was built for another one' if len(walks) < want else 'nodes are appended more than once'))
                continue
            for k, (_, snap, ident) in enumerate(walks):
                for a in RECORDS:
                    exp = list(range(n)) if (comp and a != 'decoded_values') else [k]
                    if ident[a] != exp:
                        rr.fail('TemplateData.wire:record:%s' % a, wire.where,
                                '%s: the walk of subset %d runs on %s of subset(s) %s' % (mode, k, a, ident[a]))
                for a in regs:
                    if k == 0:
                        fi0, n0 = W[a][0]
                        rr.instance('%s written by %s' % (a, fi0.qualname))
                    if snap[a] == '<unset>' and k == 0:
                        rr.fail('TemplateData.%s' % a, wire.where,
                                'wiring register %s is written by %s but not initialised by wire() before the walk' % (a, W[a][0][0].qualname))
                    elif 'left-by-previous-subset' in repr(snap[a]):
                        rr.fail('TemplateData.%s' % a, wire.where,
                                'wiring register %s is written by %s but not re-initialised per subset in wire(): the structure '
                                'built for subset %d depends on subset %d' % (a, W[a][0][0].qualname, k, k - 1))
                    elif snap[a] != walks[0][1][a]:
                        rr.fail('TemplateData.%s:init' % a, wire.where,
                                'wiring register %s starts subset %d as %r but subset 0 as %r' % (a, k, snap[a], walks[0][1][a]))
    rr.require_floor(7)
    return rr

def rule_handover(repo, rule='C06.R8'):
    """Decoder / Encoder.process_template_data folded on three uncompressed subsets with the real CoderState (its __init__ and
    switch_subset_context) and the template walk replaced by a stub that appends a token of the current subset to the current
    records: what is handed to TemplateData are the state's own per-subset records - three distinct objects, each holding exactly
    what its own subset produced - whatever the template looks like (with or without delayed replication, bitmaps, markers)."""
    from sa.patheval import Interp, Obj, Sym, Top
    from sa.rules.walk import fold_init, element, operator
    from sa.rules.common import callee_qual
    rr = RuleResult(rule, 'the per-subset records of an uncompressed message reach TemplateData as they were produced: distinct objects, each with its own subset\'s entries')
    templates = {
        'plain elements': [element(1001), element(12101)],
        'replaced/retained values (232255)': [element(12101), operator(232, 0), Obj('FixedReplicationDescriptor', {'id': 101001, 'members': [element(31031, unit='FLAG TABLE')]}),
                                             operator(232, 255)],
        'delayed replication': [Obj('DelayedReplicationDescriptor', {'id': 101000, 'members': [element(12101)], 'factor': element(31001)})],
        'quality information (222000)': [element(12101), operator(222, 0), operator(236, 0),
                                         Obj('FixedReplicationDescriptor', {'id': 101001, 'members': [element(31031, unit='FLAG TABLE')]}), element(33007, unit='CODE TABLE')],
    }
    for coder in ('Decoder', 'Encoder'):
        fi = repo.own_method(coder, 'process_template_data')
        for tname, members, given_vals in [(t, m, None) for t, m in sorted(templates.items())] + [
                ('plain elements, the second subset repeating the first value for value', templates['plain elements'], [[7, 1.5, 'A'], [7, 1.5, 'A'], [9, 1.5, None]])]:
            class TD(Interp):
                MAX_DEPTH = 30

                def on_call(self, text, callee, args, kwargs, node, frame):
                    q = callee_qual(callee) or text
                    if q in ('class:CoderState', 'CoderState'):
                        vals = args[2] if len(args) > 2 else kwargs.get('decoded_values_all_subsets')
                        sts = fold_init(self.repo, False, 3, values=vals if isinstance(vals, list) else None)
                        # (the debug-logging arm wraps the value lists in AuditedList; the ordinary arm is taken)
                        plain = [x for x in sts if isinstance(x.fields.get('decoded_values_all_subsets'), list) and
                                 all(isinstance(v, list) for v in x.fields['decoded_values_all_subsets'])]
                        st = (plain or sts)[0]
                        self.state = st
                        return st
                    if q == 'BufrMessage.build_template':
                        return (Obj('BufrTemplate', {'members': list(members), 'id': 999999, 'original_descriptor_ids': [1, 2]}), Sym('TG'))
                    if q.split('.')[-1] in ('process_template', 'process_compiled_template') or text == 'template_processing_func':
                        st = self.state
                        k = st.fields.get('idx_subset')
                        if given_vals and isinstance(k, int):
                            k = given_vals.index(given_vals[k])      # what a walk produces is a function of the subset's values
                        dd = st.fields.get('decoded_descriptors')
                        if isinstance(dd, list):
                            dd.append(Sym('D%s' % k))
                        bl = st.fields.get('bitmap_links')
                        if isinstance(bl, dict):
                            bl[0] = Sym('L%s' % k)
                        dv = st.fields.get('decoded_values')
                        if isinstance(dv, list) and coder == 'Decoder':
                            dv.append(Sym('V%s' % k))
                        return None
                    if q in ('class:TemplateData', 'TemplateData'):
                        self.event('template_data', list(args), dict(kwargs))
                        return Obj('TemplateData', {})
                    if text.startswith('log.'):
                        return None
                    return self.NOT_HANDLED
            it = TD(repo, coder)

            def mk():
                bm = Obj('BufrMessage', {'is_compressed': Obj('SectionParameter', {'value': False}), 'n_subsets': Obj('SectionParameter', {'value': 3})})
                loc = {'self': Obj(coder, {'compiled_template_manager': None, 'tables_root_dir': Sym('ROOT')}), 'bufr_message': bm}
                for p in fi.params[2:]:
                    loc[p] = Sym('BITIO') if p.startswith('bit_') else Obj('SectionParameter', {'value': [list(x) for x in given_vals] if given_vals else [[Sym('IN0')], [Sym('IN1')], [Sym('IN2')]]})
                return loc
            res = it.run_function(fi, mk, self_class=coder)
            rr.instance('%s.process_template_data, three uncompressed subsets, template with %s' % (coder, tname))
            oks = [r for r in res if r.ok]
            if not oks:
                raise AnalysisError('%s.process_template_data could not be folded on three subsets (%s): %s' % (coder, tname, [r.describe() for r in res][:2]))
            for r in oks:
                tdv = [e for e in r.events if e[0] == 'template_data']
                if len(tdv) != 1:
                    rr.fail('%s.process_template_data:template-data' % coder, fi.where, 'TemplateData is built %d times' % len(tdv))
                    continue
                pos = list(tdv[0][1])
                kw = tdv[0][2]
                tparams = repo.own_method('TemplateData', '__init__').params[1:]
                given = dict(zip(tparams, pos))
                given.update(kw)
                for pname, tok in (('decoded_descriptors_all_subsets', 'D'), ('bitmap_links_all_subsets', 'L')) + ((('decoded_values_all_subsets', 'V'),) if coder == 'Decoder' else ()):
                    v = given.get(pname)
                    ks = [given_vals.index(x) for x in given_vals] if given_vals else [0, 1, 2]
                    want = [[Sym('%s%d' % (tok, k))] for k in ks] if tok != 'L' else [{0: Sym('L%d' % k)} for k in ks]
                    ok = isinstance(v, list) and len(v) == 3 and all(v[i] is not v[j] for i in range(3) for j in range(i)) and \
                        [repr(x) for x in v] == [repr(x) for x in want]
                    if not ok:
                        rr.fail('%s.process_template_data:%s' % (coder, pname), fi.where, 'template with %s: TemplateData receives %s = %s%s; the three subsets produced %s, '
                                'each in its own record' % (tname, pname, _r(v), ' (two subsets share one object)' if isinstance(v, list) and len(v) == 3 and
                                                            any(v[i] is v[j] for i in range(3) for j in range(i)) else '', _r(want)), witness={'template': tname})
    rr.require_floor(8)
    return rr


def _r(v):
    s = repr(v)
    return s if len(s) < 200 else s[:197] + '...'

def rule_pipeline_subsets(repo, rule='C06.R9'):
    """End-to-end fold of the property itself on concrete templates (rules/pipeline.py): several uncompressed subsets - with different
    replication counts, bitmaps and values, on templates that end inside operator constructs - go through ONE coder state in the
    per-subset loop (switch_subset_context, walk), in the given order and reversed; every subset must come out (descriptors, values,
    links) exactly as when it is decoded alone.  The same with the tree that wire() builds for every subset of the whole message."""
    from sa.rules import pipeline as P
    rr = RuleResult(rule, 'subsets decoded together, in any order, come out position by position as each one decoded alone (end-to-end fold on concrete templates)')

    def sig(x):
        return ([(d.cls, d.fields.get('id'), d.fields.get('marker_id'), repr(d.fields.get('nbits')), repr(d.fields.get('refval'))) for d in x[1]], x[2], x[3])
    for name, (members, scripts) in sorted(P.subset_families().items()):
        alone = [P.decode_subsets(repo, members, [sc])[0] for sc in scripts]
        key = 'subsets:%s' % name.replace(' ', '-').replace('/', '').replace(',', '')
        for a in alone:
            if not a[0].ok or a[4]:
                raise AnalysisError('pipeline fold: subset family "%s" does not decode alone (%s, %d values unread): the family entry is inconsistent' % (
                    name, a[0].describe(), a[4]))
        orders = [list(range(len(scripts))), list(range(len(scripts)))[::-1]]
        if len(scripts) > 2:
            orders.append([1, 2, 0])
        for order in orders:
            rr.instance('template "%s", subsets in the order %s' % (name, order))
            tog = P.decode_subsets(repo, members, [scripts[i] for i in order])
            for pos, i in enumerate(order):
                t, a = tog[pos], alone[i]
                if not t[0].ok:
                    rr.fail(key, 'pybufrkit/coder.py', 'template "%s": variant %d decodes alone but fails with %s at position %d of the order %s: what the subsets before it '
                            'left in the coder state reaches it' % (name, i, t[0].exc.cls, pos, order), witness={'template': name, 'order': order})
                    break
                if sig(t) != sig(a) or t[4]:
                    d = [(k, x, y) for k, (x, y) in enumerate(zip(t[2], a[2])) if x != y][:2]
                    rr.fail(key, 'pybufrkit/coder.py', 'template "%s": variant %d at position %d of the order %s comes out differently from decoding it alone (values %s vs %s; '
                            'first differences %s; links %s vs %s)' % (name, i, pos, order, _r(t[2]), _r(a[2]), d, t[3], a[3]), witness={'template': name, 'order': order})
                    break
            else:
                # the hierarchical view of every subset of the whole message equals the view of the subset alone
                descs = [t[1] for t in tog]
                vals = [t[2] for t in tog]
                links = [t[3] for t in tog]
                trees = _wire_all(repo, members, descs, vals, links)
                for pos, i in enumerate(order):
                    single = _wire_all(repo, members, [alone[i][1]], [alone[i][2]], [alone[i][3]])
                    if trees is None or single is None:
                        continue        # wiring failures are C09's
                    if _shape(trees[pos]) != _shape(single[0]):
                        rr.fail(key + ':tree', 'pybufrkit/templatedata.py', 'template "%s": the tree wired for variant %d at position %d of the order %s differs from the tree '
                                'wired for it alone: %s vs %s' % (name, i, pos, order, _r(_shape(trees[pos])), _r(_shape(single[0]))), witness={'template': name, 'order': order})
    rr.require_floor(12)
    return rr


def _wire_all(repo, members, descs, vals, links):
    from sa.rules import pipeline as P
    from sa.patheval import Obj
    it = P.PipeInterp(repo, 'TemplateData')
    init = repo.own_method('TemplateData', '__init__')
    td = Obj('TemplateData', {})
    res = it.run_function(init, lambda: {'self': td, init.params[1]: Obj('BufrTemplate', {'members': list(members), 'id': 999999}), init.params[2]: False,
                                         init.params[3]: [list(d) for d in descs], init.params[4]: [list(v) for v in vals], init.params[5]: [dict(l) for l in links]},
                          self_class='TemplateData')
    if len(res) != 1 or not res[0].ok:
        return None
    td = res[0].locals['self']
    w = repo.own_method('TemplateData', 'wire')
    res = P.PipeInterp(repo, 'TemplateData').run_function(w, lambda: {'self': td}, self_class='TemplateData')
    if len(res) != 1 or not res[0].ok:
        return None
    return td.fields['decoded_nodes_all_subsets']


def _shape(nodes):
    out = []
    for n in nodes:
        f = n.fields
        e = [n.cls, f.get('index')]
        if f.get('attributes'):
            e.append(('attributes', _shape(f['attributes'])))
        if isinstance(f.get('factor'), type(n)):
            e.append(('factor', _shape([f['factor']])))
        if isinstance(f.get('members'), list):
            e.append(('members', _shape(f['members'])))
        out.append(tuple(e))
    return out


def run(repo, check):
    check.run_rule(rule_r1, repo)
    check.run_rule(rule_alias, repo, 'C06.R5', (False,))
    from sa.rules import c05
    check.run_rule(c05.rule_state_mode, repo, 'C06.R2')
    check.run_rule(rule_r3, repo)
    from sa.rules import c07
    r4 = check.call(c07.rule_r6, repo)
    r4.rule = 'C06.R4'
    r4.title = 'a bitmap is built from the bits of the subset being processed, never from subset 0 (shared with C07.R6)'
    for f in r4.findings:
        f.rule = 'C06.R4'
    check.add(r4)
    from sa.rules import c13 as _c13
    from sa.rules.common import share as _sh
    _sh(check, repo, _c13.rule_r3, 'C06.R6', 'coders, renderers and querents keep nothing from one subset (or message) to the next (shared with C13.R3)')
    check.run_rule(rule_handover, repo)
    check.run_rule(rule_pipeline_subsets, repo)
    from sa.rules import c09 as _c09
    _sh(check, repo, _c09.rule_per_subset_rendering, 'C06.R7', 'every renderer shows subset k from the records of subset k (shared with C09.R11)', args=('C06.R7',))
    check.assumptions = ['the receiver named `state` denotes the CoderState (confirmed by reading; DESIGN 2.2)',
                         'registers are attributes of CoderState / TemplateData; no module-level mutable state is used by the walk (checked under C13)']
