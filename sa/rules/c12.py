"""
C12  Damage is detected, reported as a library error, and isolated to one message.

R1 explicit-raise discipline over the call graph of Decoder.process
R2 who-may-call: bit_stream.read only inside the wrapper that converts bitstring errors
R3 handler coverage in generate_bufr_message and main
R4 expected-value validation runs for every section parameter unless explicitly disabled
"""
from __future__ import print_function

import ast

from sa.model import AnalysisError, CallGraph, effects, exception_class_of_raise, norm
from sa.report import RuleResult

ROOT = 'PyBufrKitError'
BUILTIN_EXC_NAMES = ('Exception', 'ValueError', 'TypeError', 'KeyError', 'IndexError', 'IOError', 'OSError', 'RuntimeError', 'StopIteration', 'AttributeError', 'NotImplementedError', 'AssertionError')

# (qualified function, construct) -- reason           (DESIGN appendix A.4)
# Exemptions: (module, kind, where it was confirmed by hand, normalised text of the construct) -- reason.  An entry matches the
# construct in its module either at the function where it was confirmed or, after the code has been moved into a helper, by
# its text (the asserted condition / the message of the exception); it never matches another condition or message.
EXEMPT = [
    ('bufr.py', 'assert', 'SectionConfigurer.configure_section', 'nbits % NBITS_PER_BYTE == 0',
     'checks the bundled layout configuration, not message bytes'),
    ('templatecompiler.py', 'assert', 'CompilerState.compiled_template', 'len(self.block_stack) == 1',
     "balance of the compiler's own with-blocks, not message bytes"),
    ('tables.py', 'assert', '_fix_ncep_descriptors', 'descriptor.n_items == 1',
     'in-stream table repair (NCEP), outside the fault model of C12'),
    ('coder.py', 'raise NotImplementedError', 'Coder.process_operator_descriptor', "'Operator Descriptor {} not implemented'.format(descriptor)",
     'documented unsupported operators 241-243, not damage'),
    ('coder.py', 'raise NotImplementedError', 'Coder.process_delayed_replication_descriptor', "'delayed repetition descriptor'",
     'documented unsupported 031011/031012'),
    ('templatecompiler.py', 'raise NotImplementedError', 'TemplateCompiler.process_delayed_replication_descriptor', "'delayed repetition descriptor'",
     'documented unsupported 031011/031012'),
    ('templatedata.py', 'raise NotImplementedError', 'TemplateData.wire_operator_descriptor', "'Operator Descriptor {} not implemented'.format(descriptor)",
     'documented unsupported operators 241-243'),
]


def exempted(fi, kind, text):
    mod = fi.module.relpath.split('/')[-1]
    for e in EXEMPT:
        if e[0] == mod and e[1] == kind and (e[2] == fi.qualname or e[3] == text):
            return e
    return None


def _is_abstract_hook(repo, fi):
    """fi is a method of class C; every class below C that has no subclass of its own (a concrete leaf) finds another definition
    of the method before C in its MRO, and C has at least one such leaf."""
    base = fi.cls.name
    subs = [n for n in repo.subclasses(base) if n != base]
    leaves = [n for n in subs if not [m for m in repo.subclasses(n) if m != n]]
    if not leaves:
        return False
    for leaf in leaves:
        f = repo.method(leaf, fi.name, required=False)
        if f is None or f is fi:
            return False
    return True


def is_lib_error(repo, cls):
    return repo.has_cls(cls) and repo.is_subclass(cls, ROOT)


def rule_r1(repo):
    rr = RuleResult('C12.R1', 'every explicit raise/assert reachable from Decoder.process raises a PyBufrKitError subclass')
    cg = CallGraph(repo, 'Decoder')
    # Decoder.process, and the scanner with what it runs on a decoded message (extraction of in-stream table definitions)
    entries = [repo.method('Decoder', 'process')]
    tdp = repo.method('BufrTableDefinitionProcessor', 'process', required=False)
    if tdp is not None:
        entries.append(tdp)
    reach = cg.reachable(entries)
    rr.extra = {'functions_reached': len(reach)}
    if len(reach) < 100:
        raise AnalysisError('decode call graph has only %d functions (expected >= 100): resolution is broken' % len(reach))
    used = set()
    for fi in reach:
        eff = effects(fi)
        for r in eff.raises:
            cls = exception_class_of_raise(repo, fi, r)
            inst = '%s: raise %s' % (fi.qualname, cls)
            rr.instance(inst)
            if cls.startswith('<re-raise'):
                continue
            if is_lib_error(repo, cls):
                continue
            msg = norm(r.exc.args[0]) if isinstance(r.exc, ast.Call) and r.exc.args else ''
            ex = exempted(fi, 'raise ' + cls, msg)
            if ex is not None:
                used.add((ex[2], ex[1]))
                continue
            if cls == 'NotImplementedError' and fi.cls is not None and _is_abstract_hook(repo, fi):
                # a hook that every concrete subclass overrides: the statement is the marker of an abstract method, never executed
                continue
            rr.fail('%s:raise %s' % (fi.qualname, cls), '%s:%d' % (fi.module.relpath, r.lineno),
                    'reachable from Decoder.process: raises %s, which is not a subclass of %s, so it escapes '
                    'generate_bufr_message(continue_on_error=True) and the command line handler' % (cls, ROOT))
        for a in eff.asserts:
            inst = '%s: assert %s' % (fi.qualname, norm(a.test)[:60])
            rr.instance(inst)
            ex = exempted(fi, 'assert', norm(a.test))
            if ex is not None:
                used.add((ex[2], ex[1]))
                continue
            rr.fail('%s:assert %s' % (fi.qualname, norm(a.test)), '%s:%d' % (fi.module.relpath, a.lineno),
                    'reachable from Decoder.process: an assert on decoded data raises AssertionError (not a %s; '
                    'and is removed under python -O)' % ROOT)
    rr.extra['exemptions_used'] = sorted('%s: %s' % k for k in used)
    rr.require_floor(15)
    return rr


def rule_r2(repo):
    """Folds instead of statement shapes: the reader is evaluated on a stream model that (a) runs out of data, (b) records the
    formats it is asked for.  How the wrapper is written (try/except/else, a helper that builds the error, f-strings) is irrelevant."""
    from sa.patheval import Interp, Obj, Raise, Stub, Top, Sym
    rr = RuleResult('C12.R2', 'the bit stream is read only through the wrapper that converts bitstring errors; every read format is sized')
    cls = repo.cls('BitStringBitReader')
    init = repo.own_method('BitStringBitReader', '__init__')

    class I(Interp):
        def on_call(self, text, callee, args, kwargs, node, frame):
            if text in ('bitstring.BitStream', 'bitstring.ConstBitStream', 'bitstring.BitArray', 'bitstring.Bits'):
                return self.stream
            if text.startswith('log.'):
                return None
            return self.NOT_HANDLED

    def reader(short):
        it = I(repo, 'BitStringBitReader')
        formats = []

        def read(interp, a, kw, node, frame):
            formats.append(a[0] if a else kw.get('fmt'))
            if short:
                # bitstring: a sized token that runs past the end raises ReadError (a bitstring.Error); the unsized one-token
                # formats 'bool' raise ValueError / IndexError instead (assumption about the third-party package, see DESIGN)
                f = a[0] if a else None
                if isinstance(f, str) and ':' not in f.split('=')[0]:
                    raise Raise('ValueError', node, interp.where(node, frame))
                raise Raise('bitstring.ReadError', node, interp.where(node, frame), Obj('bitstring.ReadError', {'msg': Sym('MSG'), 'args': [Sym('MSG')]}))
            return Sym('raw%d' % len(formats))
        it.stream = Stub('bit stream', {'read': read}, attrs={'pos': Sym('POS'), 'len': Sym('LEN'), 'length': Sym('LEN'), 'bitpos': Sym('POS')})
        obj = Obj('BitStringBitReader', {})
        res = it.run_function(init, lambda: {'self': obj, 's': Sym('BYTES')}, self_class='BitStringBitReader')
        if len(res) != 1 or not res[0].ok:
            raise AnalysisError('BitStringBitReader.__init__ could not be folded: %s' % [r.describe() for r in res])
        return it, res[0].locals['self'], formats

    cases = [('read_uint', [n]) for n in (1, 7, 8, 13, 16, 24, 33, 64)] + [('read_bytes', [n]) for n in (1, 4, 9)] + \
            [('read_bin', [n]) for n in (1, 6, 32)] + [('read_int', [n]) for n in (2, 9, 16)] + [('read_bool', [])] + \
            [('read_uint_or_none', [n]) for n in (1, 4, 8)]
    # any further read_* method the reader class has grown
    for name, mfi in sorted(cls.methods.items()):
        if name.startswith('read_') and not any(name == c[0] for c in cases):
            cases.append((name, [8] * (len(mfi.params) - 1)))
    n_formats = 0
    for meth, args in cases:
        fi = repo.method('BitStringBitReader', meth, required=False)
        if fi is None:
            raise AnalysisError('BitStringBitReader.%s vanished' % meth)
        # (a) the stream runs out of data at the first token
        it, obj, formats = reader(short=True)
        res = it.run_function(fi, lambda: dict([('self', obj)] + list(zip(fi.params[1:], args))), self_class='BitStringBitReader')
        rr.instance('%s(%s) on exhausted data' % (meth, ', '.join(map(str, args))))
        for r in res:
            if r.ok:
                rr.fail('BitStringBitReader.%s:short-read' % meth, fi.where, '%s(%s) returns %r although the stream has no data left' % (meth, args, r.value))
            elif not is_lib_error(repo, r.exc.cls):
                unsized = [f for f in formats if isinstance(f, str) and ':' not in f.split('=')[0]]
                if unsized:
                    rr.fail('BitStringBitReader.%s:unsized-format' % meth, fi.where,
                            '%s reads the unsized format %r: when the data end here bitstring raises ValueError, not a bitstring.Error, so the '
                            'wrapper does not turn it into BitReadError (a message truncated at this point fails with a foreign exception)' % (meth, unsized[0]))
                else:
                    rr.fail('BitStringBitReader._bit_stream_read:wrap', fi.where,
                            '%s(%s) past the end of the data raises %s: the bitstring error is not converted into a PyBufrKitError subclass' % (meth, args, r.exc.cls))
        # (b) formats asked for when data are there
        it, obj, formats = reader(short=False)
        res = it.run_function(fi, lambda: dict([('self', obj)] + list(zip(fi.params[1:], args))), self_class='BitStringBitReader')
        for f in formats:
            n_formats += 1
            if isinstance(f, int) and not isinstance(f, bool):
                continue          # read(n): n bits, sized by construction
            if not isinstance(f, str):
                raise AnalysisError('%s(%s): the format handed to the stream does not fold to a string (%r)' % (meth, args, f))
            if ':' not in f.split('=')[0]:
                rr.fail('BitStringBitReader.%s:unsized-format' % meth, fi.where,
                        '%s reads the unsized format %r: when the data end here bitstring raises ValueError, not a bitstring.Error, so the '
                        'wrapper does not turn it into BitReadError (a message truncated at this point fails with a foreign exception)' % (meth, f))
        if not formats:
            rr.fail('BitStringBitReader.%s:no-read' % meth, fi.where, '%s(%s) reads nothing from the stream' % (meth, args))
    rr.extra = {'formats_folded': n_formats}
    # who may touch the stream position: only reads of .pos outside the constructor (a stored position skips the length check of read)
    for name, fi in sorted(cls.methods.items()):
        for n in ast.walk(fi.node):
            if isinstance(n, ast.Attribute) and n.attr in ('pos', 'bitpos', 'bytepos') and isinstance(n.ctx, (ast.Store, ast.Del)) and 'bit_stream' in norm(n.value):
                rr.instance('%s stores bit_stream.%s' % (fi.qualname, n.attr))
                rr.fail('%s:bit_stream.%s' % (fi.qualname, n.attr), '%s:%d' % (fi.module.relpath, n.lineno),
                        '%s moves the stream position by assignment: a seek past the end is not a read, so it is reported by bitstring as ValueError '
                        '(or not at all) instead of BitReadError' % fi.qualname)
            if isinstance(n, ast.AugAssign) and isinstance(n.target, ast.Attribute) and n.target.attr in ('pos', 'bitpos', 'bytepos') and 'bit_stream' in norm(n.target.value):
                rr.fail('%s:bit_stream.%s' % (fi.qualname, n.target.attr), '%s:%d' % (fi.module.relpath, n.lineno),
                        '%s moves the stream position in place: a seek past the end is not a read, so it is reported by bitstring as ValueError '
                        '(or not at all) instead of BitReadError' % fi.qualname)
    rr.require_floor(7)
    return rr


def rule_r3(repo):
    """main() folded with the argument parser scripted and every command replaced by one that raises a library error: whatever
    the dispatch looks like (if/elif chain, table of handlers) and however the handlers are grouped, no library error may escape."""
    from sa.patheval import Interp, Obj, Raise, Stub, Top, FuncRef
    rr = RuleResult('C12.R3', 'the command line reports every library error without a traceback (main() folded with failing commands)')
    main = repo.func('__init__', 'main')
    commands = sorted(n for n in repo.module('commands').funcs if n.startswith('command_'))
    if len(commands) < 5:
        raise AnalysisError('only %d command_* functions found in commands.py' % len(commands))
    errors = sorted(c for c in repo.module('errors').classes if is_lib_error(repo, c))
    if ROOT not in errors:
        raise AnalysisError('%s not found in errors.py' % ROOT)

    class I(Interp):
        def on_call(self, text, callee, args, kwargs, node, frame):
            if text.endswith('ArgumentParser'):
                def parse_args(interp, a, kw, node, frame):
                    return self.ns
                return Stub('argument parser', {'parse_args': parse_args}, chain=True)
            if text.startswith('logging.') or text.startswith('log.') or text.startswith('LOGGER.'):
                return None
            if isinstance(callee, FuncRef) and callee.fi.name.startswith('command_') and callee.fi.module.relpath.endswith('commands.py'):
                self.event('command', callee.fi.name)
                raise Raise(self.exc, node, self.where(node, frame), Obj(self.exc, {'args': ['scripted'], 'message': 'scripted'}))
            return self.NOT_HANDLED

    n = 0
    for cmd in commands:
        for exc in errors:
            it = I(repo, None)
            it.exc = exc
            it.ns = Obj('Namespace', {'command': cmd[len('command_'):], 'info': False, 'debug': False})
            res = it.run_function(main, lambda: {})
            n += 1
            for r in res:
                called = [e[1] for e in r.events if e[0] == 'command']
                if called != [cmd]:
                    rr.fail('main:dispatch', main.where, 'the command %r runs %s (expected %s exactly once)' % (cmd[len('command_'):], called or 'nothing', cmd))
                elif not r.ok:
                    rr.fail('main:handler', main.where, 'a %s raised by %s escapes main() as %s: the command line would print a traceback instead of reporting the '
                            'error' % (exc, cmd, r.exc.cls), witness={'command': cmd, 'error': exc})
        rr.instance('%s raising each of %s' % (cmd, ', '.join(errors)))
    rr.extra = {'cases': n}
    rr.require_floor(1)
    return rr

def rule_stream_commands(repo, rule='C12.R11'):
    """The commands that read a stream message by message hand every message on (render, print, write) before they ask the scanner
    for the next one: when the scan fails at message k, the k - 1 messages before it have been delivered.  Folded with the scanner
    replaced by a lazy scripted iterator that yields two messages and then raises the library error."""
    from sa.patheval import Interp, Obj, Raise, Stub, Top, FuncRef, LazyIter, Sym
    rr = RuleResult(rule, 'stream commands deliver each message before asking the scanner for the next one (the messages before a damaged one are delivered)')
    mod = repo.module('commands')
    users = []
    def scans(f, seen=()):
        """f calls generate_bufr_message itself or through a module-level helper of the commands module"""
        for c in effects(f).calls:
            if isinstance(c.func, ast.Name):
                if c.func.id == 'generate_bufr_message':
                    return True
                g = mod.funcs.get(c.func.id)
                if g is not None and g is not f and g not in seen and not c.func.id.startswith('command_') and scans(g, seen + (f,)):
                    return True
        return False
    for name, fi in sorted(mod.funcs.items()):
        if name.startswith('command_') and scans(fi):
            users.append(fi)
    if len(users) < 3:
        raise AnalysisError('only %d commands use generate_bufr_message (expected decode, info, split)' % len(users))

    class I(Interp):
        MAX_PATHS = 4000

        def uses(self, args, kwargs):
            for a in list(args) + list(kwargs.values()):
                if isinstance(a, Stub) and a.label.startswith('message '):
                    self.event('deliver', a.label)

        def on_call(self, text, callee, args, kwargs, node, frame):
            it = self
            if text == 'generate_bufr_message':
                def on_next(k):
                    it.event('next', k)

                def method(interp, a, kw, node, frame):
                    return Top('result')
                msgs = [Stub('message %d' % k, {'wire': lambda interp, a, kw, node, frame: it.event('deliver', 'message %d' % k),
                                                'build_template': lambda interp, a, kw, node, frame: (Top('template'), Top('tables'))},
                             attrs={'serialized_bytes': Sym('BYTES%d' % k)}) for k in (0, 1)]
                for k, m in enumerate(msgs):
                    m.methods['wire'] = (lambda kk: (lambda interp, a, kw, node, frame: it.event('deliver', 'message %d' % kk)))(k)
                return LazyIter(msgs + [Raise(ROOT, node, it.where(node, frame), Obj(ROOT, {'args': ['scripted'], 'message': 'scripted'}))], on_next, 'scanner')
            if text == 'open':
                def write(interp, a, kw, node, frame):
                    for x in a:
                        r = repr(x)
                        if r.startswith('BYTES'):
                            it.event('deliver', 'message %s' % r[5:])
                    return None
                return Stub('file', {'read': lambda interp, a, kw, node, frame: Sym('STREAM'), 'write': write})
            if text.startswith('log.') or text.startswith('sys.'):
                return None
            self.uses(args, kwargs)
            if isinstance(callee, FuncRef):
                return self.NOT_HANDLED
            if text in ('print',) or text.startswith('json.'):
                return Top('text')
            from sa.patheval import ClassRef as _CR
            if isinstance(callee, _CR) and not (callee.name in BUILTIN_EXC_NAMES or repo.has_cls(callee.name) and repo.is_subclass(callee.name, ROOT)):
                # a collaborator class (Decoder, renderers), however the call names it (directly, or a class taken from a table / held
                # in a variable): an object whose methods record the messages they are given
                return Stub(callee.name)
            if text[:1].isupper() and '.' not in text:
                return Stub(text)
            return self.NOT_HANDLED

        def builtin(self, name, args, kwargs, node, frame):
            if name == 'print':
                return None
            return Interp.builtin(self, name, args, kwargs, node, frame)
    # Stub.call_method does not see arguments: deliveries through renderer.render(m) are recorded by a Stub subclass

    class Rec(Stub):
        def call_method(self2, name, args, kwargs, interp, frame, node):
            interp.uses(args, kwargs)
            return Stub.call_method(self2, name, args, kwargs, interp, frame, node)
    _orig_stub = Stub

    for fi in users:
        for flags in ({'multiple_messages': True, 'count_only': False}, {'multiple_messages': True, 'count_only': False, 'attributed': True, 'json': True}):
            it = I(repo, None)
            fields = {'filenames': ['f.bufr'], 'definitions_directory': None, 'tables_root_directory': None, 'compiled_template_cache_max': None,
                      'continue_on_error': False, 'ignore_value_expectation': False, 'filter': None, 'attributed': False, 'json': False, 'template': False}
            fields.update(flags)
            ns = Obj('Namespace', fields)

            class J(I):
                def on_call(self3, text, callee, args, kwargs, node, frame):
                    r = I.on_call(self3, text, callee, args, kwargs, node, frame)
                    if isinstance(r, Stub) and type(r) is Stub and not r.label.startswith('message') and r.label != 'file':
                        return Rec(r.label, r.methods, r.attrs)
                    return r
            it = J(repo, None)
            res = it.run_function(fi, lambda: {'ns': ns})
            rr.instance('%s%s: scanner yields two messages, then fails' % (fi.name, ' (attributed JSON)' if flags.get('attributed') else ''))
            n_raise = 0
            for r in res:
                ev = [(e[0], e[1]) for e in r.events if e[0] in ('next', 'deliver')]
                if not any(e[0] == 'next' for e in ev):
                    continue        # a path that does not scan (another mode of the command)
                if r.ok:
                    rr.fail('%s:error-swallowed' % fi.name, fi.where, '%s returns normally although the scan failed after two messages (events %s)' % (fi.name, ev))
                    continue
                n_raise += 1
                # between next(k) and next(k+1) message k must have been delivered
                pos = dict((e[1], i) for i, e in enumerate(ev) if e[0] == 'next')
                for k in (0, 1):
                    lo, hi = pos.get(k), pos.get(k + 1)
                    delivered = lo is not None and hi is not None and any(e == ('deliver', 'message %d' % k) for e in ev[lo:hi])
                    if not delivered:
                        rr.fail('%s:delivery-order' % fi.name, fi.where, '%s asks the scanner for message %d before message %d has been rendered / written '
                                '(events %s): when a later message of the stream is damaged, the messages before it are not delivered' % (fi.name, k + 1, k, ev),
                                witness={'events': [list(e) for e in ev]})
                        break
            if n_raise == 0:
                raise AnalysisError('%s: no path of the fold reaches the scripted scanner failure' % fi.name)
    rr.require_floor(6)
    return rr

def rule_descriptor_list(repo, rule='C12.R12'):
    """Decoder.process_unexpanded_descriptors folded on concrete section-3 contents: every 16-bit entry up to the declared length is a
    descriptor of the template, whatever its value - an entry that is in no table (000000 included) must reach the template, where it
    is refused, and must not end or thin out the list."""
    from sa.patheval import Interp, Native, Obj, Raise, Top
    from sa.rules.c04 import SectionModel, param
    rr = RuleResult(rule, 'every entry of the descriptor list in section 3 is kept: undefined ones (000000 included) are not dropped or taken for fill')
    fi = repo.method('Decoder', 'process_unexpanded_descriptors')

    class Bits(Native):
        def __init__(self, bits, pos=0):
            self.bits, self.pos = bits, pos

        def __repr__(self):
            return 'Bits@%d' % self.pos

        def call_method(self, name, args, kwargs, interp, frame, node):
            if name == 'get_pos':
                return self.pos
            if name in ('read_uint', 'read_uint_or_none') or (name == 'read' and args and args[0] == 'uint'):
                n = args[-1]
                if not isinstance(n, int):
                    raise AnalysisError('descriptor list read with a width the fold cannot follow: %r' % (n,))
                if self.pos + n > len(self.bits):
                    raise Raise('BitReadError', node, interp.where(node, frame))
                v = int(self.bits[self.pos:self.pos + n], 2) if n else 0
                self.pos += n
                return v
            if name == 'read_bool':
                self.pos += 1
                return self.bits[self.pos - 1] == '1'
            if name in ('read_bin',):
                n = args[0]
                self.pos += n
                return self.bits[self.pos - n:self.pos]
            if name == 'skip':
                self.pos += args[0]
                return None
            raise AnalysisError('descriptor list read through bit_reader.%s, which the fold does not model' % name)

    class I(Interp):
        def on_call(self, text, callee, args, kwargs, node, frame):
            if text.startswith('log.'):
                return None
            return self.NOT_HANDLED
    lists = [
        ('defined descriptors', [301001, 12101, 101002, 10004]),
        ('000000 in the middle', [301001, 0, 12101]),
        ('000000 first', [0, 12101]),
        ('000000 last', [12101, 0]),
        ('only 000000', [0]),
        ('undefined element and sequence', [1001, 63255, 363255, 12101]),
        ('all ones', [363255, 263255]),
        ('repeated descriptor', [12101, 12101, 12101]),
    ]
    for name, ids in lists:
        head = 7 * 8        # section length (3) + reserved (1) + subset count (2) + flags (1) precede the list
        bits = '0' * head + ''.join(format(((i // 100000) << 14) | ((i // 1000 % 100) << 8) | (i % 1000), '016b') for i in ids)
        for extra in (0, 1):
            # a declared length with one surplus octet (even-octet padding of edition <= 3): the odd octet is not an entry
            sec = SectionModel([param('section_length', 24, value=7 + 2 * len(ids) + extra)], {'index': 3, 'bitpos_start': 0, 'BITPOS_START': 0})
            it = I(repo, 'Decoder')
            res = it.run_function(fi, lambda: {'self': Obj('Decoder', {}), 'bit_reader': Bits(bits + '0' * 8 * extra, head), 'section': sec}, self_class='Decoder')
            rr.instance('section 3 with %s%s' % (name, ', one padding octet' if extra else ''))
            for r in res:
                if not r.ok or r.value != ids:
                    rr.fail('Decoder.process_unexpanded_descriptors:%s' % name.replace(' ', '-'), fi.where,
                            'a section 3 that lists %s%s is read as %s: every entry must be handed to the template (an undefined one is refused there '
                            'with UnknownDescriptor); dropping it lets a damaged message decode' % (
                                ['%06d' % i for i in ids], ' plus one padding octet' if extra else '', ['%06d' % i for i in r.value] if r.ok and isinstance(r.value, list) and
                                all(isinstance(x, int) for x in r.value) else r.describe()), witness={'ids': ids, 'padding_octets': extra})
    rr.require_floor(16)
    return rr


def rule_r4(repo):
    rr = RuleResult('C12.R4', 'expected values (start / stop signature) are validated for every parameter unless explicitly disabled; folded')
    from sa.rules.c04 import SectionModel, SecInterp, PosIO, param, message
    from sa.patheval import Obj, Sym, Top
    fi = repo.own_method('Decoder', 'process_section')
    cases = [
        ('stop signature damaged', [param('stop_signature', 32, 'bytes', expected=b'7777')], [b'7776'], 'error'),
        ('stop signature overwritten with octets above 0x7f', [param('stop_signature', 32, 'bytes', expected=b'7777')], [b'77\xff\xfe'], 'error'),
        ('start signature overwritten with octets above 0x7f', [param('start_signature', 32, 'bytes', expected=b'BUFR'), param('length', 24)], [b'\x80\x81\x82\x83', 100], 'error'),
        ('stop signature intact', [param('stop_signature', 32, 'bytes', expected=b'7777')], [b'7777'], 'ok'),
        ('start signature damaged, later parameter fine', [param('start_signature', 32, 'bytes', expected=b'BUFR'), param('length', 24), param('edition', 8)],
         [b'BUFX', 100, 4], 'error'),
        ('second of two expected parameters damaged', [param('a', 8, expected=1), param('b', 8, expected=2)], [1, 3], 'error'),
        ('no expectation', [param('length', 24), param('edition', 8)], [100, 4], 'ok'),
        ('expectation removed (ignore_value_expectation)', [param('stop_signature', 32, 'bytes', expected=None)], [b'7776'], 'ok'),
    ]
    for name, params, reads, want in cases:
        it = SecInterp(repo, 'Decoder', 0)
        res = it.run_function(fi, lambda: {'self': Obj('Decoder', {}), 'bufr_message': message(4), 'bit_reader': PosIO(0, list(reads)),
                                           'section': SectionModel([Obj(p.cls, dict(p.fields)) for p in params], {'index': 5})}, self_class='Decoder')
        rr.instance('%s -> %s' % (name, want))
        for r in res:
            if want == 'error':
                if r.ok or not is_lib_error(repo, r.exc.cls):
                    rr.fail('Decoder.process_section:expected-check', fi.where, '%s: outcome %s; a value different from the expected one must raise a %s' % (name, r.describe(), ROOT),
                            witness={'case': name})
            else:
                if not r.ok:
                    rr.fail('Decoder.process_section:expected-check:spurious', fi.where, '%s: raises %s' % (name, r.exc.cls), witness={'case': name})
    # layouts: start and stop signatures carry expectations
    s0 = repo.layout(0, None)
    s5 = repo.layout(5, None)
    exp0 = [p.get('expected') for p in s0['parameters'] if p['name'] == 'start_signature']
    exp5 = [p.get('expected') for p in s5['parameters'] if p['name'] == 'stop_signature']
    rr.instance('layout: start_signature expected %r, stop_signature expected %r' % (exp0, exp5))
    if exp0 != ['BUFR'] or exp5 != ['7777']:
        rr.fail('layouts:signatures', s5['__file__'], 'start/stop signature expectations are %r / %r' % (exp0, exp5))
    # SectionParameter keeps the expectation as bytes (what the reader returns)
    sp = repo.own_method('SectionParameter', '__init__')
    from sa.rules.c19 import BitInterp
    bi = BitInterp(repo, 'SectionParameter')
    res = bi.run_function(sp, lambda: {'self': Obj('SectionParameter', {}), 'name': 'stop_signature', 'nbits': 32, 'data_type': 'bytes', 'expected': '7777',
                                       'as_property': False, 'value': None}, self_class='SectionParameter')
    rr.instance('SectionParameter stores a text expectation as bytes')
    for r in res:
        got = r.locals['self'].fields.get('expected') if r.ok else r.describe()
        if got != b'7777':
            rr.fail('SectionParameter.__init__:expected-bytes', sp.where, "the expectation '7777' is stored as %r; the reader returns bytes, so the comparison would never match" % (got,))
    rr.require_floor(7)
    return rr

def rule_truncated_input(repo, rule='C12.R13'):
    """Decoder.process folded on concrete octet strings: a 44-octet message cut after every octet 0..43, with and without text in
    front of the start signature, located by signature or decoded in place.  The sections are scripted (octets per section); the bit
    reader is bounded by the octets actually handed over and answers a read past the end with the wrapped read error.  Every cut must
    end in a library error - whatever the entry code does with the string before the first section is read - and the whole message
    must decode."""
    from sa.rules.c04 import ProcInterp, PosIO
    from sa.patheval import Obj, Raise, UnknownMethod
    from sa.rules.common import callee_qual
    rr = RuleResult(rule, 'a message cut after any octet is refused with a library error by Decoder.process, the whole message decodes (fold on concrete octet strings)')
    fi = repo.own_method('Decoder', 'process')
    sizes = [8, 10, 10, 12, 4]
    whole = b'BUFR' + (44).to_bytes(3, 'big') + b'\x04' + b'\x00' * 32 + b'7777'
    n = 0

    class I(ProcInterp):
        def on_call(self, text, callee, args, kwargs, node, frame):
            q = callee_qual(callee) or ''
            if text in ('get_bit_reader',) or q.endswith('get_bit_reader'):
                if not isinstance(args[0], bytes):
                    raise AnalysisError('Decoder.process hands %r to the bit reader in a fold on a concrete octet string' % (args[0],))
                self.avail = len(args[0]) * 8
                self.used = 0
                self.handed = args[0]
                return PosIO(0)
            if text == 'self.process_section' or q.split('.')[-1] == 'process_section':
                if self.used + self.cur > self.avail:
                    raise Raise('BitReadError', node, self.where(node, frame))
                self.used += self.cur
                return self.cur
            return ProcInterp.on_call(self, text, callee, args, kwargs, node, frame)

        def on_subscript(self, base, idx, node, frame):
            return self.NOT_HANDLED
    for front in (b'', b'\r\r\nIUSK73 AMMC 182300\r\r\n'):
        for sig in (b'BUFR', None):
            if sig is None and front:
                continue
            for cut in range(0, len(whole) + 1):
                data = front + whole[:cut]
                script = [(Obj('BufrSectionStub', {'end_of_message': k == len(sizes) - 1}), 8 * sz) for k, sz in enumerate(sizes)]
                it = I(repo, script)
                res = it.run_function(fi, lambda: {'self': Obj('Decoder', {}), 's': data, 'file_path': 'f', 'start_signature': sig, 'info_only': True,
                                                   'ignore_value_expectation': False, 'wire_template_data': True}, self_class='Decoder')
                n += 1
                what = 'message cut after octet %d%s, %s' % (cut, ' behind a bulletin heading' if front else '', 'located by signature' if sig else 'decoded in place')
                if len(res) != 1:
                    raise AnalysisError('Decoder.process forks into %d paths on a concrete octet string (%s)' % (len(res), what))
                r = res[0]
                if cut == len(whole):
                    sb = r.value.fields.get('serialized_bytes') if r.ok and isinstance(r.value, Obj) else None
                    if not r.ok or sb != whole:
                        rr.fail('Decoder.process:whole', fi.where, 'the whole message (%s) gives %s' % (what, r.describe() if not r.ok else 'serialized_bytes %r' % (sb,)))
                elif r.ok:
                    rr.fail('Decoder.process:cut-accepted', fi.where, '%s: decoded without complaint' % what, witness={'cut': cut})
                elif not is_lib_error(repo, r.exc.cls):
                    rr.fail('Decoder.process:cut', fi.where, '%s: %s escapes instead of a library error' % (what, r.exc.cls), witness={'cut': cut, 'octets': repr(data)})
    rr.instance('%d octet strings: every cut of a 44-octet message x {bare, behind a heading} x {by signature, in place}' % n)
    rr.extra = {'strings': n}
    rr.require_floor(1)
    return rr


def rule_r7(repo):
    """Folds the template walk (decoder and template compiler) with an undefined descriptor at every structural position and under
    every operator regime that changes how the next member is treated: every path must end in a library error.  The placeholder
    objects are strict: reading an attribute no Undefined* class defines is the AttributeError the running code would raise."""
    from sa.patheval import Obj, Top, Sym
    from sa.rules import c08
    from sa.rules.walk import element, operator
    rr = RuleResult('C12.R7', 'an undefined descriptor is refused with a library error at every position of the template (fold of the walk)')
    consts = dict((k, repo.const('coder', k)) for k in ('BITMAP_INDICATOR', 'BITMAP_WAITING_FOR_BIT', 'BITMAP_BIT_COUNTING'))

    def U(kind):
        return Obj('Undefined%sDescriptor' % kind, {'id': 12255 if kind == 'Element' else 312255, '__strict__': True})

    el = element(12101)
    fac = element(31001, unit='NUMERIC')

    def positions(u):
        yield 'top level', [u], None
        yield 'after an element', [el, u], None
        yield 'inside a fixed replication', [Obj('FixedReplicationDescriptor', {'id': 101002, 'members': [u]})], None
        yield 'inside a delayed replication', [Obj('DelayedReplicationDescriptor', {'id': 101000, 'members': [u], 'factor': fac})], None
        yield 'inside a sequence', [Obj('SequenceDescriptor', {'id': 301001, 'name': 's', 'members': [el, u]})], None
        yield 'after 201YYY', [operator(201, 130), u], None
        yield 'while 203YYY defines reference values', [u], {'nbits_of_new_refval': 12}
        yield 'while 204YYY is in force', [u], {'nbits_of_associated': [2]}
        yield 'while 221YYY is counting', [u], {'data_not_present_count': 2}
        yield 'after 222000', [u], {'status_qa_info_follows': repo.const('coder', 'QA_INFO_WAITING')}
        for k, v in sorted(consts.items()):
            yield 'while a bitmap is being defined (%s)' % k, [u], {'bitmap_definition_state': v}
        if u.cls == 'UndefinedElementDescriptor':
            yield 'as the factor of a delayed replication', [Obj('DelayedReplicationDescriptor', {'id': 101000, 'members': [el], 'factor': u})], None
            yield 'as the factor of a nested delayed replication', [Obj('FixedReplicationDescriptor', {'id': 101002, 'members': [
                Obj('DelayedReplicationDescriptor', {'id': 101000, 'members': [el], 'factor': u})]})], None

    for kind in ('Element', 'Sequence'):
        if not repo.has_cls('Undefined%sDescriptor' % kind):
            raise AnalysisError('class Undefined%sDescriptor vanished' % kind)
        for label, members, extra in positions(U(kind)):
            runs = [('Decoder', c08.run_plain(repo, members, 'Decoder', extra))]
            if extra is None:
                runs.append(('TemplateCompiler', [r for r, _ in c08.run_compile(repo, members)]))
            for coder, res in runs:
                rr.instance('%s: undefined %s descriptor %s' % (coder, kind.lower(), label))
                if not res:
                    raise AnalysisError('no path for %s / %s' % (coder, label))
                for r in res:
                    if r.ok:
                        rr.fail('%s:undefined-%s:%s' % (coder, kind.lower(), label), repo.method(coder, 'process_members').where,
                                '%s: an undefined %s descriptor %s is processed without an error (path %s)' % (coder, kind.lower(), label, r.describe()))
                    elif not is_lib_error(repo, r.exc.cls):
                        rr.fail('%s:undefined-%s:%s' % (coder, kind.lower(), label), r.exc.where or repo.method(coder, 'process_members').where,
                                '%s: an undefined %s descriptor %s ends in %s (%s), which is not a %s: with continue-on-error it escapes the '
                                'handler and the messages after the damaged one are lost' % (coder, kind.lower(), label, r.exc.cls, r.exc.value or '', ROOT),
                                witness={'position': label, 'coder': coder})
    # a replication the data repeat zero times: its members are never visited by the plain walk
    from sa.patheval import FuncRef

    class ZeroFactor(c08.NoQuery):
        def on_call(self2, text, callee, args, kwargs, node, frame):
            if isinstance(callee, FuncRef) and callee.fi.name == 'get_value_for_delayed_replication_factor':
                return 0
            return c08.NoQuery.on_call(self2, text, callee, args, kwargs, node, frame)

    fi = repo.method('Decoder', 'process_members')
    for kind in ('Element', 'Sequence'):
        u = U(kind)
        members = [Obj('DelayedReplicationDescriptor', {'id': 101000, 'members': [u], 'factor': fac})]
        it = ZeroFactor(repo, 'Decoder')
        res = it.run_function(fi, lambda: {'self': Obj('Decoder', {}), 'state': c08._mk_state(repo, it, 'CoderState', None),
                                           'bit_operator': Top('b'), 'members': list(members)}, self_class='Decoder')
        label = 'inside a delayed replication repeated zero times'
        rr.instance('Decoder: undefined %s descriptor %s' % (kind.lower(), label))
        for r in res:
            if r.ok:
                rr.fail('Decoder:undefined-%s:%s' % (kind.lower(), label), fi.where,
                        'Decoder: an undefined %s descriptor %s is never looked at: the message decodes although its descriptor list is damaged '
                        '(the compiled-template path refuses the same list)' % (kind.lower(), label))
            elif not is_lib_error(repo, r.exc.cls):
                rr.fail('Decoder:undefined-%s:%s' % (kind.lower(), label), r.exc.where or fi.where, 'ends in %s' % r.exc.cls)
    rr.require_floor(40)
    return rr


def rule_r8(repo):
    """Folds the template construction over descriptor lists cut short at every point (what a decreased section 3 length leaves):
    the outcome is a template or a library error, never StopIteration (a RuntimeError inside generate_bufr_message)."""
    from sa.rules import c14
    rr = RuleResult('C12.R8', 'a descriptor list cut at any point builds a template or raises a library error (fold of the template construction)')
    full = [[101000, 31001, 12101], [102000, 31001, 1001, 12101], [103002, 1001, 101000, 31001, 12101], [1001, 101000, 31001, 12101],
            [102002, 101000, 31002, 12101, 1001], [301001, 104000, 31001, 1001, 102000, 31001, 12101, 10004, 7004], [201130, 101000, 31001, 12101, 201000]]
    seen = set()
    for ids in full:
        for cut in range(1, len(ids) + 1):
            pre = tuple(ids[:cut])
            if pre in seen:
                continue
            seen.add(pre)
            fi, res = c14.build(repo, list(pre))
            rr.instance('descriptor list %s' % (list(pre),))
            for r in res:
                if r.ok:
                    continue
                if not is_lib_error(repo, r.exc.cls):
                    rr.fail('_descriptors_from_ids_iter:cut-list:%s' % r.exc.cls, r.exc.where or fi.where,
                            'the descriptor list %s (a list cut after %d of %d descriptors) makes the template construction end in %s, '
                            'which is not a %s' % (list(pre), cut, len(ids), r.exc.cls, ROOT), witness={'ids': list(pre)})
    rr.require_floor(20)
    return rr


def run(repo, check):
    check.run_rule(rule_r1, repo)
    check.run_rule(rule_r2, repo)
    check.run_rule(rule_r3, repo)
    check.run_rule(rule_r4, repo)
    from sa.rules import c11
    r5 = check.call(c11.rule_r1, repo)
    r5.rule = 'C12.R5'
    r5.title = 'skip-and-continue: the scanner folded over a scripted stream with damaged messages (shared with C11.R1)'
    for f in r5.findings:
        f.rule = 'C12.R5'
    check.add(r5)
    from sa.rules import c08
    r6 = check.call(c08.rule_r5, repo)
    r6.rule = 'C12.R6'
    r6.title = 'a damaged descriptor list never hits the compiled template of an intact sibling: complete cache key (shared with C08.R5)'
    for f in r6.findings:
        f.rule = 'C12.R6'
    check.add(r6)
    check.run_rule(rule_r7, repo)
    check.run_rule(rule_r8, repo)
    check.run_rule(rule_stream_commands, repo)
    check.run_rule(rule_descriptor_list, repo)
    check.run_rule(rule_truncated_input, repo)
    from sa.rules import c17
    from sa.rules.common import share
    share(check, repo, c17.rule_r3, 'C12.R9', 'disabling the signature check for one decode does not disable it for later ones: shared layouts are not written (shared with C17.R3)')
    from sa.rules import c04
    share(check, repo, c04.rule_r3, 'C12.R10', 'a decreased (down to zero) or increased declared section length: shorter than the content is refused with a library error, '
          'longer is skipped (shared with C04.R3, decoder part)', keep=lambda f: f.key.startswith('Decoder.'), args=('quick',))
    from sa.rules import c20 as _c20
    share(check, repo, _c20.rule_r6, 'C12.R14', 'whatever shape a message of data category 11 has, the definition processor fails with the library error only (shared with C20.R6)')
    check.assumptions = ['implicit exceptions are decided only where a fold executes the code (R5, R7, R8: template walk, template construction, scanner); elsewhere only explicit raise/assert sites are decided',
                         'bitstring raises a subclass of bitstring.Error on a short read of a sized format (uint:n, bytes:n, bin:n) and ValueError on a short read of the unsized bool format (bitstring 4.x, confirmed by reading its source and by experiment)']
