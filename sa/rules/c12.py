"""
C12  Damage is detected, reported as a library error, and isolated to one message.

R1 explicit-raise discipline over the call graph of Decoder.process
R2 who-may-call: bit_stream.read only inside the wrapper that converts bitstring errors
R3 handler coverage in generate_bufr_message and main
R4 expected-value validation runs for every section parameter unless explicitly disabled
"""
from __future__ import print_function

import ast

from sa.model import AnalysisError, CallGraph, effects, exception_class_of_raise, norm
from sa.report import RuleResult

ROOT = 'PyBufrKitError'

# (qualified function, construct) -- reason           (DESIGN appendix A.4)
EXEMPT = {
    ('SectionConfigurer.configure_section', 'assert'): 'checks the bundled layout configuration, not message bytes',
    ('CompilerState.compiled_template', 'assert'): "balance of the compiler's own with-blocks, not message bytes",
    ('_fix_ncep_descriptors', 'assert'): 'in-stream table repair (NCEP), outside the fault model of C12',
    ('Coder.process_operator_descriptor', 'raise NotImplementedError'): 'documented unsupported operators 241-243, not damage',
    ('Coder.process_delayed_replication_descriptor', 'raise NotImplementedError'): 'documented unsupported 031011/031012',
    ('TemplateCompiler.process_delayed_replication_descriptor', 'raise NotImplementedError'): 'documented unsupported 031011/031012',
    ('TemplateData.wire_operator_descriptor', 'raise NotImplementedError'): 'documented unsupported operators 241-243',
}


def is_lib_error(repo, cls):
    return repo.has_cls(cls) and repo.is_subclass(cls, ROOT)


def rule_r1(repo):
    rr = RuleResult('C12.R1', 'every explicit raise/assert reachable from Decoder.process raises a PyBufrKitError subclass')
    cg = CallGraph(repo, 'Decoder')
    reach = cg.reachable([repo.method('Decoder', 'process')])
    rr.extra = {'functions_reached': len(reach)}
    if len(reach) < 100:
        raise AnalysisError('decode call graph has only %d functions (expected >= 100): resolution is broken' % len(reach))
    used = set()
    for fi in reach:
        eff = effects(fi)
        for r in eff.raises:
            cls = exception_class_of_raise(repo, fi, r)
            inst = '%s: raise %s' % (fi.qualname, cls)
            rr.instance(inst)
            if cls.startswith('<re-raise'):
                continue
            if is_lib_error(repo, cls):
                continue
            if (fi.qualname, 'raise ' + cls) in EXEMPT:
                used.add((fi.qualname, 'raise ' + cls))
                continue
            rr.fail('%s:raise %s' % (fi.qualname, cls), '%s:%d' % (fi.module.relpath, r.lineno),
                    'reachable from Decoder.process: raises %s, which is not a subclass of %s, so it escapes '
                    'generate_bufr_message(continue_on_error=True) and the command line handler' % (cls, ROOT))
        for a in eff.asserts:
            inst = '%s: assert %s' % (fi.qualname, norm(a.test)[:60])
            rr.instance(inst)
            if (fi.qualname, 'assert') in EXEMPT:
                used.add((fi.qualname, 'assert'))
                continue
            rr.fail('%s:assert %s' % (fi.qualname, norm(a.test)), '%s:%d' % (fi.module.relpath, a.lineno),
                    'reachable from Decoder.process: an assert on decoded data raises AssertionError (not a %s; '
                    'and is removed under python -O)' % ROOT)
    rr.extra['exemptions_used'] = sorted('%s: %s' % k for k in used)
    rr.require_floor(15)
    return rr


def rule_r2(repo):
    rr = RuleResult('C12.R2', 'the bit stream is read only through the wrapper that converts bitstring errors')
    cls = repo.cls('BitStringBitReader')
    wrapper = repo.own_method('BitStringBitReader', '_bit_stream_read')
    # the wrapper: try { return self.bit_stream.read(..) } except <bitstring error> { raise BitReadError }
    tries = [n for n in ast.walk(wrapper.node) if isinstance(n, ast.Try)]
    ok = False
    for t in tries:
        reads = [c for s in t.body for c in ast.walk(s) if isinstance(c, ast.Call) and norm(c.func) == 'self.bit_stream.read']
        if not reads:
            continue
        for h in t.handlers:
            if h.type is None:
                continue
            htxt = norm(h.type)
            raises = [r for s in h.body for r in ast.walk(s) if isinstance(r, ast.Raise)]
            if raises and all(is_lib_error(repo, exception_class_of_raise(repo, wrapper, r)) for r in raises):
                # the handler type must be bitstring's root error
                if htxt in ('self.bitstring_Error', 'bitstring.Error'):
                    ok = True
                    if htxt == 'self.bitstring_Error':
                        init = repo.own_method('BitStringBitReader', '__init__')
                        src = [norm(n.value) for n in ast.walk(init.node) if isinstance(n, ast.Assign)
                               and norm(n.targets[0]) == 'self.bitstring_Error']
                        if src != ['bitstring.Error']:
                            ok = False
    rr.instance('BitStringBitReader._bit_stream_read wraps bit_stream.read')
    if not ok:
        rr.fail('BitStringBitReader._bit_stream_read:wrap', wrapper.where,
                '_bit_stream_read does not convert bitstring.Error (the root of ReadError) into a PyBufrKitError subclass')
    for name, fi in sorted(cls.methods.items()):
        for n in ast.walk(fi.node):
            if isinstance(n, ast.Attribute) and norm(n.value) == 'self.bit_stream':
                rr.instance('%s uses self.bit_stream.%s' % (fi.qualname, n.attr))
                if n.attr == 'pos' and isinstance(n.ctx, ast.Load):
                    continue
                if n.attr == 'read' and fi is wrapper:
                    continue
                rr.fail('%s:bit_stream.%s' % (fi.qualname, n.attr), '%s:%d' % (fi.module.relpath, n.lineno),
                        '%s touches the bit stream through .%s outside the error-converting wrapper: a read past '
                        'the end would surface as a bitstring error, not BitReadError' % (fi.qualname, n.attr))
        # every read_* method goes through the wrapper or another read_* method
        if name.startswith('read_'):
            calls = [norm(c.func) for c in effects(fi).calls]
            if not any(c == 'self._bit_stream_read' or c.startswith('self.read_') for c in calls):
                rr.fail('%s:no-wrapper' % fi.qualname, fi.where, '%s does not read through _bit_stream_read' % fi.qualname)
    rr.require_floor(3)
    return rr


def _advances(stmts, var):
    """True when every path through stmts either raises or performs `var += ...` / `var = ...`."""
    for s in stmts:
        if isinstance(s, ast.AugAssign) and isinstance(s.target, ast.Name) and s.target.id == var and isinstance(s.op, ast.Add):
            return True
        if isinstance(s, ast.Raise):
            return True
        if isinstance(s, ast.Return):
            return True
        if isinstance(s, ast.If):
            if _advances(s.body, var) and _advances(s.orelse, var):
                return True
        if isinstance(s, ast.Try):
            if _advances(s.body, var) and all(_advances(h.body, var) for h in s.handlers):
                return True
    return False


def rule_r3(repo):
    rr = RuleResult('C12.R3', 'the stream scanner and the CLI catch the root library error; the scanner always advances')
    gen = repo.func('decoder', 'generate_bufr_message')
    loops = [n for n in gen.node.body if isinstance(n, ast.While)]
    if len(loops) != 1:
        raise AnalysisError('generate_bufr_message: expected one top-level while loop')
    loop = loops[0]
    tries = [s for s in loop.body if isinstance(s, ast.Try)]
    if len(tries) != 1:
        raise AnalysisError('generate_bufr_message: expected one try statement in the scan loop')
    t = tries[0]
    # the scan variable
    var = None
    if isinstance(loop.test, ast.Compare) and isinstance(loop.test.left, ast.Name):
        var = loop.test.left.id
    if var is None:
        raise AnalysisError('generate_bufr_message: cannot identify the scan position variable')
    # decoder.process calls must be inside the try body
    for c in ast.walk(loop):
        if isinstance(c, ast.Call) and norm(c.func) == 'decoder.process':
            inside = any(c is x for s in t.body for x in ast.walk(s)) or any(c is x for h in t.handlers for s in h.body for x in ast.walk(s))
            rr.instance('decoder.process call at line offset %d inside try' % (c.lineno - gen.node.lineno))
            if not inside:
                rr.fail('generate_bufr_message:process-outside-try', '%s:%d' % (gen.module.relpath, c.lineno),
                        'decoder.process is called outside the try block of the scan loop')
    roots = []
    for h in t.handlers:
        ts = h.type.elts if isinstance(h.type, ast.Tuple) else ([h.type] if h.type is not None else [])
        names = [norm(x) for x in ts]
        rr.instance('handler: except %s' % ', '.join(names))
        if h.type is None or any(n in (ROOT, 'Exception', 'BaseException') for n in names):
            roots.append(h)
    if not roots:
        rr.fail('generate_bufr_message:handler-type', '%s:%d' % (gen.module.relpath, t.lineno),
                'no handler of the scan loop catches the root library error %s: a subclass-only handler lets other '
                'library errors abort the stream' % ROOT)
    for h in roots:
        # re-raise when not continuing
        first = h.body[0] if h.body else None
        ok = isinstance(first, ast.If) and 'continue_on_error' in norm(first.test) and \
            any(isinstance(x, ast.Raise) for x in first.body) and norm(first.test).startswith('not ')
        rr.instance('handler re-raises unless continue_on_error')
        if not ok:
            rr.fail('generate_bufr_message:reraise', '%s:%d' % (gen.module.relpath, h.lineno),
                    'the handler does not begin with `if not continue_on_error: raise`: errors are swallowed when '
                    'the caller did not ask to continue')
        rest = h.body[1:] if ok else h.body
        rr.instance('handler advances %s on every path' % var)
        if not _advances(rest, var):
            rr.fail('generate_bufr_message:advance', '%s:%d' % (gen.module.relpath, h.lineno),
                    'a path through the error handler does not advance %s: the damaged message is retried forever '
                    'or following messages are lost' % var)
        # nested recovery decode must itself be guarded by the root error
        for n in ast.walk(h):
            if isinstance(n, ast.Try) and n is not t:
                names = [norm(x.type) for x in n.handlers if x.type is not None]
                rr.instance('nested recovery try: except %s' % ', '.join(names))
                if not any(x in (ROOT, 'Exception') for x in names) and not any(x.type is None for x in n.handlers):
                    rr.fail('generate_bufr_message:nested-handler', '%s:%d' % (gen.module.relpath, n.lineno),
                            'the metadata-only recovery decode in the handler is not guarded by %s' % ROOT)
    # CLI
    main = repo.func('__init__', 'main')
    cli_ok = False
    for n in ast.walk(main.node):
        if isinstance(n, ast.Try):
            if any('command_decode' in norm(s) for s in n.body for s in [s]):
                for h in n.handlers:
                    ts = h.type.elts if isinstance(h.type, ast.Tuple) else ([h.type] if h.type is not None else [])
                    if any(norm(x) == ROOT for x in ts):
                        # handler must not re-raise
                        if not any(isinstance(x, ast.Raise) for s in h.body for x in ast.walk(s)):
                            cli_ok = True
    rr.instance('main(): except %s around the command dispatch' % ROOT)
    if not cli_ok:
        rr.fail('main:handler', main.where, 'main() does not catch %s around the command dispatch: the CLI would print a traceback' % ROOT)
    rr.require_floor(6)
    return rr


def rule_r4(repo):
    rr = RuleResult('C12.R4', 'the expected-value validation is executed for every section parameter unless disabled')
    fi = repo.own_method('Decoder', 'process_section')
    loops = [n for n in fi.node.body if isinstance(n, ast.For) and norm(n.iter) == 'section']
    if len(loops) != 1:
        raise AnalysisError('Decoder.process_section: expected one `for parameter in section` loop')
    loop = loops[0]
    pv = loop.target.id
    found = False
    for i, s in enumerate(loop.body):
        if isinstance(s, ast.If) and ('%s.expected' % pv) in norm(s.test):
            raises = [r for x in s.body for r in ast.walk(x) if isinstance(r, ast.Raise)]
            asserts = [r for x in s.body for r in ast.walk(x) if isinstance(r, ast.Assert)]
            txt = norm(s.test)
            compares = ('%s.value != %s.expected' % (pv, pv)) in txt or ('%s.expected != %s.value' % (pv, pv)) in txt
            if raises and compares and all(is_lib_error(repo, exception_class_of_raise(repo, fi, r)) for r in raises):
                found = True
            elif raises and not compares:
                # `if expected is not None: if value != expected: raise`
                inner = [x for x in s.body if isinstance(x, ast.If)]
                if any(('%s.value != %s.expected' % (pv, pv)) in norm(x.test) for x in inner):
                    found = True
            elif asserts:
                found = False
            # no `continue` before the validation
            for j in range(i):
                if any(isinstance(x, ast.Continue) for x in ast.walk(loop.body[j])):
                    rr.fail('Decoder.process_section:continue-before-check', '%s:%d' % (fi.module.relpath, loop.body[j].lineno),
                            'a `continue` before the expected-value validation lets some parameters skip it')
    rr.instance('Decoder.process_section validates parameter.expected at top level of the parameter loop')
    if not found:
        rr.fail('Decoder.process_section:expected-check', fi.where,
                'no top-level statement of the parameter loop raises a library error when parameter.value differs from '
                'parameter.expected: a damaged start/stop signature would go unnoticed (or surface as a non-library error)')
    # the switch that disables it
    proc = repo.own_method('Decoder', 'process')
    guarded = False
    for n in ast.walk(proc.node):
        if isinstance(n, ast.If) and norm(n.test) == 'ignore_value_expectation':
            if any('ignore_value_expectation' in norm(x) and 'section_configurer' in norm(x) for x in n.body):
                guarded = True
    unguarded = [n for n in ast.walk(proc.node) if isinstance(n, ast.Attribute) and n.attr == 'ignore_value_expectation']
    rr.instance('Decoder.process adds the ignore_value_expectation transformer only on request')
    if not guarded or len(unguarded) != 1:
        rr.fail('Decoder.process:ignore-switch', proc.where,
                'the configuration transformer that removes expectations is not guarded by `if ignore_value_expectation:`')
    # layouts: start and stop signatures carry expectations
    s0 = repo.layout(0, None)
    s5 = repo.layout(5, None)
    exp0 = [p.get('expected') for p in s0['parameters'] if p['name'] == 'start_signature']
    exp5 = [p.get('expected') for p in s5['parameters'] if p['name'] == 'stop_signature']
    rr.instance('layout: start_signature expected %r, stop_signature expected %r' % (exp0, exp5))
    if exp0 != ['BUFR'] or exp5 != ['7777']:
        rr.fail('layouts:signatures', s5['__file__'], 'start/stop signature expectations are %r / %r' % (exp0, exp5))
    rr.require_floor(3)
    return rr


def run(repo, check):
    check.run_rule(rule_r1, repo)
    check.run_rule(rule_r2, repo)
    check.run_rule(rule_r3, repo)
    check.run_rule(rule_r4, repo)
    from sa.rules import c11
    r5 = c11.rule_r1(repo)
    r5.rule = 'C12.R5'
    r5.title = 'skip-and-continue: the scanner folded over a scripted stream with damaged messages (shared with C11.R1)'
    for f in r5.findings:
        f.rule = 'C12.R5'
    check.add(r5)
    from sa.rules import c08
    r6 = c08.rule_r5(repo)
    r6.rule = 'C12.R6'
    r6.title = 'a damaged descriptor list never hits the compiled template of an intact sibling: complete cache key (shared with C08.R5)'
    for f in r6.findings:
        f.rule = 'C12.R6'
    check.add(r6)
    check.assumptions = ['implicit exceptions (IndexError, KeyError, ...) are outside the claim; only explicit raise/assert sites are decided',
                         'bitstring raises a subclass of bitstring.Error on a read past the end']
