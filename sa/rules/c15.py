"""
C15  The path-expression parser accepts exactly the documented grammar.

The transition relation of NodePathParser is *extracted from its syntax tree* by PathEval (one
evaluation of the loop body per parser state x character class), and explored in product with a
reference recogniser (DESIGN appendix A.1).  Level: model checking of the extracted model.

R1 L(parser) == L(reference); only PathExprParsingError escapes; no component is dropped
R2 create_slice_object yields the Python-style slice the grammar dictates (folded)
R3 printing: the tokens slice_to_str / __str__ emit are tokens the parser accepts; fold of print -> parse
"""
from __future__ import print_function

import ast
import collections
import string

from sa.model import AnalysisError, norm
from sa.patheval import Interp, Native, Obj, Sym, Top, Tok, Raise, freeze, Frame
from sa.report import RuleResult

ERR = 'PathExprParsingError'


class PStr(Native):
    """The (stripped) input of which only the first character matters to the prologue."""

    def __init__(self, first):
        self.first = first

    def __repr__(self):
        return 'PStr(%r)' % self.first

    def call_method(self, name, args, kwargs, interp, frame, node):
        if name == 'strip':
            return self
        if name == 'find':
            return Top('int')
        return Top('call:' + name)


class ParserInterp(Interp):
    LIST_CAP = 6

    def cmp(self, op, l, r, frame=None):
        if isinstance(l, PStr) and isinstance(r, str) and r == '' and isinstance(op, (ast.Eq, ast.NotEq)):
            v = l.first is None
            return v if isinstance(op, ast.Eq) else not v
        return Interp.cmp(self, op, l, r, frame)

    def on_subscript(self, base, idx, node, frame):
        if isinstance(base, PStr):
            if base.first is None:
                raise Raise('IndexError', node, self.where(node, frame))
            return base.first
        return self.NOT_HANDLED

    def on_call(self, text, callee, args, kwargs, node, frame):
        if text == 'self.node_path.add_component':
            self.event('component', args[0] if args else None)
            return None
        return self.NOT_HANDLED

    def on_store_attr(self, base, attr, value, node, frame):
        if isinstance(base, Obj) and base.cls == 'NodePath' and attr == 'subset_slice':
            self.event('subset_slice', value)
        return False

    def builtin(self, name, args, kwargs, node, frame):
        if name == 'len' and args and isinstance(args[0], PStr):
            return Top('int')
        return Interp.builtin(self, name, args, kwargs, node, frame)


KEEP = ('current_state', 'current_token', 'current_slice_elements', 'bare_id_matches_all')


def abstract_elems(lst):
    out = []
    for x in lst:
        out.append('N' if x is None else 'I')
    return tuple(out)


def state_key(o):
    f = o.fields
    tok = f.get('current_token')
    if tok == '' or tok is None:
        tok = 'E'
    elif isinstance(tok, Tok):
        tok = tok.c
    else:
        raise AnalysisError('parser token is %r, outside the abstract token domain' % (tok,))
    els = f.get('current_slice_elements')
    if not isinstance(els, list):
        raise AnalysisError('current_slice_elements is %r' % (els,))
    return (f.get('current_state'), tok, abstract_elems(els), f.get('bare_id_matches_all'))


def state_obj(key):
    st, tok, els, bare = key
    return Obj('NodePathParser', {
        'current_state': st, 'current_token': Tok(tok), 'bare_id_matches_all': bare,
        'current_slice_elements': [None if e == 'N' else Top('int') for e in els],
        'pos': Top('int'), 'current_id': Top('id'), 'current_separator': Top('sep'),
        'node_path': Obj('NodePath', {'subset_slice': Top('slice'), 'components': [], 'path_string': Top('str')}),
    })


class Model(object):
    """Driver idiom located structurally; body / prologue / epilogue extracted."""

    def __init__(self, repo):
        self.repo = repo
        self.fi = repo.own_method('NodePathParser', 'parse')
        body = self.fi.node.body
        loops = [s for s in body if isinstance(s, (ast.While, ast.For))]
        if len(loops) != 1:
            raise AnalysisError('NodePathParser.parse: expected exactly one top-level loop over the expression')
        loop = loops[0]
        i = body.index(loop)
        self.pre, self.post = body[:i], body[i + 1:]
        import re as _re
        self.for_form = isinstance(loop, ast.For)
        if self.for_form:
            # `for c in X:` / `for pos, c in enumerate(X):` - the loop itself guarantees that every character of X is visited once
            it_text, tgt = norm(loop.iter), loop.target
            m1 = _re.match(r'^enumerate\((\w+)\)$', it_text)
            if m1 and isinstance(tgt, ast.Tuple) and len(tgt.elts) == 2 and all(isinstance(e, ast.Name) for e in tgt.elts):
                self.bound_var = self.index_var = m1.group(1)
                self.pos_name, self.char_name = tgt.elts[0].id, tgt.elts[1].id
            elif _re.match(r'^\w+$', it_text) and isinstance(tgt, ast.Name):
                self.bound_var = self.index_var = it_text
                self.pos_name, self.char_name = None, tgt.id
            else:
                raise AnalysisError('NodePathParser.parse: the loop `for %s in %s` is not a walk over the characters of the expression' % (norm(tgt), it_text))
            if self.char_name != 'c':
                raise AnalysisError('NodePathParser.parse: the current character is called %r (the model binds `c`)' % self.char_name)
            if loop.orelse:
                raise AnalysisError('NodePathParser.parse: for/else in the driver loop')
            self.body = list(loop.body)
            for n in ast.walk(ast.Module(body=self.body, type_ignores=[])):
                if isinstance(n, ast.Break):
                    raise AnalysisError('NodePathParser.parse: the loop body uses break (the rest of the expression would not be scanned)')
                if isinstance(n, ast.Assign) and any(isinstance(t, ast.Attribute) and t.attr == 'pos' for t in n.targets):
                    if not (isinstance(n.value, ast.Name) and n.value.id == self.pos_name):
                        raise AnalysisError('NodePathParser.parse: the loop body moves the position itself')
                if isinstance(n, ast.AugAssign) and isinstance(n.target, ast.Attribute) and n.target.attr == 'pos':
                    raise AnalysisError('NodePathParser.parse: the loop body moves the position itself')
        else:
            mt = _re.match(r'^self\.pos < len\((\w+)\)$', norm(loop.test))
            mb = _re.match(r'^c = (\w+)\[self\.pos\]$', norm(loop.body[0])) if loop.body else None
            if not mt or not mb or norm(loop.body[-1]) != 'self.pos += 1':
                raise AnalysisError('NodePathParser.parse: the driver idiom `while self.pos < len(path_expr): c = path_expr[self.pos]; ...; self.pos += 1` '
                                    'is no longer recognisable')
            self.bound_var, self.index_var = mt.group(1), mb.group(1)
            self.pos_name = None
            self.body = loop.body[1:-1]
            for n in ast.walk(ast.Module(body=self.body, type_ignores=[])):
                if isinstance(n, (ast.Continue, ast.Break)):
                    raise AnalysisError('NodePathParser.parse: the loop body uses break/continue (the position increment could be skipped)')
                if isinstance(n, ast.Attribute) and n.attr == 'pos' and isinstance(n.ctx, ast.Store):
                    raise AnalysisError('NodePathParser.parse: the loop body moves the position itself')
        # the abstraction covers exactly these attributes of the parser object; a parser that keeps its progress anywhere else
        # (a renamed or additional attribute) is outside the model: fail closed instead of exploring with unknown values
        modelled = {'current_state', 'current_token', 'current_slice_elements', 'pos', 'current_id', 'current_separator', 'node_path', 'bare_id_matches_all'}
        from sa.model import effects as _eff
        written = set()
        for m in repo.cls('NodePathParser').methods.values():
            written |= _eff(m).written('self')
        if written - modelled:
            raise AnalysisError('NodePathParser keeps state in attribute(s) %s, which the token / state abstraction of the model does not cover' % sorted(written - modelled))
        self.it = ParserInterp(repo, 'NodePathParser')

    def char_sets(self):
        """Every character / character set the code compares the current character (or the first one) against."""
        sets = []
        mods = [ast.Module(body=self.body, type_ignores=[]), ast.Module(body=self.pre, type_ignores=[])]
        cls = self.repo.cls('NodePathParser')
        for m in cls.methods.values():
            mods.append(m.node)
        fr = Frame(self.fi, self.fi.module, 'NodePathParser', 0)
        from sa.patheval import Path
        self.it.path = Path([])
        for m in mods:
            for n in ast.walk(m):
                if isinstance(n, ast.Compare) and len(n.ops) == 1 and isinstance(n.left, (ast.Name, ast.Subscript)) and \
                        norm(n.left) in ('c', 'path_expr_stripped[0]'):
                    try:
                        v = self.it.ev(n.comparators[0], fr)
                    except Exception:
                        continue
                    if isinstance(v, str):
                        sets.append(frozenset(v) if isinstance(n.ops[0], (ast.In, ast.NotIn)) else frozenset([v]))
                    elif isinstance(v, (tuple, list)) and all(isinstance(x, str) for x in v):
                        sets.append(frozenset(''.join(v)))
        return sets

    def prologue(self, first, bare):
        def mk():
            # a parser object that has been used before: every piece of per-parse state holds stale values
            return {'self': Obj('NodePathParser', {'bare_id_matches_all': bare, 'pos': 5, 'current_state': ']', 'current_token': Tok('X'),
                                                   'current_id': 'STALE', 'current_separator': '.',
                                                   'current_slice_elements': [Top('int'), Top('int'), Top('int')],
                                                   'node_path': Obj('NodePath', {'subset_slice': 'STALE', 'components': ['STALE'], 'path_string': 'STALE'})}),
                    'path_expr': PStr(first)}

        def frame():
            f = Frame(self.fi, self.fi.module, 'NodePathParser', 0)
            f.locals.update(mk())
            return f
        return self.it.run_paths(self.pre, frame, 'parse:prologue')

    def step(self, key, ch):
        def frame():
            f = Frame(self.fi, self.fi.module, 'NodePathParser', 0)
            f.locals.update({'self': state_obj(key), 'c': ch, 'path_expr': Top('input')})
            if getattr(self, 'pos_name', None):
                f.locals[self.pos_name] = Top('int')
            return f
        res = self.it.run_paths(self.body, frame, 'parse:body')
        for r in res:
            if r.outcome == 'continue' and getattr(self, 'for_form', False):
                r.outcome = 'fallthrough'       # `continue` in a for loop over the characters: on to the next character
        return res

    def finish(self, key):
        def frame():
            f = Frame(self.fi, self.fi.module, 'NodePathParser', 0)
            f.locals.update({'self': state_obj(key), 'path_expr': Top('input')})
            return f
        return self.it.run_paths(self.post, frame, 'parse:epilogue')


# ---------------------------------------------------------------------------
# reference recogniser (DESIGN appendix A.1), a function of characters
# ---------------------------------------------------------------------------
def kind(ch):
    if ch in string.whitespace:
        return 'ws'
    if ch in '@[]:/.>':
        return ch
    if ch == '-':
        return '-'
    if ch.isdigit():
        return 'digit'
    if 'A' <= ch <= 'Z':
        return 'upper'
    return 'other'


def tokstep(t, k):
    if k == 'digit':
        return {'E': 'D', 'M': 'D', 'D': 'D', 'X': 'X'}[t]
    if k == '-':
        return {'E': 'M', 'M': 'X', 'D': 'X', 'X': 'X'}[t]
    return 'X'


IDCH = ('digit', 'upper', 'other', '-')
DEAD = ('dead',)


def ref_step(r, k):
    if k == 'ws' or r == DEAD:
        return r
    n = r[0]
    if n == 'R0':
        if k == '@':
            return ('AT',)
        if k in ('/', '>'):
            return ('ID0',)
        if k in ('digit', 'upper'):
            return ('ID',)
        return DEAD
    if n == 'AT':
        return ('SL', 'sub', 0, 'E') if k == '[' else DEAD
    if n == 'SL':
        _, knd, nc, t = r
        if k in IDCH:
            return ('SL', knd, nc, tokstep(t, k))
        if k == ':':
            if t in ('E', 'D') and nc < 2:
                return ('SL', knd, nc + 1, 'E')
            return DEAD
        if k == ']':
            if t == 'D' or (t == 'E' and nc >= 1):
                return ('ASS',) if knd == 'sub' else ('AS',)
            return DEAD
        return DEAD
    if n == 'ASS':
        return ('ID0',) if k in ('/', '>') else DEAD
    if n == 'ID0':
        return ('ID',) if k in IDCH else DEAD
    if n == 'ID':
        if k in IDCH:
            return r
        if k == '[':
            return ('SL', 'comp', 0, 'E')
        if k in ('/', '>', '.'):
            return ('ID0',)
        return DEAD
    if n == 'AS':
        return ('ID0',) if k in ('/', '>', '.') else DEAD
    raise AnalysisError('reference automaton: unknown state %r' % (r,))


def ref_accept(r):
    return r[0] in ('ID', 'AS')


def ref_newcomp(r0, r1):
    return r1[0] == 'ID' and r0[0] in ('ID0', 'R0')


def ref_can_accept(r, kinds, memo={}):
    if r in memo:
        return memo[r]
    seen, stack = set(), [r]
    ok = False
    while stack:
        x = stack.pop()
        if x in seen:
            continue
        seen.add(x)
        if x != DEAD and ref_accept(x):
            ok = True
            break
        for k in kinds:
            stack.append(ref_step(x, k))
    memo[r] = ok
    return ok


def partition(sets, universe):
    blocks = collections.OrderedDict()
    for ch in universe:
        sig = tuple(ch in s for s in sets) + (ch.isdigit(), ch == '-')
        blocks.setdefault(sig, []).append(ch)
    out = []
    for sig, chars in blocks.items():
        # the reference must not distinguish characters the code cannot distinguish -- split if it does
        by_kind = collections.OrderedDict()
        for ch in chars:
            by_kind.setdefault(kind(ch), []).append(ch)
        for k, cs in by_kind.items():
            out.append((cs[0], k, cs))
    return out


def explore(repo, rr, per_char=False, bare=True):
    m = Model(repo)
    sets = m.char_sets()
    if len(sets) < 5:
        raise AnalysisError('only %d character comparisons found in the parser' % len(sets))
    universe = [c for c in string.printable] + ['\xe9']
    if per_char:
        classes = [(c, kind(c), [c]) for c in universe]
    else:
        classes = partition(sets, universe)
    kinds = sorted(set(k for _, k, _ in classes))
    findings = {}

    def report(key, where, msg, witness):
        if key not in findings:
            findings[key] = (where, msg, witness)

    def word(hist):
        return ''.join(hist)

    queue = collections.deque()
    seen = {}
    ntrans = 0
    if m.bound_var != m.index_var:
        report('driver:bound-mismatch', m.fi.where, 'the scan loop reads %s[self.pos] but stops at len(%s): with leading blanks the last characters of the '
               'expression are never scanned' % (m.index_var, m.bound_var), ' /001001')

    def check_subset_default(res, r, r1, word_):
        for e in res.events:
            if e[0] == 'subset_slice' and r[0] == 'R0':
                v = e[1]
                d = ('slice', None, None, None) if bare else 0
                got = ('slice', v.fields['start'], v.fields['stop'], v.fields['step']) if isinstance(v, Obj) and v.cls == 'slice' else v
                if got != d:
                    report('subset-default', m.fi.where, 'a path without subset selector gets subset slice %r instead of the default %r: state of an earlier '
                           'parse leaks into this one (reset() no longer re-initialises it)' % (got, d), word_)
    # prologue: first non-blank character
    for rep, k, chars in classes:
        if k == 'ws':
            continue
        for res in m.prologue(rep, bare):
            ntrans += 1
            r1 = ref_step(('R0',), k)
            if res.outcome == 'raise':
                if res.exc.cls != ERR:
                    report('prologue:%s:raises %s' % (k, res.exc.cls), m.fi.where, 'first character %r: the prologue raises %s, not %s' % (rep, res.exc.cls, ERR), rep)
                elif ref_can_accept(r1, kinds):
                    report('prologue:%s:rejects' % k, m.fi.where, 'a path starting with %r is rejected outright although the grammar allows it' % rep, rep)
                continue
            key = state_key(res.locals['self'])
            queue.append((key, ('R0',), 0, (), rep))
    for res in m.prologue(None, bare):
        if res.outcome != 'raise' or res.exc.cls != ERR:
            report('prologue:empty', m.fi.where, 'an empty / blank expression gives %s instead of %s' % (res.describe(), ERR), '')
    nstates = 0
    while queue:
        key, r, d, hist, pending = queue.popleft()
        pk = (key, r, d, pending)
        if pk in seen:
            continue
        seen[pk] = hist
        nstates += 1
        if nstates > 60000:
            raise AnalysisError('product exploration exceeds 60000 states: the extracted model is not finite-state under the abstraction')
        if pending is None:
            for res in m.finish(key):
                ntrans += 1
                acc = res.outcome != 'raise'
                if not acc and res.exc.cls != ERR:
                    report('eof:%s:raises %s' % (key[0], res.exc.cls), m.fi.where,
                           'at end of input in state %r the parser raises %s instead of %s' % (key[0], res.exc.cls, ERR), word(hist))
                    continue
                ncomp = len([e for e in res.events if e[0] == 'component'])
                if acc != ref_accept(r):
                    report('parse@eof:state=%r:%s' % (key[0], 'accepts' if acc else 'rejects'), m.fi.where,
                           'end of input in parser state %r (token %s, slice elements %s): the parser %s, the grammar %s' % (
                               key[0], key[1], list(key[2]), 'returns normally' if acc else 'rejects', 'accepts' if ref_accept(r) else 'rejects'), word(hist))
                elif acc and d - ncomp != 0:
                    report('parse@eof:state=%r:components' % key[0], m.fi.where,
                           'accepted, but the parser produced %d component(s) %s than the grammar recognises' % (abs(d - ncomp), 'fewer' if d - ncomp > 0 else 'more'), word(hist))
                if acc and not isinstance(res.value, Obj):
                    report('parse@eof:return', m.fi.where, 'parse returns %r, not the node path' % (res.value,), word(hist))
        for rep, k, chars in classes:
            if pending is not None and not (k == 'ws' or rep == pending):
                continue
            r1 = ref_step(r, k)
            for res in m.step(key, rep):
                ntrans += 1
                h1 = hist + (rep,) if len(hist) < 14 else hist
                if res.outcome == 'raise':
                    if res.exc.cls != ERR:
                        report('step:%s:%s:raises %s' % (key[0], k, res.exc.cls), m.fi.where,
                               'in state %r on %r the parser raises %s instead of %s' % (key[0], rep, res.exc.cls, ERR), word(h1))
                    elif ref_can_accept(r1, kinds):
                        report('step:%s:%s:rejects' % (key[0], k), m.fi.where,
                               'in state %r (token %s) on %r the parser rejects a prefix the grammar can complete' % (key[0], key[1], rep), word(h1))
                    continue
                if res.outcome != 'fallthrough':
                    report('step:%s:%s:%s' % (key[0], k, res.outcome), m.fi.where, 'the loop body leaves by %s' % res.outcome, word(h1))
                    continue
                ncomp = len([e for e in res.events if e[0] == 'component'])
                check_subset_default(res, r, r1, word(h1))
                k1 = state_key(res.locals['self'])
                d1 = d + (1 if ref_newcomp(r, r1) else 0) - ncomp
                if abs(d1) > 3:
                    report('step:%s:%s:component-drift' % (key[0], k), m.fi.where, 'components recognised and components produced drift apart', word(h1))
                    continue
                np_ = pending
                if pending is not None and rep == pending:
                    np_ = None
                if r1 == DEAD and not ref_can_accept(r1, kinds):
                    # the grammar is dead: the parser must never accept from here -- keep exploring with the dead state
                    pass
                queue.append((k1, r1, d1, h1, np_))
    return m, classes, nstates, ntrans, findings, seen


def rule_r1(repo, tier):
    rr = RuleResult('C15.R1', 'the language of NodePathParser equals the documented grammar; only PathExprParsingError escapes; no component is dropped')
    total_states = total_trans = 0
    samples = []
    configs = [(False, True)]
    if tier == 'thorough':
        configs = [(False, True), (False, False), (True, True)]
    for per_char, bare in configs:
        m, classes, nstates, ntrans, findings, seen = explore(repo, rr, per_char, bare)
        total_states += nstates
        total_trans += ntrans
        rr.instance('product exploration (%s alphabet of %d classes, bare_id_matches_all=%s): %d states, %d transitions' % (
            'per-character' if per_char else 'source-derived', len(classes), bare, nstates, ntrans))
        for key, (where, msg, witness) in sorted(findings.items()):
            rr.fail(key, where, msg, witness={'shortest_input': witness})
        if not samples:
            for (k, r, d, pend), hist in list(seen.items())[:400:40]:
                samples.append({'input_prefix': ''.join(hist), 'parser_state': list(k[:2]), 'reference_state': list(r)})
            for rep, k, chars in classes:
                rr.instance('character class %s: %r (%d characters)' % (k, rep, len(chars)))
    rr.extra = {'states': total_states, 'transitions': total_trans, 'samples': samples}
    rr.require_floor(10)
    return rr


# ---------------------------------------------------------------------------
def rule_r2(repo):
    rr = RuleResult('C15.R2', 'create_slice_object yields the Python-style slice the grammar dictates')
    fi = repo.own_method('NodePathParser', 'create_slice_object')
    it = ParserInterp(repo, 'NodePathParser')

    def want(els, bare):
        if len(els) == 0:
            return ('slice', None, None, None) if bare else 0
        if len(els) == 1:
            k = els[0]
            if k >= 0:
                return k
            return ('slice', k, k + 1 if k != -1 else None, None)
        if len(els) == 2:
            return ('slice', els[0], els[1], None)
        if len(els) == 3:
            return ('slice', els[0], els[1], els[2])
        return 'error'
    cases = [[]] + [[k] for k in (-3, -2, -1, 0, 1, 7)] + [[1, 2], [None, 2], [1, None], [None, None], [-2, None], [1, 2, 3], [None, None, 2],
                                                            [None, None, None], [5, None, -1], [1, 2, 3, 4]]
    for bare in (True, False):
        for els in cases:
            res = it.run_function(fi, lambda: {'self': Obj('NodePathParser', {'bare_id_matches_all': bare, 'current_slice_elements': list(els)})},
                                  self_class='NodePathParser')
            rr.instance('create_slice_object(%s, bare=%s)' % (els, bare))
            w = want(els, bare)
            for r in res:
                if w == 'error':
                    if r.ok or r.exc.cls != ERR:
                        rr.fail('create_slice_object:too-many', fi.where, 'slice elements %s give %s, expected %s' % (els, r.describe(), ERR))
                    continue
                if not r.ok:
                    rr.fail('create_slice_object:%d-elements' % len(els), fi.where, 'slice elements %s raise %s' % (els, r.exc.cls))
                    continue
                v = r.value
                got = ('slice', v.fields['start'], v.fields['stop'], v.fields['step']) if isinstance(v, Obj) and v.cls == 'slice' else v
                if got != w:
                    rr.fail('create_slice_object:%d-elements' % len(els), fi.where,
                            'slice elements %s (bare_id_matches_all=%s) give %r, the grammar dictates %r' % (els, bare, got, w), witness={'elements': els})
                after = r.locals['self'].fields.get('current_slice_elements')
                if after != []:
                    rr.fail('create_slice_object:reset', fi.where, 'the element list is not emptied for the next component (left: %r)' % (after,))
    rr.require_floor(30)
    return rr


class ConcreteParser(ParserInterp):
    """The whole parser on a concrete string (used only to fold print -> parse on printed paths)."""
    LIST_CAP = 50

    def on_while(self, node, frame):
        return self.unroll_while(node, frame, 200)

    def on_call(self, text, callee, args, kwargs, node, frame):
        return self.NOT_HANDLED

    def construct(self, cname, args, kwargs, node, frame):
        if cname == 'PathComponent':
            # namedtuple('PathComponent', ['separator', 'id', 'slice'])
            fields = self.repo.module('dataquery').const_nodes.get('_PathComponent')
            names = ['separator', 'id', 'slice']
            if isinstance(fields, ast.Call) and len(fields.args) == 2:
                try:
                    names = list(ast.literal_eval(fields.args[1]))
                except Exception:
                    pass
            vals = dict(zip(names, args))
            vals.update((k, v) for k, v in kwargs.items() if k in names)
            if len(vals) != len(names):
                raise AnalysisError('PathComponent(...) built with %d of its %d fields' % (len(vals), len(names)))
            return Obj('PathComponent', vals)
        return ParserInterp.construct(self, cname, args, kwargs, node, frame)


def rule_r3(repo, tier='quick'):
    rr = RuleResult('C15.R3', 'printing a parsed path and parsing the printout gives the same path (folded over slice shapes)')
    strm = repo.own_method('NodePath', '__str__')
    parse = repo.own_method('NodePathParser', 'parse')

    def skey(v):
        if isinstance(v, Obj) and v.cls == 'slice':
            return ('slice', v.fields['start'], v.fields['stop'], v.fields['step'])
        return v

    def pkey(p):
        return (skey(p.fields.get('subset_slice')),
                [(c.fields.get('separator'), c.fields.get('id'), skey(c.fields.get('slice'))) for c in p.fields.get('components', [])])

    def do_parse(text, bare):
        it = ConcreteParser(repo, 'NodePathParser')
        res = it.run_function(parse, lambda: {'self': Obj('NodePathParser', {'bare_id_matches_all': bare}), 'path_expr': text}, self_class='NodePathParser')
        if len(res) != 1:
            raise AnalysisError('parse(%r) forks into %d paths on a concrete string' % (text, len(res)))
        return res[0]
    subsets = ['', '@[0]', '@[1:]', '@[-1]', '@[::2]', '@[-3]', '@[1:5:2]', '@[:0]', '@[0:0]', '@[:]', '@[::]', '@[0:]', '@[::1]']
    slices = ['', '[0]', '[3]', '[::]', '[1:]', '[:2]', '[1:5:2]', '[-2]', '[-1]', '[::-1]', '[-3:-1]', '[:0]', '[0:]', '[0:0]', '[2:0:-1]', '[0::1]', '[1:2]', '[-1:0]', '[0:1]', '[-2:-1]']
    n = 0
    combos = []
    for bare in (True, False):
        for sub in subsets:
            for sl in slices:
                for sep2 in ('/', '.', '>'):
                    combos.append((bare, sub, sl, sep2))
    if tier != 'thorough':
        # every (subset selector, slice) pair once, separators and the bare-id setting rotating
        combos = [c for i, c in enumerate(sorted(combos, key=lambda c: (c[1], c[2], c[3], c[0]))) if i % 6 == (i // 6) % 6]
    for bare, sub, sl, sep2 in combos:
        for _once in (0,):
            for _once2 in (0,):
                for _once3 in (0,):
                    # the leading separator rotates over the three written ones and the implied '>' (wave 9, C15-23)
                    sep1 = ('/', '>', '' if sub == '' else '>')[n % 3]   # a leading '.' is not grammatical: an attribute needs its element; the implied '>' only without a subset selector (as the reference recogniser of R4)
                    text = '%s%s301001%s%sA12101%s' % (sub, sep1, slices[(n // 3) % len(slices)], sep2, sl)
                    r1 = do_parse(text, bare)
                    n += 1
                    if not r1.ok:
                        rr.fail('print-parse:source-rejected', parse.where, 'grammatical path %r is rejected (%s)' % (text, r1.describe()), witness={'source': text})
                        continue
                    p1 = r1.value
                    it = ConcreteParser(repo, 'NodePath')
                    res = it.run_function(strm, lambda: {'self': p1}, self_class='NodePath')
                    if len(res) != 1 or not res[0].ok or not isinstance(res[0].value, str):
                        raise AnalysisError('NodePath.__str__ could not be folded: %s' % [r.describe() for r in res])
                    printed = res[0].value
                    r2 = do_parse(printed, bare)
                    if not r2.ok:
                        rr.fail('print-parse:rejected', strm.where, 'path %r prints as %r, which the parser rejects (%s)' % (text, printed, r2.describe()),
                                witness={'source': text, 'printed': printed})
                        continue
                    if pkey(r2.value) != pkey(p1):
                        rr.fail('print-parse:differs', strm.where, 'path %r parses to %r, prints as %r and parses back as %r' % (
                            text, pkey(p1), printed, pkey(r2.value)), witness={'source': text, 'printed': printed})
    rr.instance('%d grammatical paths: parse, print, parse again' % n)
    rr.extra = {'paths': n}
    rr.require_floor(1)
    return rr

def ref_parse(text, bare=True):
    """Reference parse of a path expression by the documented grammar (docs/internals.rst; appendix A.1 of DESIGN.md), with the
    Python-style slice semantics the library documents.  Returns ('ok', (subset, [(sep, id, slice)])) or ('error', reason)."""
    import re
    t = ''.join(ch for ch in text if ch not in string.whitespace)
    if not t:
        return ('error', 'empty')

    def slice_of(body, present):
        if not present:
            return slice(None, None, None) if bare else 0
        if body == '':
            return None
        parts = body.split(':')
        if len(parts) > 3:
            return None
        vals = []
        for x in parts:
            if x == '':
                vals.append(None)
            elif re.match(r'^-?[0-9]+$', x):
                vals.append(int(x))
            else:
                return None
        if len(parts) == 1:
            k = vals[0]
            if k is None:
                return None
            if k >= 0:
                return k
            return slice(k, k + 1 if k != -1 else None, None)
        return slice(*vals)
    pos = 0
    subset_present = False
    sub = slice(None, None, None)
    if t[0] == '@':
        m = re.match(r'^@\[([^\[\]]*)\]', t)
        if not m:
            return ('error', 'subset selector')
        sub = slice_of(m.group(1), True)
        if sub is None:
            return ('error', 'subset slice')
        pos = m.end()
        subset_present = True
        if pos >= len(t) or t[pos] not in '/>':
            return ('error', 'subset selector must be followed by / or >')
    elif not (t[0] in '/>' or t[0].isdigit() or t[0].isupper()):
        return ('error', 'first character')
    comps = []
    first = True
    while pos < len(t):
        if t[pos] in '/.>':
            sep = t[pos]
            pos += 1
        elif first and not subset_present:
            sep = '>'
        else:
            return ('error', 'separator expected')
        if first and sep == '.':
            return ('error', 'attribute step first')
        m = re.match(r'^([^@\[\]:/.>]+)(?:\[([^\[\]]*)\])?', t[pos:])
        if not m:
            return ('error', 'id expected')
        sl = slice_of(m.group(2) if m.group(2) is not None else '', m.group(2) is not None)
        if sl is None:
            return ('error', 'slice')
        comps.append((sep, m.group(1), sl))
        pos += m.end()
        first = False
    if not comps:
        return ('error', 'no component')
    return ('ok', (sub, comps))


def rule_r4(repo, tier='quick', depth=None):
    """The whole parser folded on concrete strings - grammatical ones and near misses - for both settings of bare_id_matches_all,
    against the reference parse: accepted exactly when grammatical, rejected with the path-parsing error and nothing else, and an
    accepted string yields the subset selector, the components and the slices the grammar dictates."""
    rr = RuleResult('C15.R4', 'whole parse of concrete strings against a reference parser: acceptance, error class, components and slices (both settings of bare_id_matches_all)')
    parse = repo.own_method('NodePathParser', 'parse')
    if depth is None:
        depth = 3 if tier == 'thorough' else 1

    def skey(v):
        if isinstance(v, Obj) and v.cls == 'slice':
            return ('slice', v.fields['start'], v.fields['stop'], v.fields['step'])
        if isinstance(v, slice):
            return ('slice', v.start, v.stop, v.step)
        return v
    subs = ['', '@[0]', '@[-1]', '@[1:3]', '@[::2]']
    comps = ['/001001', '/301011[0]', '/012101[-1]', '/012101[-2]', '/012101[1:2]', '/012101[-1:0]', '/012101[1:]', '/012101[:2]', '/012101[::2]', '/012101[::]',
             '.A12101', '.033007[0]', '>004001', '>004001[1]', '/101002[5:6]']
    good = []
    for sb in subs:
        for c1 in comps:
            if c1[0] == '.':
                continue
            good.append(sb + c1)
            for c2 in comps[::3] if tier != 'thorough' else comps:
                good.append(sb + c1 + c2)
    good += ['001001', '012101[1]', '301011/004001', ' / 301011 / 004001 [ 1 ] ', '@[ 0 ] / 001001', 'A12101', '/001001 . A01001', '301011>004001', '/001 001']
    bad = ['', ' ', '@', '@[', '@[1', '@[1]', '@[1]001001', '@[]/001001', '@[a]/001001', '/001001[', '/001001[1', '/001001[1 2', '@[1 0', '0[1 2', '/001001[1:', '/001001[]',
           '/001001[a]', '/001001[1:2:3:4]', '/001001]', '//001001', '/001001/', '/001001//004001', '.A01001', '/001001[1]2', '/001001[1][2]', '/001001[-]', '/001001[--1]',
           '/001001[1-]', '/001001@[1]', '[1]', ':', '/', '>', '/001001.', '/001001>', '@[1:2:3:4]/001001', '/001001[1:2:3:]', 'abc', '/001001[1::2:]']
    init = repo.method('NodePathParser', '__init__')

    _made = {}

    def fresh_parser(bare, used=None):
        import copy
        k = (bare, used)
        if k not in _made:
            _made[k] = _fresh_parser(bare, used)
        return copy.deepcopy(_made[k])

    def _fresh_parser(bare, used=None):
        """The parser object as its constructor leaves it (every attribute it has is known: reading one that no statement has assigned
        yet is the AttributeError the running code would raise); `used`: strings it has parsed before, accepted or not."""
        it0 = ConcreteParser(repo, 'NodePathParser')
        loc = {'self': Obj('NodePathParser', {})}
        nd = len(init.defaults)
        for i, p_ in enumerate(init.params[1:], start=1):
            di = i - (len(init.params) - nd)
            loc[p_] = bare if p_ == 'bare_id_matches_all' else (ast.literal_eval(init.defaults[di]) if di >= 0 else None)
        res0 = it0.run_function(init, lambda: loc, self_class='NodePathParser')
        if len(res0) != 1 or not res0[0].ok:
            raise AnalysisError('NodePathParser.__init__ could not be folded: %s' % [r.describe() for r in res0])
        o = res0[0].locals['self']
        if 'bare_id_matches_all' not in o.fields:
            raise AnalysisError('NodePathParser.__init__ does not keep bare_id_matches_all under that name: the rule cannot set the option')
        o.fields['__exact__'] = True
        for text0 in used or ():
            ConcreteParser(repo, 'NodePathParser').run_function(parse, lambda: {'self': o, 'path_expr': text0}, self_class='NodePathParser')
        return o
    n = 0
    enumerated = 0
    if depth:
        import itertools
        alphabet = ['@', '[', ']', ':', '/', '.', '>', '1', 'A', '-', ' ']
        prefixes = ['', '@[1]', '/001001', '/001001[1', '/001001[1:', '@[-1', '/0', '/001001[1]', '@[1:2]/A01001[::', '>301011/004001']
        seen = set(good) | set(bad)
        extra = []
        for pre in prefixes:
            for k in range(0, depth + 1):
                for tail in itertools.product(alphabet, repeat=k):
                    t = pre + ''.join(tail)
                    if t not in seen:
                        seen.add(t)
                        extra.append(t)
        enumerated = len(extra)
    else:
        extra = []
    # every string on a parser that has never parsed anything; the hand-written ones also on a parser that has accepted one string and
    # refused two (one at its first character, one half way)
    runs = [(bare, text, None) for bare in (True, False) for text in good + bad + extra]
    runs += [(bare, text, ('@[1]/301011[2].A12101', '.x', '/001001[1:')) for bare in (True, False) for text in good + bad]
    for bare, text, used in runs:
        for _once in (0,):
            want = ref_parse(text, bare)
            it = ConcreteParser(repo, 'NodePathParser')
            pobj = fresh_parser(bare, used)
            res = it.run_function(parse, lambda: {'self': pobj, 'path_expr': text}, self_class='NodePathParser')
            if len(res) != 1:
                raise AnalysisError('parse(%r) forks into %d paths on a concrete string' % (text, len(res)))
            r = res[0]
            n += 1
            if used:
                text = text
            if want[0] == 'error':
                if r.ok:
                    rr.fail('whole-parse:accepts', parse.where, 'the string %r is not in the documented grammar (%s) and is accepted (bare_id_matches_all=%s)' % (text, want[1], bare),
                            witness={'input': text})
                elif r.exc.cls != 'PathExprParsingError':
                    rr.fail('whole-parse:error-class', parse.where, 'the ungrammatical string %r is refused with %s, not with the path-parsing error (bare_id_matches_all=%s, %s)' % (
                        text, r.exc.cls, bare, 'parser used before' if used else 'parser object that has not parsed anything yet'), witness={'input': text, 'used_before': bool(used)})
                continue
            if not r.ok:
                rr.fail('whole-parse:rejects', parse.where, 'the grammatical string %r is refused with %s (bare_id_matches_all=%s)' % (text, r.exc.cls, bare), witness={'input': text})
                continue
            p = r.value
            got_c = [(c.fields.get('separator'), c.fields.get('id'), skey(c.fields.get('slice'))) for c in p.fields.get('components', [])]
            want_c = [(sep, ident, skey(sl)) for sep, ident, sl in want[1][1]]
            if got_c != want_c:
                rr.fail('whole-parse:components', parse.where, 'the string %r parses to the components %s; the grammar dictates %s (bare_id_matches_all=%s)' % (text, got_c, want_c, bare),
                        witness={'input': text, 'bare_id_matches_all': bare})
            elif bare and skey(p.fields.get('subset_slice')) != skey(want[1][0]):
                rr.fail('whole-parse:subset', parse.where, 'the string %r selects the subsets %s; the grammar dictates %s' % (text, skey(p.fields.get('subset_slice')), skey(want[1][0])),
                        witness={'input': text})
    rr.instance('%d strings x 2 settings: %d grammatical, %d near misses' % ((len(good) + len(bad)), len(good), len(bad)))
    if depth:
        rr.instance('every continuation of up to %d characters (alphabet of 11 character classes) of 10 prefixes: %d more strings x 2 settings' % (depth, enumerated))
    rr.extra = {'strings': n}
    rr.require_floor(1)
    return rr


def run(repo, check):
    try:
        r1 = rule_r1(repo, check.tier)
    except AnalysisError as e:
        # the parser is written in a way the token / state abstraction does not cover (state kept elsewhere, another driver loop): the
        # language is then decided on the bounded family instead - every continuation of up to 2 (thorough: 3) characters of ten prefixes
        # that reach every state of the grammar, parsed by folding the code as it stands and compared with the reference parser
        r1 = rule_r4(repo, check.tier, depth=3 if check.tier == 'thorough' else 2)
        r1.rule = 'C15.R1'
        r1.title = 'the language of NodePathParser equals the documented grammar on every short continuation of ten prefixes (bounded: %s)' % e
        for f in r1.findings:
            f.rule = 'C15.R1'
        r1.extra = {'states': 0, 'transitions': r1.extra['strings'], 'samples': [{'note': 'bounded enumeration, no product automaton: ' + str(e)}]}
    check.add(r1)
    check.run_rule(rule_r2, repo)
    check.run_rule(rule_r3, repo, check.tier)
    check.run_rule(rule_r4, repo, check.tier)
    check.coverage_extra = {
        'states': r1.extra['states'], 'transitions': r1.extra['transitions'], 'traces_validated_against_impl': 0,
        'samples': r1.extra['samples'] or [{'note': 'no product state sampled'}],
        'model': 'transition relation of NodePathParser extracted from its syntax tree on this run (parser state x token class x slice-element '
                 'list x character class), explored in product with the reference recogniser of DESIGN appendix A.1',
    }
    check.assumptions = ['the reference recogniser restates docs/internals.rst plus the two conventions pinned by tests/test_NodePathParser.py '
                         '(first component may not use ".", a subset selector must be followed by "/" or ">")',
                         'the token abstraction {empty, "-", -?digits+, other} is exact for int() conversion and emptiness tests']
