"""
sa.report -- verdicts, known findings, replay files and evidence.
"""
from __future__ import print_function

import json
import os
import re
import time

VERIF = os.path.dirname(os.path.dirname(os.path.abspath(__file__)))
KNOWN_FILE = os.path.join(VERIF, 'known_findings.json')


class Finding(object):
    """One violated rule instance.  `key` is built from qualified names and
    normalised statement text, never from line numbers."""

    def __init__(self, rule, key, where, message, witness=None):
        self.rule, self.key, self.where, self.message, self.witness = rule, key, where, message, witness

    @property
    def ident(self):
        return '%s:%s' % (self.rule, self.key)

    def to_dict(self):
        return {'rule': self.rule, 'key': self.key, 'ident': self.ident, 'where': self.where,
                'message': self.message, 'witness': self.witness}


class RuleResult(object):
    """What one rule analysed: its instances (obligations) and findings."""

    def __init__(self, rule, title):
        self.rule, self.title = rule, title
        self.instances = []      # short strings, one per obligation checked
        self.findings = []
        self.notes = []
        self.floor = 0
        self.extra = {}

    def instance(self, text):
        self.instances.append(text)

    def fail(self, key, where, message, witness=None):
        self.findings.append(Finding(self.rule, key, where, message, witness))

    def note(self, text):
        self.notes.append(text)

    def require_floor(self, n):
        self.floor = n


def load_known():
    if not os.path.exists(KNOWN_FILE):
        return {'known': [], 'fixed': []}
    with open(KNOWN_FILE) as f:
        return json.load(f)


def safe_name(s):
    return re.sub(r'[^A-Za-z0-9_.=-]+', '_', s)[:150]


class Check(object):
    """Runs the rules of one property and produces verdict + evidence."""

    def __init__(self, prop, tier, level='other', seed=0):
        self.prop, self.tier, self.level, self.seed = prop, tier, level, seed
        self.results = []
        self.t0 = time.time()
        self.coverage_extra = {}
        self.assumptions = []

    def add(self, rr):
        if getattr(rr, 'placeholder', False):
            return rr           # (stands for a rule that could not be decided: the deferral has been recorded by call())
        self.results.append(rr)
        return rr

    def call(self, func, *args, **kwargs):
        """func(*args) -> RuleResult for callers that relabel / filter the result before adding it.  A rule that cannot be decided is
        deferred exactly as in run_rule; the caller gets an empty placeholder that add() ignores."""
        box = []

        def wrapped():
            r = func(*args, **kwargs)
            box.append(r)
            return RuleResult('?', 'placeholder')
        wrapped.__name__ = getattr(func, '__name__', 'rule')
        res = self.results
        self.results = []
        try:
            self.run_rule(wrapped)
        finally:
            self.results = res
        if box:
            return box[0]
        ph = RuleResult('?', 'rule that could not be decided')
        ph.placeholder = True
        return ph

    def run_rule(self, func, *args, **kwargs):
        """Run one rule; an AnalysisError (anchor vanished / unmodelled idiom) is deferred so that violations
        other rules positively established are still reported.  With no violation at all the deferred error
        makes the run fail as analysis-broken (exit 2), never a silent pass."""
        from sa.model import AnalysisError
        try:
            return self.add(func(*args, **kwargs))
        except AnalysisError as e:
            if not hasattr(self, 'deferred'):
                self.deferred = []
            self.deferred.append('%s: %s' % (getattr(func, '__name__', 'rule'), e))
            return None
        except (RecursionError, MemoryError):
            raise
        except Exception as e:
            # an internal error of one rule (the code under analysis has a shape the rule's own bookkeeping did not foresee) is an
            # analysis error of that rule, deferred like the others: never a verdict, and never hides what other rules established
            import traceback
            tb = traceback.extract_tb(e.__traceback__)
            last = tb[-1] if tb else None
            if not hasattr(self, 'deferred'):
                self.deferred = []
            self.deferred.append('%s: internal error %s: %s%s' % (getattr(func, '__name__', 'rule'), type(e).__name__, e,
                                                                   ' (%s:%d)' % (os.path.basename(last.filename), last.lineno) if last else ''))
            return None

    def finish(self, repo, replay_only=None):
        from sa.model import AnalysisError
        known = load_known()
        known_idents = dict((k['ident'], k) for k in known.get('known', []) if k.get('property') == self.prop)
        violations = []
        known_hit = []
        n_inst = 0
        for rr in self.results:
            n_inst += len(rr.instances)
            if len(rr.instances) < rr.floor and not rr.findings:
                # (a rule that positively found a violation is not vacuous: its finding is reported)
                raise AnalysisError('rule %s matched %d instances, fewer than the %d confirmed by hand: '
                                    'the rule would pass vacuously' % (rr.rule, len(rr.instances), rr.floor))
            seen_idents = {}
            for f in rr.findings:
                if f.ident in seen_idents:
                    # same construct, another witness: report the construct once
                    seen_idents[f.ident].more = getattr(seen_idents[f.ident], 'more', 0) + 1
                    continue
                seen_idents[f.ident] = f
                if f.ident in known_idents:
                    known_hit.append(f)
                else:
                    violations.append(f)
        out_lines = []
        for f in known_hit:
            out_lines.append('KNOWN-FINDING: property=%s %s -- %s [%s]' % (self.prop, f.ident, known_idents[f.ident].get('what', f.message), f.where))
        scratch = os.path.realpath(repo.root) != os.path.realpath(os.environ.get('VERIF_MAIN_REPO', '/repo'))
        rdir = os.path.join(VERIF, 'replay', '_scratch' if scratch else '', self.prop)
        for f in violations:
            if not os.path.isdir(rdir):
                os.makedirs(rdir)
            rp = os.path.join(rdir, safe_name(f.ident) + '.json')
            with open(rp, 'w') as fh:
                json.dump({'property': self.prop, 'finding': f.to_dict(), 'repo': repo.root}, fh, indent=1, default=repr)
            out_lines.append('%s: rule %s instance %s' % (f.where, f.rule, f.key))
            out_lines.append('    %s' % f.message)
            if getattr(f, 'more', 0):
                out_lines.append('    (+%d more witnesses of the same construct)' % f.more)
            if f.witness is not None:
                out_lines.append('    witness: %s' % json.dumps(f.witness, default=repr)[:600])
            out_lines.append('VIOLATION property=%s replay=%s' % (self.prop, rp))
        deferred = getattr(self, 'deferred', [])
        if deferred and not violations:
            raise AnalysisError('; '.join(deferred))
        for dmsg in deferred:
            out_lines.append('ANALYSIS-NOTE property=%s (rule could not be decided, reported because other rules found violations): %s' % (self.prop, dmsg))
        if not scratch:
            self.write_evidence(repo, n_inst, violations, known_hit)
        for l in out_lines:
            print(l)
        summary = '%s %s: %d rules, %d instances, %d violations, %d known findings, %.2fs' % (
            self.prop, self.tier, len(self.results), n_inst, len(violations), len(known_hit), time.time() - self.t0)
        print(summary)
        return 1 if violations else 0

    def write_evidence(self, repo, n_inst, violations, known_hit):
        rules = []
        samples = []
        for rr in self.results:
            rules.append({'rule': rr.rule, 'title': rr.title, 'instances': len(rr.instances), 'floor': rr.floor,
                          'violated': len(rr.findings), 'notes': rr.notes, 'extra': rr.extra})
            for s in rr.instances[:4]:
                samples.append({'rule': rr.rule, 'instance': s})
        cov = {
            'explanation': 'static analysis of the source tree at %s: %d modules parsed (no module imported or executed); '
                           '%d rules decided over %d rule instances (obligations); every instance is listed by the rule '
                           'that matched it and each rule fails closed below its instance floor' % (
                               repo.root, len(repo.modules), len(self.results), n_inst),
            'obligations': n_inst,
            'discharged': n_inst - sum(len(rr.findings) for rr in self.results),
            'evaluations': max(n_inst, 1),
            'distinct_nontrivial': max(len(set(s for rr in self.results for s in rr.instances)), 2 if n_inst >= 2 else 0),
            'rule': 'one evaluation per rule instance (a construct of the source that the rule matched); distinct by instance text',
            'samples': samples[:40],
            'rules': rules,
            'modules': repo.digests(),
            'known_findings_present': [f.ident for f in known_hit],
            'violations': [f.to_dict() for f in violations],
            'exhaustive': True,
        }
        cov.update(self.coverage_extra)
        ev = {
            'property_id': self.prop, 'tier': self.tier, 'seed': self.seed, 'level': self.level,
            'coverage': cov,
            'assumptions': self.assumptions or ['the ast module parses the tree as CPython would',
                                                'third-party bitstring behaves as documented'],
            'wall_s': round(time.time() - self.t0, 3),
            'violations': len(violations),
        }
        edir = os.path.join(VERIF, 'evidence')
        if not os.path.isdir(edir):
            os.makedirs(edir)
        with open(os.path.join(edir, self.prop + '.json'), 'w') as fh:
            json.dump(ev, fh, indent=1, default=repr, sort_keys=True)
