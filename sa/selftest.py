"""
Self-validation of the rules (thorough tier only; DESIGN 2.6).

MUTANTS: one instance of a rule broken -- the named check must report a VIOLATION.
TWINS:   behaviour-preserving rewrites -- the named checks must stay silent (exit 0).

Every entry is a textual edit applied to a scratch copy of /repo/pybufrkit (tempfile.mkdtemp, outside
/repo and /verif, removed as soon as it has been analysed).  Results are reported in the evidence as a
measure of checker strength; they never change a check's exit code, which is about /repo.
"""
from __future__ import print_function

import multiprocessing
import os
import shutil
import subprocess
import sys
import tempfile

HERE = os.path.dirname(os.path.abspath(__file__))

# (id, checks expected to fire, file, old, new)
MUTANTS = [
    ('C01-swap-add-div', ['C01'], 'decoder.py',
     "            if refval:\n                value += refval\n            if scale_powered != 1:\n                value /= scale_powered\n        state.decoded_values.append(value)",
     "            if scale_powered != 1:\n                value /= scale_powered\n            if refval:\n                value += refval\n        state.decoded_values.append(value)"),
    ('C01-missing-width0', ['C01', 'C19'], 'bitops.py', "if nbits > 1 and value", "if nbits > 0 and value"),
    ('C01-drop-nbits-offset', ['C01'], 'coder.py', "            nbits = (descriptor.nbits +\n                     state.nbits_offset +", "            nbits = (descriptor.nbits +"),
    ('C01-codeflag-uses-offset', ['C01'], 'coder.py', "self.process_codeflag(state, bit_operator, descriptor, descriptor.nbits)",
     "self.process_codeflag(state, bit_operator, descriptor, descriptor.nbits + state.nbits_offset)"),
    ('C01-201-writes-scale', ['C01'], 'coder.py', "            state.nbits_offset = (operand_value - 128) if operand_value else 0",
     "            state.scale_offset = (operand_value - 128) if operand_value else 0"),
    ('C01-207-floor', ['C01'], 'coder.py', "(10 * operand_value + 2) // 3", "(10 * operand_value) // 3"),
    ('C01-label', ['C01'], 'descriptors.py', "'A{:05d}'", "'A{:06d}'"),
    ('C01-203-255-clears', ['C01'], 'coder.py', "            if operand_value == 255:  # 255 is to conclude not cancel\n                state.nbits_of_new_refval = 0",
     "            if operand_value == 255:  # 255 is to conclude not cancel\n                state.nbits_of_new_refval = 0\n                state.new_refvals = {}"),
    ('C01-221-class-filter', ['C01'], 'coder.py', "if not (1 <= X <= 9 or X == 31):  # skipping\n                        continue",
     "if not (1 <= X <= 9):  # skipping\n                        continue"),
    ('C02-no-round', ['C02', 'C03'], 'encoder.py', "                value = int(round(value * scale_powered))\n            if refval:\n                value -= refval\n        else:\n            value = NUMERIC_MISSING_VALUES[nbits]",
     "                value = int(value * scale_powered)\n            if refval:\n                value -= refval\n        else:\n            value = NUMERIC_MISSING_VALUES[nbits]"),
    ('C02-xy-widths', ['C02'], 'encoder.py', "            bit_writer.write_uint(descriptor.X, 6)\n            bit_writer.write_uint(descriptor.Y, 8)",
     "            bit_writer.write_uint(descriptor.X, 8)\n            bit_writer.write_uint(descriptor.Y, 6)"),
    ('C03-mask', ['C03'], 'encoder.py', "            value = NUMERIC_MISSING_VALUES[nbits]\n        bit_writer.write_uint(value, nbits)\n\n    def process_numeric_compressed",
     "            value = NUMERIC_MISSING_VALUES[nbits]\n        value &= NUMERIC_MISSING_VALUES[nbits]\n        bit_writer.write_uint(value, nbits)\n\n    def process_numeric_compressed"),
    ('C03-utf8', ['C03'], 'utils.py', "return o.decode(encoding='latin-1')", "return o.decode(encoding='utf-8', errors='replace')"),
    ('C04-lt3', ['C04', 'C02'], 'encoder.py', "if bufr_message.edition.value <= 3:", "if bufr_message.edition.value < 3:"),
    ('C04-no-overrun-check', ['C04'], 'decoder.py', "            elif nbits_unread < 0:\n                raise PyBufrKitError('Read exceeds declared section {} length: {} by {} bits'.format(\n                    section.get_metadata('index'), section.section_length.value, -nbits_unread))\n", ""),
    ('C04-pad-ones', ['C04', 'C02'], 'encoder.py', "bit_writer.write_bin('0' * nbits_padding_for_octet)", "bit_writer.write_bin('1' * nbits_padding_for_octet)"),
    # ('C05-no-plus-one' was removed: nbits_for_uint already reserves the all-ones pattern, so dropping the '+ 1' still gives a sufficient width -
    #  the old symbolic rule that 'detected' it demanded one particular width, more than C02 / C05 state)
    ('C05-alias-uncompressed', ['C05', 'C06', 'C07', 'C09'], 'coder.py', "            self.bitmap_links_all_subsets = [{} for _ in range(n_subsets)]", "            self.bitmap_links_all_subsets = [{}] * n_subsets"),
    ('C06-drop-reset', ['C06', 'C07'], 'coder.py', "        self.new_refvals = {}\n        self.decoded_descriptors = self.decoded_descriptors_all_subsets[idx_subset]",
     "        self.decoded_descriptors = self.decoded_descriptors_all_subsets[idx_subset]"),
    ('C06-switch-after', ['C06'], 'decoder.py', "                state.switch_subset_context(idx_subset)\n                template_processing_func(state, bit_reader, template_to_process)",
     "                template_processing_func(state, bit_reader, template_to_process)\n                state.switch_subset_context(idx_subset)"),
    ('C07-isinstance', ['C07'], 'coder.py', "if type(descriptor) is ElementDescriptor:", "if isinstance(descriptor, ElementDescriptor):"),
    ('C07-bit-one', ['C07'], 'coder.py', "            ) if bit == 0\n", "            ) if bit == 1\n"),
    ('C07-225-width', ['C07'], 'coder.py', "nbits=bitmapped_descriptor.nbits + 1,", "nbits=bitmapped_descriptor.nbits,"),
    ('C08-drop-scale-offset', ['C08'], 'templatecompiler.py', "            'scale_offset': state.scale_offset,\n", ""),
    ('C08-no-add-bitmap-link', ['C08'], 'templatecompiler.py', "    def add_bitmap_link(self):\n        self.add_statement(StateMethodCall(get_func_name()))\n", ""),
    ('C08-key-without-tables', ['C08', 'C13'], 'templatecompiler.py', "            tuple(template.original_descriptor_ids),\n            table_group.key\n        )", "            tuple(template.original_descriptor_ids),\n        )"),
    ('C09-236-valueless', ['C09'], 'templatedata.py', "        elif operator_code == 236:\n            self.add_value_node()", "        elif operator_code == 236:\n            self.add_node(NoValueDataNode(descriptor))"),
    ('C09-col-73', ['C09'], 'renderer.py', "'{} {:74.74} {!r}'", "'{} {:73.73} {!r}'"),
    ('C10-no-min-check', ['C10'], 'bufr.py', "        if min(subset_indices) < 0:\n            raise PyBufrKitError('minimum subset index out of range')\n", ""),
    ('C10-mutates', ['C10'], 'bufr.py', "            data.append(section_data)\n        return data", "            data.append(section_data)\n        self.sections = self.sections[:]\n        self.n_subsets.value = len(set(subset_indices))\n        return data"),
    ('C11-yield-regardless', ['C11'], 'decoder.py', "            if matched:\n                yield bufr_message", "            yield bufr_message"),
    ('C12-except-subclass', ['C12', 'C11'], 'decoder.py', "        except PyBufrKitError as e:\n            if not continue_on_error:", "        except BitReadError as e:\n            if not continue_on_error:"),
    ('C12-assert', ['C12'], 'decoder.py', "        if idx == -1:\n            raise PyBufrKitError('Cannot find start signature: {}'.format(start_signature))", "        assert idx != -1, 'Cannot find start signature'"),
    ('C13-state-on-self', ['C13'], 'decoder.py', "        state = CoderState(bufr_message.is_compressed.value, bufr_message.n_subsets.value)\n", "        state = CoderState(bufr_message.is_compressed.value, bufr_message.n_subsets.value)\n        self.last_state = state\n"),
    ('C13-descriptor-mutated', ['C13'], 'coder.py', "        X = descriptor.X\n\n        # Read associated field if exists", "        X = descriptor.X\n        descriptor.nbits += 0\n\n        # Read associated field if exists"),
    ('C14-threshold', ['C14'], 'tables.py', "        if id_ >= 300000:\n            descriptors.append(d.lookup(id_))\n\n        elif id_ >= 200000:", "        if id_ > 300000:\n            descriptors.append(d.lookup(id_))\n\n        elif id_ >= 200000:"),
    ('C14-n-items', ['C14'], 'descriptors.py', "        return (self.id // 1000) % 100\n\n    @property\n    def n_members", "        return (self.id // 1000) % 10\n\n    @property\n    def n_members"),
    ('C15-accept-at-eof', ['C15'], 'dataquery.py', "        else:\n            raise PathExprParsingError('unexpected end of path expression')\n\n        return self.node_path", "        return self.node_path"),
    ('C15-dot-after-subset', ['C15'], 'dataquery.py', "            if c == PATH_SEPARATOR_ATTRIB:\n                raise unexpected_char_error(c, self.pos)\n            self.node_path.subset_slice", "            self.node_path.subset_slice"),
    ('C17-last-match', ['C17'], 'mdquery.py', "                if parameter.name == metadata_name:\n                    return parameter.value\n\n        return None",
     "                if parameter.name == metadata_name:\n                    found = parameter.value\n\n        return found"),
    ('C17-index-error', ['C17'], 'mdquery.py', "if not metadata_expr.startswith(METADATA_QUERY_INDICATOR_CHAR):", "if metadata_expr[0] != METADATA_QUERY_INDICATOR_CHAR:"),
    ('C18-hash-in-quotes', ['C18'], 'script.py', "        elif c == '#' and state == STATE_IDLE:", "        elif c == '#' and state != STATE_EMBEDDED_QUERY:"),
    ('C18-brace-not-skipped', ['C18'], 'script.py', "                # double/single quotes will be ignored\n                idx_char += 1", "                # double/single quotes will be ignored"),
    ('C19-read-int-width', ['C19'], 'bitops.py', "self.read_uint(nbits - 1)", "self.read_uint(nbits)"),
    ('C19-set-uint-24', ['C19'], 'bitops.py', "bins = bitstring.Bits(uintbe=value, length=nbits)", "bins = bitstring.Bits(uintbe=value, length=24)"),
    ('C20-swap-b-d', ['C20'], 'decoder.py', "TableGroupCacheManager.add_extra_entries(b_entries, d_entries)", "TableGroupCacheManager.add_extra_entries(d_entries, b_entries)"),
    # --- wave 2: rules added after the second round of seeded changes and the C12 defects
    ('C12-bool-unsized', ['C12', 'C19'], 'bitops.py', "self._bit_stream_read('uint:1') == 1", "self._bit_stream_read('bool')"),
    ('C12-factor-unguarded', ['C12'], 'coder.py', "        if not isinstance(descriptor, ElementDescriptor):\n            # e.g.", "        if descriptor is None:\n            # e.g."),
    ('C12-stopiteration', ['C12'], 'tables.py', "                except StopIteration:\n                    raise PyBufrKitError(", "                except KeyError:\n                    raise PyBufrKitError("),
    ('C06-shared-default-list', ['C06', 'C13'], 'coder.py', "        self.nbits_of_associated = []  # 204\n        self.nbits_of_skipped_local_descriptor = 0  # 206\n\n        self.bsr_modifier = BSRModifier(\n            nbits_increment=0, scale_increment=0, refval_factor=1\n        )  # 207\n\n        self.new_nbytes = 0  # 208\n\n        self.data_not_present_count = 0  # 221\n        self.status_qa_info_follows = QA_INFO_NA  # 222\n\n        self.bitmap = None",
     "        self.nbits_of_associated = NO_ASSOCIATED  # 204\n        self.nbits_of_skipped_local_descriptor = 0  # 206\n\n        self.bsr_modifier = BSRModifier(\n            nbits_increment=0, scale_increment=0, refval_factor=1\n        )  # 207\n\n        self.new_nbytes = 0  # 208\n\n        self.data_not_present_count = 0  # 221\n        self.status_qa_info_follows = QA_INFO_NA  # 222\n\n        self.bitmap = None"),
    ('C06-wire-skip-equal', ['C06'], 'templatedata.py', "            self.bitmap_links = self.bitmap_links_all_subsets[idx_subset]\n\n            # The index is used",
     "            self.bitmap_links = self.bitmap_links_all_subsets[idx_subset]\n            if idx_subset > 0 and self.decoded_descriptors == self.decoded_descriptors_all_subsets[idx_subset - 1]:\n                self.decoded_nodes_all_subsets[idx_subset] = self.decoded_nodes_all_subsets[idx_subset - 1]\n                continue\n\n            # The index is used"),
    ('C05-compressed-not-shared', ['C05'], 'coder.py', "            self.bitmap_links_all_subsets = [{}] * n_subsets", "            self.bitmap_links_all_subsets = [{} for _ in range(n_subsets)]"),
    ('C13-overrides-pop', ['C13'], 'bufr.py', "overrides.get(parameter.name, values[idx])", "overrides.pop(parameter.name, values[idx])"),
    ('C09-node-not-registered', ['C09', 'C07'], 'templatedata.py', "            node.add_attribute(assoc_node)\n            self.add_node(node)", "            node.add_attribute(assoc_node)\n            self.decoded_nodes.append(node)"),
    ('C09-221-elements-only', ['C09', 'C07'], 'templatedata.py', "            if self.data_not_present_count:\n                self.data_not_present_count -= 1\n                if isinstance(member, ElementDescriptor):\n                    X = member.X\n                    if not (1 <= X <= 9 or X == 31):  # skipping\n                        self.add_node(NoValueDataNode(member))\n                        continue",
     "            if self.data_not_present_count and isinstance(member, ElementDescriptor):\n                self.data_not_present_count -= 1\n                X = member.X\n                if not (1 <= X <= 9 or X == 31):  # skipping\n                    self.add_node(NoValueDataNode(member))\n                    continue"),
    ('C08-compiler-031011', ['C08'], 'templatecompiler.py', "        if descriptor.id in (31011, 31012):", "        if descriptor.factor.id in (31011, 31012):"),
    ('C15-print-drops-all-subsets', ['C15'], 'dataquery.py', "ret = '' if self.subset_slice is None else", "ret = '' if self.subset_slice in (None, slice(None)) else"),
    ('C16-zero-count-attribute', ['C16'], 'dataquery.py', "        path_component = path_components[0]\n\n        sub_nodes = []\n        if path_component.separator == PATH_SEPARATOR_CHILD:\n            sub_nodes += self.filter_for_child_sub_nodes(node, path_components)",
     "        path_component = path_components[0]\n        if isinstance(node, (FixedReplicationNode, DelayedReplicationNode)) and len(node.members) == 0:\n            return []\n\n        sub_nodes = []\n        if path_component.separator == PATH_SEPARATOR_CHILD:\n            sub_nodes += self.filter_for_child_sub_nodes(node, path_components)"),
    ('C19-dispatch-bytes-width', ['C19'], 'bitops.py', "        if data_type == 'bytes':\n            return func(value, nbits // NBITS_PER_BYTE)\n        elif data_type in ('bool', 'bin'):\n            return func(value)\n        else:\n            return func(value, nbits)",
     "        if data_type in ('bytes', 'bool', 'bin'):\n            return func(value)\n        else:\n            return func(value, nbits)"),
    ('C19-set-uint-mask', ['C19'], 'bitops.py', "    def set_uint(self, value, nbits, bitpos):\n        import bitstring\n", "    def set_uint(self, value, nbits, bitpos):\n        import bitstring\n        value = int(value) & NUMERIC_MISSING_VALUES[nbits]\n"),
    ('C02-codeflag-missing-minus-min', ['C02', 'C05', 'C10'], 'encoder.py', "            for idx, value in enumerate(values):\n                if value is None:\n                    value = NUMERIC_MISSING_VALUES[nbits_diff]\n                else:\n                    value -= min_value\n                values[idx] = value\n\n        bit_writer.write_uint(min_value, nbits_min_value)\n        bit_writer.write_uint(nbits_diff, NBITS_FOR_NBITS_DIFF)\n\n        if nbits_diff:\n            for value in values:\n                bit_writer.write_uint(value, nbits_diff)\n\n    def process_new_refval(",
     "            missing = NUMERIC_MISSING_VALUES[nbits_diff]\n            values = [(missing if value is None else value) - min_value for value in values]\n\n        bit_writer.write_uint(min_value, nbits_min_value)\n        bit_writer.write_uint(nbits_diff, NBITS_FOR_NBITS_DIFF)\n\n        if nbits_diff:\n            for value in values:\n                bit_writer.write_uint(value, nbits_diff)\n\n    def process_new_refval("),
    ('C14-flatten-reversed', ['C14', 'C08'], 'descriptors.py', "                members = member.members + members\n", "                members = member.members[::-1] + members\n"),
    ('C04-serialized-from-declared', ['C04', 'C11'], 'decoder.py', "            if info_only:\n                bufr_message.serialized_bytes = s[idx_start: idx_start + bufr_message.length.value]\n            else:\n",
     "            bufr_message.serialized_bytes = s[idx_start: idx_start + bufr_message.length.value]\n            if not info_only:\n"),
    ('C20-drop-next-value', ['C20'], 'dataprocessor.py', "                next_value().rstrip() + next_value().rstrip(),\n                next_value().strip(),", "                next_value().rstrip(),\n                next_value().strip(),"),
    # --- fourth round: reverts of the repairs made in /repo (each must be reported by the property it was recorded under)
    ('C08-203000-not-replayed', ['C08'], 'templatecompiler.py',
     "        super(CompilerState, self).cancel_new_refvals()\n        self.add_statement(StateMethodCall(get_func_name()))\n",
     "        super(CompilerState, self).cancel_new_refvals()\n"),
    ('C01-missing-table-65', ['C01'], 'constants.py', "NUMERIC_MISSING_VALUES = [2 ** i - 1 for i in range(256)]", "NUMERIC_MISSING_VALUES = [2 ** i - 1 for i in range(65)]"),
    ('C07-recall-last-bitmap', ['C07'], 'coder.py',
     "        self.build_bitmapped_descriptors(self.bitmap)\n        return self.bitmap\n",
     "        self.next_bitmapped_descriptor = functools.partial(next, iter(self.bitmapped_descriptors))\n        return self.bitmap\n"),
    ('C05-nul-column', ['C05'], 'decoder.py',
     "        # special cases: all missing or all equals\n        if min_value is None or nbits_diff == 0:\n            if nbits_diff != 0:\n                raise PyBufrKitError('{}: nbits_diff must be zero for compressed '\n                                     'values that are all missing or equal'.format(descriptor))\n            for decoded_values in state.decoded_values_all_subsets:\n                decoded_values.append(min_value)\n        else:\n            # A minimum of all zero octets",
     "        if min_value == b'\\0' * nbytes_min_value:\n            min_value = b''\n        # special cases: all missing or all equals\n        if min_value is None or nbits_diff == 0:\n            if nbits_diff != 0:\n                raise PyBufrKitError('{}: nbits_diff must be zero for compressed '\n                                     'values that are all missing or equal'.format(descriptor))\n            for decoded_values in state.decoded_values_all_subsets:\n                decoded_values.append(min_value)\n        else:\n            # A minimum of all zero octets"),
    ('C20-stale-compiled-templates', ['C20'], 'decoder.py',
     "                        if getattr(decoder, 'compiled_template_manager', None):\n                            decoder.compiled_template_manager.cache.clear()\n", ""),
    ('C11-foreign-category-11', ['C11'], 'decoder.py',
     "                    except PyBufrKitError as e:\n                        # Data category 11 does not oblige",
     "                    except ZeroDivisionError as e:\n                        # Data category 11 does not oblige"),
    ('C12-negative-rest', ['C12', 'C04'], 'decoder.py', "                if nbits_rest < 0:\n", "                if nbits_rest < -10 ** 9:\n"),
    ('C13-wired-before-wiring', ['C13'], 'templatedata.py',
     "        if self._is_wired:\n            return\n",
     "        if self._is_wired:\n            return\n        self._is_wired = True\n"),
    ('C16-first-repetition-only', ['C16'], 'dataquery.py',
     "                sub_nodes = self.filter_for_nodes(member_nodes, path_component)\n                if not sub_nodes:\n                    continue\n",
     "                first = self.filter_for_indices(node.members[:node.descriptor.n_members], path_component)\n                sub_nodes = [member_nodes[k] for k in first]\n                if not sub_nodes:\n                    continue\n"),
    # --- seventh round
    ('C20-table-a-fixed-offset', ['C20'], 'dataprocessor.py', "itertools.count(n_repeats * 3 + (1 if is_delayed_replication else 0))", "itertools.count(n_repeats * 3 + 1 if is_delayed_replication else 0)"),
    ('C07-237255-guarded', ['C07', 'C01'], 'coder.py', "            else:  # 255 cancel re-used bitmap\n                state.cancel_bitmap()\n",
     "            else:  # 255 cancel re-used bitmap\n                if state.most_recent_bitmap_is_for_reuse:\n                    state.cancel_bitmap()\n"),
]

# (id, checks that must stay silent, file, old, new)
TWINS = [
    ('T-decoder-one-line', ['C01', 'C02', 'C03', 'C05'], 'decoder.py',
     "        if value is not None:\n            if refval:\n                value += refval\n            if scale_powered != 1:\n                value /= scale_powered\n        state.decoded_values.append(value)",
     "        if value is not None:\n            value = value + refval if refval else value\n            value = value / scale_powered if scale_powered != 1 else value\n        state.decoded_values.append(value)"),
    ('T-width-arg-reordered', ['C02', 'C05'], 'encoder.py', "            nbits_diff = nbits_for_uint(max_value - min_value + 1)\n            # Now subtract", "            nbits_diff = nbits_for_uint(1 + max_value - min_value)\n            # Now subtract"),
    ('T-missing-ge2', ['C01', 'C19', 'C05'], 'bitops.py', "if nbits > 1 and value", "if nbits >= 2 and value"),
    ('T-uint-always', ['C19', 'C02', 'C03'], 'bitops.py', "fmt_string = ('uintbe:{}' if nbits % NBITS_PER_BYTE == 0 else 'uint:{}').format(nbits)", "fmt_string = 'uint:{}'.format(nbits)"),
    ('T-rename-local', ['C01', 'C02', 'C05'], 'decoder.py', "        nbits_diff = bit_reader.read_uint(NBITS_FOR_NBITS_DIFF)\n\n        # special cases: all missing or all equals\n        if min_value is None:\n            if nbits_diff != 0:",
     "        nbits_diff = width = bit_reader.read_uint(NBITS_FOR_NBITS_DIFF)\n\n        # special cases: all missing or all equals\n        if min_value is None:\n            if width != 0:"),
    ('T-reset-via-helper', ['C06', 'C07', 'C08'], 'coder.py',
     "        self.nbits_offset = 0  # 201\n        self.scale_offset = 0  # 202\n\n        self.nbits_of_new_refval = 0  # 203\n\n        self.nbits_of_associated = []  # 204",
     "        self._reset_201_202()\n\n        self.nbits_of_new_refval = 0  # 203\n\n        self.nbits_of_associated = []  # 204"),
    ('T-207-literal', ['C01'], 'coder.py', "nbits_increment=(10 * operand_value + 2) // 3,", "nbits_increment=(operand_value * 10 + 2) // 3,"),
    ('T-201-explicit-if', ['C01', 'C08'], 'coder.py', "            state.nbits_offset = (operand_value - 128) if operand_value else 0",
     "            if operand_value == 0:\n                state.nbits_offset = 0\n            else:\n                state.nbits_offset = operand_value - 128"),
    ('T-subset-sorted-set', ['C10'], 'bufr.py', "len(set(subset_indices)) if parameter.name == 'n_subsets'", "len(frozenset(subset_indices)) if parameter.name == 'n_subsets'"),
    ('T-mdquery-lstrip-check', ['C17'], 'mdquery.py', "if not metadata_expr.startswith(METADATA_QUERY_INDICATOR_CHAR):", "if metadata_expr[:1] != METADATA_QUERY_INDICATOR_CHAR:"),
    ('T-padding-formula', ['C04', 'C02'], 'encoder.py', "            nbits_padding_for_octet = 0 if nbits_residue == 0 else (NBITS_PER_BYTE - nbits_residue)",
     "            nbits_padding_for_octet = (NBITS_PER_BYTE - nbits_residue) % NBITS_PER_BYTE"),
    ('T-script-elif-order', ['C18'], 'script.py', "        elif c == '\\n' and state == STATE_COMMENT:\n            state = STATE_IDLE\n            keep.append(c)\n",
     "        elif state == STATE_COMMENT and c == '\\n':\n            keep.append(c)\n            state = STATE_IDLE\n"),
    ('T-parser-state-test', ['C15'], 'dataquery.py', "            elif c == '@':  # start of subset specifier\n                if self.current_state == STATE_START_PARSING:\n                    self.current_state = STATE_START_SUBSET\n                else:\n                    raise unexpected_char_error(c, self.pos)",
     "            elif c == '@':  # start of subset specifier\n                if self.current_state != STATE_START_PARSING:\n                    raise unexpected_char_error(c, self.pos)\n                self.current_state = STATE_START_SUBSET"),
    ('T-scanner-advance-var', ['C11', 'C12'], 'decoder.py', "            idx_start += len(bufr_message.serialized_bytes)\n\n            if matched:", "            n_consumed = len(bufr_message.serialized_bytes)\n            idx_start = idx_start + n_consumed\n\n            if matched:"),
    ('T-cache-key-named', ['C08', 'C13', 'C12'], 'templatecompiler.py', "        key_of_compiled_template = (\n            tuple(template.original_descriptor_ids),\n            table_group.key\n        )",
     "        ids = tuple(template.original_descriptor_ids)\n        key_of_compiled_template = (ids, table_group.key)"),
    ('T-bitmap-reuse-flag', ['C07', 'C08'], 'coder.py', "                state.most_recent_bitmap_is_for_reuse = True\n                state.bitmap_definition_state = BITMAP_WAITING_FOR_BIT\n                state.n_031031 = 0\n\n            elif descriptor.id == 237000:",
     "                state.n_031031 = 0\n                state.bitmap_definition_state = BITMAP_WAITING_FOR_BIT\n                state.most_recent_bitmap_is_for_reuse = True\n\n            elif descriptor.id == 237000:"),
    ('T-write-int-abs', ['C19'], 'bitops.py', "        self.write_bool(value < 0)\n        self.write_uint(abs(value), nbits - 1)", "        negative = value < 0\n        self.write_bool(negative)\n        self.write_uint(-value if negative else value, nbits - 1)"),
    ('T-lookup-get', ['C14'], 'tables.py', "        try:\n            descriptor = self.descriptors[id_]\n        except KeyError:\n            descriptor = UndefinedSequenceDescriptor(id_)\n\n        return descriptor",
     "        descriptor = self.descriptors.get(id_)\n        if descriptor is None:\n            descriptor = UndefinedSequenceDescriptor(id_)\n\n        return descriptor"),
    # --- wave 2 twins
    ('T-read-bool-ne0', ['C12', 'C19'], 'bitops.py', "self._bit_stream_read('uint:1') == 1", "self._bit_stream_read('uint:1') != 0"),
    ('T-factor-guard-type', ['C12', 'C01', 'C08'], 'coder.py', "        if not isinstance(descriptor, ElementDescriptor):\n            # e.g.", "        if not isinstance(descriptor, (ElementDescriptor,)):\n            # e.g."),
    ('T-reset-by-table', ['C06', 'C13', 'C07'], 'coder.py', "        self.nbits_offset = 0  # 201\n        self.scale_offset = 0  # 202\n\n        self.nbits_of_new_refval = 0  # 203\n\n        self.nbits_of_associated = []  # 204",
     "        for name, value in SCALAR_DEFAULTS:\n            setattr(self, name, value)\n\n        self.nbits_of_associated = []  # 204"),
    ('T-overrides-copy-then-pop', ['C13'], 'bufr.py', "            for idx, parameter in enumerate(section):\n                parameter.value = values[idx] if overrides is None else overrides.get(parameter.name, values[idx])",
     "            overrides = dict(overrides or {})\n            for idx, parameter in enumerate(section):\n                parameter.value = overrides.pop(parameter.name, values[idx])"),
    ('T-add-node-inline', ['C09', 'C07'], 'templatedata.py', "            node.add_attribute(assoc_node)\n            self.add_node(node)", "            node.add_attribute(assoc_node)\n            self.decoded_nodes.append(node)\n            self.index_to_node[node.index] = node"),
    ('T-flatten-deque', ['C14', 'C08'], 'descriptors.py', "        members = list(self.members)\n        while members:\n            member = members.pop(0)\n            ret.append(member.id)\n            if isinstance(member, ReplicationDescriptor):\n                if isinstance(member, DelayedReplicationDescriptor):\n                    ret.append(member.factor.id)\n                members = member.members + members\n",
     "        from collections import deque\n        members = deque(self.members)\n        while members:\n            member = members.popleft()\n            ret.append(member.id)\n            if isinstance(member, ReplicationDescriptor):\n                if isinstance(member, DelayedReplicationDescriptor):\n                    ret.append(member.factor.id)\n                members.extendleft(reversed(member.members))\n"),
    ('T-wire-range-var', ['C06', 'C09', 'C05'], 'templatedata.py', "        for idx_subset in range(n_subsets):\n            self.decoded_nodes = self.decoded_nodes_all_subsets[idx_subset]", "        for k in range(n_subsets):\n            idx_subset = k\n            self.decoded_nodes = self.decoded_nodes_all_subsets[idx_subset]"),
    ('T-dispatch-floordiv', ['C19'], 'bitops.py', "            return func(value, nbits // NBITS_PER_BYTE)\n        elif data_type in ('bool', 'bin'):\n            return func(value)", "            return func(value, nbits >> 3)\n        elif data_type in ('bool', 'bin'):\n            return func(value)"),
    ('T-extra-entries-loop', ['C20'], 'tables.py', "        self.extra_b_entries.update(b_entries)\n        self.extra_d_entries.update(d_entries)", "        for k, v in b_entries.items():\n            self.extra_b_entries[k] = v\n        for k, v in d_entries.items():\n            self.extra_d_entries[k] = v"),
]

EXTRA_FILES = {
    'C06-shared-default-list': ('coder.py', "log = logging.getLogger(__file__)\n", "log = logging.getLogger(__file__)\nNO_ASSOCIATED = []\n"),
    'T-reset-by-table': ('coder.py', "log = logging.getLogger(__file__)\n", "log = logging.getLogger(__file__)\nSCALAR_DEFAULTS = (('nbits_offset', 0), ('scale_offset', 0), ('nbits_of_new_refval', 0))\n"),
    # helper needed by twin T-reset-via-helper
    'T-reset-via-helper': ('coder.py', "    def mark_back_reference_boundary(self):", "    def _reset_201_202(self):\n        self.nbits_offset = 0  # 201\n        self.scale_offset = 0  # 202\n\n    def mark_back_reference_boundary(self):"),
}


def _run_one(job):
    kind, ident, prop, fname, old, new = job
    d = tempfile.mkdtemp(prefix='selftest_')
    try:
        shutil.copytree('/repo/pybufrkit', os.path.join(d, 'pybufrkit'), ignore=shutil.ignore_patterns('tables', '__pycache__'))
        p = os.path.join(d, 'pybufrkit', fname)
        s = open(p).read()
        if s.count(old) != 1:
            return (kind, ident, prop, 'stale', 'edit anchor occurs %d times in %s' % (s.count(old), fname))
        s = s.replace(old, new)
        if ident in EXTRA_FILES:
            f2, o2, n2 = EXTRA_FILES[ident]
            if f2 == fname:
                if s.count(o2) != 1:
                    return (kind, ident, prop, 'stale', 'helper anchor missing')
                s = s.replace(o2, n2)
        open(p, 'w').write(s)
        try:
            compile(s, p, 'exec')
        except SyntaxError as e:
            return (kind, ident, prop, 'stale', 'edited file does not compile: %s' % e)
        r = subprocess.run([sys.executable, os.path.join(HERE, 'run.py'), prop, '--repo', d, '--no-selftest'], stdout=subprocess.PIPE, stderr=subprocess.STDOUT)
        out = r.stdout.decode()
        first = ''
        for l in out.splitlines():
            if ': rule ' in l:
                first = l.strip()[:200]
                break
        if r.returncode == 2:
            first = [l for l in out.splitlines() if 'ANALYSIS-ERROR' in l][:1]
            first = first[0][:200] if first else 'exit 2'
        return (kind, ident, prop, {0: 'silent', 1: 'violation', 2: 'analysis-error'}.get(r.returncode, 'exit %d' % r.returncode), first)
    finally:
        shutil.rmtree(d, ignore_errors=True)


def _run_patch(job):
    """A stored change (seeded/<id> or twins/<id>, written by an independent sub-agent) applied as a patch to a scratch copy."""
    kind, ident, prop, patch = job
    d = tempfile.mkdtemp(prefix='selftest_')
    try:
        shutil.copytree('/repo/pybufrkit', os.path.join(d, 'pybufrkit'), ignore=shutil.ignore_patterns('tables', '__pycache__'))
        r = subprocess.run(['patch', '-p1', '-s', '-i', patch], cwd=d, stdout=subprocess.PIPE, stderr=subprocess.STDOUT)
        if r.returncode != 0:
            return (kind, ident, prop, 'stale', 'patch does not apply to the current tree')
        r = subprocess.run([sys.executable, os.path.join(HERE, 'run.py'), prop, '--repo', d, '--no-selftest'], stdout=subprocess.PIPE, stderr=subprocess.STDOUT)
        out = r.stdout.decode()
        first = ''
        for l in out.splitlines():
            if ': rule ' in l or 'ANALYSIS-ERROR' in l:
                first = l.strip()[:200]
                break
        return (kind, ident, prop, {0: 'silent', 1: 'violation', 2: 'analysis-error'}.get(r.returncode, 'exit %d' % r.returncode), first)
    finally:
        shutil.rmtree(d, ignore_errors=True)


def stored_changes(prop):
    import glob
    root = os.path.dirname(HERE)
    work = []
    for d in sorted(glob.glob(os.path.join(root, 'seeded', prop + '-*'))):
        if os.path.exists(os.path.join(d, 'patch.diff')):
            work.append(('seeded', os.path.basename(d), prop, os.path.join(d, 'patch.diff')))
    # every stored behaviour-preserving change must leave this check silent, whichever property it was written for
    for d in sorted(glob.glob(os.path.join(root, 'twins', 'C*-*'))):
        if os.path.exists(os.path.join(d, 'patch.diff')):
            work.append(('stored-twin', os.path.basename(d), prop, os.path.join(d, 'patch.diff')))
    return work


def run_for(prop, jobs=16):
    out = _run_builtin(prop, jobs)
    work = stored_changes(prop)
    if work:
        with multiprocessing.Pool(min(jobs, len(work))) as pool:
            res = pool.map(_run_patch, work)
        out.update({'seeded': 0, 'seeded_detected': 0, 'stored_twins': 0, 'stored_twins_silent': 0})
        out.setdefault('survivors', [])
        out.setdefault('noisy_twins', [])
        out.setdefault('stale', [])
        for kind, ident, p, verdict, first in res:
            if verdict == 'stale':
                out['stale'].append('%s: %s' % (ident, first))
            elif kind == 'seeded':
                out['seeded'] += 1
                if verdict == 'violation':
                    out['seeded_detected'] += 1
                else:
                    out['survivors'].append('seeded %s (%s)' % (ident, verdict))
            else:
                out['stored_twins'] += 1
                if verdict == 'silent':
                    out['stored_twins_silent'] += 1
                else:
                    out['noisy_twins'].append('stored twin %s (%s: %s)' % (ident, verdict, first))
    return out


def _run_builtin(prop, jobs=16):
    work = []
    for ident, props, fname, old, new in MUTANTS:
        if prop in props:
            work.append(('mutant', ident, prop, fname, old, new))
    for ident, props, fname, old, new in TWINS:
        if prop in props:
            work.append(('twin', ident, prop, fname, old, new))
    if not work:
        return {'mutants': 0, 'twins': 0}
    with multiprocessing.Pool(min(jobs, len(work))) as pool:
        res = pool.map(_run_one, work)
    out = {'mutants': 0, 'mutants_detected': 0, 'twins': 0, 'twins_silent': 0, 'survivors': [], 'noisy_twins': [], 'stale': [], 'details': []}
    for kind, ident, p, verdict, first in res:
        out['details'].append({'kind': kind, 'id': ident, 'verdict': verdict, 'first_report': first})
        if verdict == 'stale':
            out['stale'].append('%s: %s' % (ident, first))
            continue
        if kind == 'mutant':
            out['mutants'] += 1
            if verdict == 'violation':
                out['mutants_detected'] += 1
            else:
                out['survivors'].append('%s (%s)' % (ident, verdict))
        else:
            out['twins'] += 1
            if verdict == 'silent':
                out['twins_silent'] += 1
            else:
                out['noisy_twins'].append('%s (%s: %s)' % (ident, verdict, first))
    return out


if __name__ == '__main__':
    props = sys.argv[1:] or sorted(set(p for m in MUTANTS + TWINS for p in m[1]))
    bad = 0
    for p in props:
        r = run_for(p)
        print('%s: mutants %d/%d detected, twins %d/%d silent%s%s%s' % (
            p, r.get('mutants_detected', 0), r.get('mutants', 0), r.get('twins_silent', 0), r.get('twins', 0),
            '; survivors: %s' % r['survivors'] if r.get('survivors') else '', '; NOISY: %s' % r['noisy_twins'] if r.get('noisy_twins') else '',
            '; stale: %s' % r['stale'] if r.get('stale') else ''))
        bad += len(r.get('survivors', [])) + len(r.get('noisy_twins', [])) + len(r.get('stale', []))
    sys.exit(1 if bad else 0)
